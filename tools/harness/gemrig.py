"""Shared rig of the C07 / C08 harnesses: REAL GemHostHandler / GemEquipmentHandler over a REAL HsmsProtocol.

Only the outermost boundary is replaced:
  * `Connection`       -> `MemConn` (in memory; `send_data` records the bytes written, in order)
  * `threading.Timer`  -> `FakeTimer`, patched into the *module namespaces* of `secsgem.gem.communication_state_machine`
                          and `secsgem.hsms.protocol` (T3 / establish-communications delay / linktest become explicit inputs)
Transparent observers (call through, record only) are put on `CallbackHandler._call`, `SecsHandler._handle_unknown_functions`,
`StateMachine._perform_transition` (records `WrongSourceStateError`) and `ProtocolDispatcher.start` (thread handles for cleanup).
Every wait is bounded; every thread is a daemon.
"""
from __future__ import annotations

import logging
import os
import re
import struct
import sys
import threading
import time

sys.path.insert(0, os.path.dirname(os.path.dirname(os.path.abspath(__file__))))
import hlib  # noqa: E402,F401  (puts $VERIF_REPO or /repo first on sys.path)

import secsgem.common  # noqa: E402
import secsgem.gem  # noqa: E402
import secsgem.gem.communication_state_machine as csm  # noqa: E402
import secsgem.hsms  # noqa: E402
import secsgem.hsms.protocol as hproto  # noqa: E402
import secsgem.secs  # noqa: E402
from secsgem.common.protocol_dispatcher import ProtocolDispatcher  # noqa: E402

logging.disable(logging.CRITICAL)

SF_RE = re.compile(r"s(\d+)f(\d+)")
# Deadlines.  Observations are taken at QUIESCENCE (see `Rig.quiesce`), never after a fixed sleep; a deadline only ends a wait for
# something that never comes.  It must be long enough that machine load cannot trigger it (the first stall of a process waits
# `WAIT_FIRST`); once the implementation has shown that it really stalls, later stalls wait `WAIT_LATER` so that a stuck mutation
# does not blow the time budget.
WAIT_FIRST = 20.0
WAIT_LATER = 4.0
STALLS = [0]
WAIT = None  # set to a number to force one bound (a harness that wants a specific bound for one scenario)


def deadline() -> float:
    if WAIT is not None:
        return WAIT
    return WAIT_FIRST if STALLS[0] == 0 else WAIT_LATER


class Stuck(Exception):
    """a bounded wait ran out"""

    def __init__(self, what):
        STALLS[0] += 1
        super().__init__(what)


# ------------------------------------------------------------------------------------------------ fake timer
class FakeTimer:
    """Stands in for `threading.Timer`: never fires by itself; the harness fires it."""

    created: list = []  # every fake timer still of interest, oldest first (a rig drops its own in `close`)

    def __init__(self, interval, function, args=None, kwargs=None):
        FakeTimer.created.append(self)
        self.interval, self.function = interval, function
        self.args, self.kwargs = args or (), kwargs or {}
        self.started = self.cancelled = self.fired = False
        self.daemon = True
        self.name = "fake-timer"

    def start(self):
        self.started = True

    def cancel(self):
        self.cancelled = True

    def is_alive(self):
        return self.armed

    def join(self, timeout=None):
        return None

    @property
    def armed(self):
        return self.started and not self.cancelled and not self.fired


class ThreadingShim:
    """`threading` as seen by the patched modules: everything real except `Timer`."""

    Timer = FakeTimer

    def __getattr__(self, name):
        return getattr(threading, name)


csm.threading = ThreadingShim()
hproto.threading = ThreadingShim()


# ------------------------------------------------------------------------------------------------ connection
class MemConn(secsgem.common.Connection):
    def __init__(self, settings):
        super().__init__(settings)
        self.rig = None
        self.refuse = 0  # fault input: the next `refuse` calls of send_data return False (the socket refuses the write)
        self.lie = 0     # fault input: the next `lie` calls transmit the data and return False all the same (error after the write)

    def enable(self):
        # a transport whose enable() brings the link up synchronously (serial line, in-process pipe): connected and selected
        # before enable() returns
        rig = self.rig
        if rig is not None and rig.sync_enable:
            rig.select(inline=True)

    def disable(self):
        pass

    def send_data(self, data):
        rig = self.rig
        if self.refuse > 0:
            self.refuse -= 1
            if rig is not None:
                rig.log.append(("refused", bytes(data)))
            return False
        if rig is not None:
            rig.log.append(("raw", bytes(data)))
        if self.lie > 0:
            self.lie -= 1
            return False
        return True


class MemSettings(secsgem.hsms.HsmsSettings):
    def create_connection(self):
        self.conn = MemConn(self)
        return self.conn


# ------------------------------------------------------------------------------------------------ observers
RIGS: dict[int, "Rig"] = {}
DISPATCHERS: list = []

_orig_call = secsgem.common.CallbackHandler._call


def _obs_call(self, callback, *args, **kwargs):
    rig = RIGS.get(id(self))
    m = SF_RE.fullmatch(callback)
    if rig is not None and m:
        rig.log.append(("cb", int(m.group(1)), int(m.group(2))))
    return _orig_call(self, callback, *args, **kwargs)


secsgem.common.CallbackHandler._call = _obs_call

_orig_unknown = secsgem.secs.SecsHandler._handle_unknown_functions


def _obs_unknown(self, message):
    rig = RIGS.get(id(self))
    if rig is not None:
        rig.log.append(("unk", message.header.stream, message.header.function, bool(message.header.require_response)))
    return _orig_unknown(self, message)


secsgem.secs.SecsHandler._handle_unknown_functions = _obs_unknown

_orig_pt = secsgem.common.StateMachine._perform_transition


def _obs_pt(self, name):
    try:
        return _orig_pt(self, name)
    except secsgem.common.WrongSourceStateError:
        rig = RIGS.get(id(self))
        if rig is not None:
            rig.log.append(("ws", name))
        raise


secsgem.common.StateMachine._perform_transition = _obs_pt

_orig_start = ProtocolDispatcher.start


def _obs_start(self):
    _orig_start(self)
    DISPATCHERS.append((self, self._dispatcher_thread))


ProtocolDispatcher.start = _obs_start


# ------------------------------------------------------------------------------------------------ watchdog
class Actor:
    """A helper thread that runs the harness' calls into the real code, so that the harness thread can give up on them:
    the real code has unbounded waits (`BlockSendInfo.wait`).  One thread serves many calls; a stuck one is abandoned."""

    def __init__(self):
        import queue
        self.q = queue.SimpleQueue()
        self.t = threading.Thread(target=self._loop, daemon=True)
        self.t.start()

    def _loop(self):
        while True:
            fn, done, box = self.q.get()
            try:
                fn()
            except BaseException as exc:  # noqa: BLE001
                box.append(exc)
            done.set()

    def submit(self, fn):
        done, box = threading.Event(), []
        self.q.put((fn, done, box))
        return done, box


_ACTOR: list = []


def actor_submit(fn):
    if not _ACTOR:
        _ACTOR.append(Actor())
    return _ACTOR[0].submit(fn)


def actor_abandon():
    _ACTOR.clear()


# ------------------------------------------------------------------------------------------------ rig
class Rig:
    """One real handler on an in-memory link."""

    FOREIGN = 5_000_000
    INBOUND = 6_000_000
    CONTROL = 7_000_000

    def __init__(self, role: str, commack_req: int = 0, user_cbs=(), handler_kwargs=None, t3: float | None = None, delay=None):
        base = secsgem.gem.GemEquipmentHandler if role == "equipment" else secsgem.gem.GemHostHandler
        cls = base
        if commack_req:
            cls = type(base.__name__ + "Deny", (base,), {"on_commack_requested": lambda self_: commack_req})
        self.role = role
        # timer settings are part of what is quantified over: a value is passed to the constructor only when one is configured
        kw = {}
        if t3 is not None:
            kw["t3"] = t3
        if delay is not None:
            kw["establish_communication_timeout"] = delay
        self.configured_t3 = 45.0 if t3 is None else t3            # documented defaults: T3 45 s, establish-communications delay 10 s
        self.configured_delay = 10 if delay is None else delay
        self.settings = MemSettings(
            connect_mode=secsgem.hsms.HsmsConnectMode.PASSIVE,
            device_type=secsgem.common.DeviceType.EQUIPMENT if role == "equipment" else secsgem.common.DeviceType.HOST, **kw)
        self.log: list = []
        self.h = cls(self.settings, **(handler_kwargs or {}))
        self.p = self.h.protocol
        self.p._system_counter = 1000  # deterministic own system bytes, far from the ranges used for inbound messages
        self.c = self.p._connection
        self.c.rig = self
        self.sync_enable = False  # the connection's enable() brings the link up (connected + selected) before it returns
        self.connected = False  # a transport connection exists (the protocol's receiver thread runs)
        self.link = False       # ... and the session is selected
        self.fed = 0
        self.done = 0
        self._n = 0
        inner = self.p._thread._dispatcher_target

        self.done_cond = threading.Condition()
        self.busy = 0  # protocol threads (receiver pass, dispatcher call) that are inside the real code right now

        def counted(*a):
            with self.done_cond:
                self.busy += 1
            try:
                return inner(*a)
            finally:
                with self.done_cond:  # two dispatcher threads exist after a reconnect (they are never stopped)
                    self.busy -= 1
                    self.done += 1
                    self.done_cond.notify_all()

        self.p._thread._dispatcher_target = counted
        inner_rx = self.p._thread._receiver_target

        def receiving(*a):
            with self.done_cond:
                self.busy += 1
            try:
                return inner_rx(*a)
            finally:
                with self.done_cond:
                    self.busy -= 1
                    self.done_cond.notify_all()

        self.p._thread._receiver_target = receiving
        RIGS[id(self.h)] = self
        RIGS[id(self.h._callback_handler)] = self
        RIGS[id(self.h._communication_state)] = self
        self.h.events.handler_communicating += lambda _d: self.log.append(("evt",))
        self.user_outcome = {}
        for s, f in user_cbs:
            self.h.register_stream_function(s, f, self._user_cb)
        self.helpers: list[threading.Thread] = []

    # ---- user callback: logs its own invocation and does what `user_outcome[(s, f)]` says (default: return None)
    def _user_cb(self, handler, message):
        self.log.append(("ucb", message.header.stream, message.header.function))
        what = self.user_outcome.get((message.header.stream, message.header.function))
        if what is None:
            return None
        return what(handler, message)

    def fresh(self) -> int:
        self._n += 1
        return self._n

    # ---- feeding
    def feed(self, msg):
        blocks = msg.blocks
        self.fed += len(blocks)
        for b in blocks:
            self.c.on_data({"source": self.c, "data": b.encode()})
        self.wait_done()

    def wait_done(self):
        with self.done_cond:
            if not self.done_cond.wait_for(lambda: self.done >= self.fed, timeout=deadline()):
                raise Stuck("dispatch of an inbound block")
        self.quiesce()

    def is_quiet(self) -> bool:
        """nothing is in flight: every fed block dispatched, no protocol thread inside the real code, its trigger not set, the
        dispatch queue empty and — while a connection exists — the send queue and the receive buffer empty (without a connection the
        send queue legitimately holds what blocked senders put there)"""
        th = self.p._thread
        if self.done < self.fed or self.busy or th._dispatch_queue.qsize() or th._dispatcher_thread_trigger.is_set():
            return False
        if self.connected and (th._receiver_thread_trigger.is_set() or not self.p._send_queue.empty() or len(self.p._receive_buffer)):
            return False
        return True

    def quiesce(self, what="quiescence of the protocol threads"):
        """wait until nothing is in flight (two consecutive looks), polling with a tiny sleep"""
        end = None
        while True:
            if self.is_quiet():
                time.sleep(0)  # let a thread that is about to pick something up run, then look again
                if self.is_quiet():
                    return
            if end is None:
                end = time.monotonic() + deadline()
            elif time.monotonic() > end:
                raise Stuck(what)
            time.sleep(0.0002)

    def feed_raw(self, raw: bytes, nblocks: int = 1):
        self.fed += nblocks
        self.c.on_data({"source": self.c, "data": raw})
        self.wait_done()

    @staticmethod
    def wait(cond, what):
        end = time.monotonic() + deadline()
        spins = 0
        while not cond():
            spins += 1
            if spins < 200:
                time.sleep(0)
            else:
                time.sleep(0.0005)
            if time.monotonic() > end:
                raise Stuck(what)

    def bounded(self, fn, what):
        """run an action of the harness thread under a watchdog: the real code has unbounded waits (`BlockSendInfo.wait`)"""
        done, box = actor_submit(fn)
        if not done.wait(deadline()):
            actor_abandon()
            raise Stuck(what)
        if box:
            raise box[0]

    def connect(self, inline=False):
        """the transport connection comes up (no Select yet); `inline`: called from inside the watched helper thread already"""
        if not self.connected:
            if inline:
                self.c.on_connected({"source": self.c})
            else:
                self.bounded(lambda: self.c.on_connected({"source": self.c}), "on_connected")
            self.connected = True
            if not inline:
                self.quiesce("the new connection writing its send queue")  # the receiver thread that just started flushes asynchronously

    def select(self, inline=False):
        self.connect(inline)
        self.feed(secsgem.hsms.HsmsMessage(secsgem.hsms.HsmsSelectReqHeader(self.CONTROL + self.fresh()), b""))
        self.link = True

    def lose(self):
        if not self.connected:
            return

        def go():
            self.c.on_disconnecting({"source": self.c})
            self.c.on_disconnected({"source": self.c})

        self.link = self.connected = False
        self.bounded(go, "on_disconnecting/on_disconnected")

    def data_message(self, s, f, w, system, body=b""):
        return secsgem.hsms.HsmsMessage(secsgem.hsms.HsmsStreamFunctionHeader(system, s, f, w, self.settings.device_id), body)

    def fire(self, timer) -> bool:
        """Fire a fake timer in a helper thread.  True when the thread is left blocked in a send on a dead link."""
        timer.fired = True
        q0 = self.p._send_queue.qsize()

        def run():
            try:
                timer.function()
            except secsgem.common.WrongSourceStateError:
                pass  # recorded by the `_perform_transition` observer; a real Timer thread would print it and end

        done, _ = actor_submit(run)
        end = time.monotonic() + deadline()
        while not done.wait(0.0005):
            if not self.connected and self.p._send_queue.qsize() > q0:
                # the sender has put its block into the send queue and there is no receiver thread to write it: from here on it can
                # only block in BlockSendInfo.wait() for ever (state change and timers were done before the send) - not a matter of time
                actor_abandon()
                return True
            if time.monotonic() > end:
                actor_abandon()
                raise Stuck("timer callback")
        self.quiesce()
        return False

    def timers(self, kind):
        """the fake timers of this handler's communication state machine that are still pending, oldest first;
        kind: `_on_wait_cra_timeout` (T3) or `_on_wait_comm_delay_timeout` (establish-communications delay)"""
        m = self.h._communication_state
        return [t for t in FakeTimer.created if t.armed and getattr(t.function, "__self__", None) is m and t.function.__name__ == kind]

    # ---- observation
    def frames(self, entries):
        """decode ("raw", bytes) entries of a log slice into HSMS blocks, other entries unchanged (order kept)"""
        out = []
        buf = b""
        for e in entries:
            if e[0] != "raw":
                out.append(e)
                continue
            buf += e[1]
            while len(buf) >= 4:
                n = struct.unpack(">L", buf[:4])[0] + 4
                if len(buf) < n:
                    break
                out.append(("frame", secsgem.hsms.HsmsBlock.decode(buf[:n])))
                buf = buf[n:]
        return out

    def comm(self) -> str:
        return self.h.communication_state.current.name

    def close(self):
        """release every thread this rig started (bounded)"""
        th = self.p._thread
        # senders blocked on a dead link
        while not self.p._send_queue.empty():
            try:
                self.p._send_queue.get_nowait().resolve(False)
            except Exception:  # noqa: BLE001
                break
        th._stop_receiver_thread = True
        th._receiver_thread_trigger.set()
        mine = [(d, t) for d, t in DISPATCHERS if d is th]
        end = time.monotonic() + WAIT_LATER
        for _, t in mine:
            # each thread that ends resets the flag, so it is set again for every one of them
            while t.is_alive() and time.monotonic() < end:
                th._stop_dispatcher_thread = True
                th._dispatcher_thread_trigger.set()
                t.join(0.002)
        DISPATCHERS[:] = [(d, t) for d, t in DISPATCHERS if d is not th]
        mine_t = (self.h._communication_state, self.p)
        FakeTimer.created[:] = [t for t in FakeTimer.created if getattr(t.function, "__self__", None) not in mine_t]
        for k in (id(self.h), id(self.h._callback_handler), id(self.h._communication_state)):
            RIGS.pop(k, None)
        self.c.rig = None


# ------------------------------------------------------------------------------------------------ isolation probe
def shared_mutables(a, b, depth=2):
    """Mutable objects that two independently constructed handlers have in common (each must own its lists, dicts, events,
    queues, state machines, callback tables …).  Walks instance and class attributes (no properties are evaluated), `depth`
    levels into objects of secsgem classes.  Loggers, classes, functions, modules, enum members and immutable values are fine."""
    import collections
    import enum
    import logging as _logging
    import queue as _queue
    import types

    containers = (list, dict, set, bytearray, collections.deque, _queue.Queue, _queue.SimpleQueue, threading.Event, threading.Condition,
                  type(threading.Lock()), type(threading.RLock()))
    found, seen = [], set()

    def attrs(o):
        out = dict(vars(o)) if hasattr(o, "__dict__") else {}
        for cls in type(o).__mro__:
            if cls.__module__.startswith("secsgem"):
                for k, v in vars(cls).items():
                    if not k.startswith("__") and k not in out and not callable(v) and not isinstance(v, (property, classmethod, staticmethod, types.MemberDescriptorType)):
                        out[k] = v
        return out

    def is_obj(v):
        return type(v).__module__.startswith("secsgem") and not isinstance(v, (enum.Enum, type))

    def walk(x, y, path, d):
        if (id(x), id(y)) in seen:
            return
        seen.add((id(x), id(y)))
        ax, ay = attrs(x), attrs(y)
        for k in ax:
            if k not in ay:
                continue
            u, v = ax[k], ay[k]
            if isinstance(u, (_logging.Logger, type, types.FunctionType, types.ModuleType, types.MethodType)) or u is None:
                continue
            if u is v and (isinstance(u, containers) or is_obj(u)):
                found.append(f"{path}.{k} ({type(u).__name__})")
            elif d > 0 and is_obj(u) and is_obj(v):
                walk(u, v, f"{path}.{k}", d - 1)

    walk(a, b, type(a).__name__, depth)
    return found


# ------------------------------------------------------------------------------------------------ model driver
def driver_run(lines, tries: int = 40):
    """`hlib.Driver().run` on a private copy of the binary: several builders share `.lake`, and the executable is briefly
    absent while one of them relinks it."""
    import shutil
    import tempfile

    last = None
    for _ in range(tries):
        try:
            d = os.environ.get("VERIF_SCRATCH") or tempfile.gettempdir()
            own = os.path.join(d, f"driver-{os.getpid()}")
            shutil.copy2(hlib.DRIVER, own)
            old, hlib.DRIVER = hlib.DRIVER, own
            try:
                drv = hlib.Driver()
                if not drv.available:
                    raise FileNotFoundError(own)
                return drv.run(lines)
            finally:
                hlib.DRIVER = old
                try:
                    os.remove(own)
                except OSError:
                    pass
        except (FileNotFoundError, PermissionError, OSError) as exc:
            last = exc
            time.sleep(1.5)
    raise RuntimeError(f"model driver unavailable: {last}")
