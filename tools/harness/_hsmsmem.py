"""Shared by c04.py / c09.py / c10.py: in-memory `Connection`, settings that hand it out, reference E37 frame, canonical printing.

Only the outermost boundary (`Connection`) is replaced; `HsmsProtocol`, `ProtocolDispatcher`, `ByteQueue`, the codecs are the real ones.
"""
from __future__ import annotations

import logging
import os
import struct
import sys
import threading
import time

sys.path.insert(0, os.path.dirname(os.path.dirname(os.path.abspath(__file__))))
import hlib  # noqa: E402,F401  (puts $VERIF_REPO or /repo first on sys.path)

import secsgem.common  # noqa: E402
import secsgem.hsms  # noqa: E402
from secsgem.hsms.header import HsmsHeader, HsmsSType  # noqa: E402
from secsgem.hsms.message import HsmsBlock, HsmsMessage  # noqa: E402

logging.disable(logging.CRITICAL)

VALID_STYPES = [t.value for t in HsmsSType]
MAXES = {"system": 2**32 - 1, "device_id": 2**16 - 1, "stream": 127, "function": 255, "p_type": 255}


class MemConn(secsgem.common.Connection):
    """In-memory `Connection`: records what the protocol sends; `send_result` scripts the return value of `send_data`."""

    def __init__(self, settings):
        super().__init__(settings)
        self.sent: list[bytes] = []
        self.lock = threading.Lock()
        self.send_result = True

    def enable(self):
        pass

    def disable(self):
        pass

    def send_data(self, data):
        with self.lock:
            self.sent.append(bytes(data))
        return self.send_result

    def take(self) -> bytes:
        with self.lock:
            raw = b"".join(self.sent)
            self.sent = []
        return raw

    def frames(self):
        """decode everything sent so far (and forget it)"""
        return split_frames(self.take())


def split_frames(raw: bytes):
    out = []
    while len(raw) >= 4:
        n = struct.unpack(">L", raw[:4])[0] + 4
        if len(raw) < n:
            break
        out.append(HsmsBlock.decode(raw[:n]))
        raw = raw[n:]
    return out


class MemSettings(secsgem.hsms.HsmsSettings):
    def create_connection(self):
        self.conn = MemConn(self)
        return self.conn


def new_protocol(active=False, **kw):
    mode = secsgem.hsms.HsmsConnectMode.ACTIVE if active else secsgem.hsms.HsmsConnectMode.PASSIVE
    s = MemSettings(connect_mode=mode, **kw)
    p = secsgem.hsms.HsmsProtocol(s)
    c = p._connection
    return s, p, c


# ---------------------------------------------------------------------------------------------- reference + printing
def ref_frame(sy, dv, st, fn, w, pt, ty, body: bytes) -> bytes:
    """E37 §8.2 written out independently of secsgem."""
    return (struct.pack(">L", 10 + len(body)) + struct.pack(">H", dv) + bytes([(0x80 if w else 0) | st, fn, pt, ty])
            + struct.pack(">L", sy) + body)


def hdr_fields(h) -> list:
    return [int(h.system), int(h.device_id), int(h.stream), int(h.function), int(bool(h.require_response)), int(h.p_type), int(h.s_type.value)]


def show_header(h) -> str:
    return " ".join(str(x) for x in hdr_fields(h))


def show_block(b) -> str:
    return show_header(b.header) + " " + hlib.hexs(bytes(b.data))


def mk_header(vals) -> HsmsHeader:
    """vals = [system, device_id, stream, function, w, p_type, s_type(value of a valid SType)]"""
    return HsmsHeader(vals[0], vals[1], vals[2], vals[3], bool(vals[4]), vals[5], HsmsSType(vals[6]))


def gen_fields(rng: hlib.Rng, out_of_range=False, stype=None):
    vals = []
    for f in ("system", "device_id", "stream", "function"):
        m = MAXES[f]
        pool = [0, 1, m, m - 1, m // 2, m // 2 + 1]
        if out_of_range and rng.chance(1, 3):
            pool += [m + 1, -1, 2 * m + 1, m + 2, 2 * m + 2]
        vals.append(rng.choice(pool) if rng.chance(1, 2) else rng.range(0, m))
    vals.append(rng.below(2))
    m = MAXES["p_type"]
    pool = [0, 1, m, m - 1, 128]
    if out_of_range and rng.chance(1, 3):
        pool += [m + 1, -1]
    vals.append(rng.choice(pool) if rng.chance(2, 3) else rng.range(0, m))
    vals.append(stype if stype is not None else rng.choice(VALID_STYPES))
    return vals


def in_range(vals) -> bool:
    return (0 <= vals[0] <= MAXES["system"] and 0 <= vals[1] <= MAXES["device_id"] and 0 <= vals[2] <= 127
            and 0 <= vals[3] <= 255 and 0 <= vals[5] <= 255 and vals[6] in VALID_STYPES)


def impl(fn):
    try:
        return "ok " + fn()
    except Exception as exc:  # noqa: BLE001
        return "err " + hlib.errkind(exc)


# Deadlines.  Observations are taken when a logical condition holds (`wait_until(pred, …)`), never after a fixed sleep.  A deadline only ends
# a wait for something that does not come; its expiry is read as "did not happen" (a hang, a lost frame), so it has to be out of reach of
# machine load: the FIRST stall of a process waits `WAIT_FIRST`, whatever nominal bound the call site names; once the implementation has
# shown that it really stalls, later stalls wait `max(nominal, WAIT_LATER)` so that a stuck mutation does not blow the time budget.
WAIT_FIRST = 30.0
WAIT_LATER = 5.0
STALLS = [0]


def bound(nominal: float) -> float:
    return max(nominal, WAIT_FIRST if STALLS[0] == 0 else WAIT_LATER)


def wait_until(pred, timeout: float, step: float = 0.0005, must: bool = True) -> bool:
    """`must=True`: the condition is expected to come true, `timeout` is the nominal bound (see `bound`).  `must=False`: an optional wait of
    exactly `timeout` seconds whose expiry is not read as a failure."""
    limit = bound(timeout) if must else timeout
    end = time.monotonic() + limit
    spins = 0
    while True:
        if pred():
            return True
        if time.monotonic() >= end:
            if must:
                STALLS[0] += 1
            return False
        spins += 1
        time.sleep(0 if spins < 50 else step)


def wait_event(ev, timeout: float) -> bool:
    """`threading.Event.wait` with the load-proof bound"""
    ok = ev.wait(bound(timeout))
    if not ok:
        STALLS[0] += 1
    return ok


def partitions_random(rng: hlib.Rng, n: int, pieces: int) -> list[int]:
    """sorted cut offsets (may repeat: empty segments) for a stream of n bytes"""
    return sorted(rng.range(0, n) for _ in range(pieces))


def cut(stream: bytes, offsets: list[int]) -> list[bytes]:
    out, last = [], 0
    for o in offsets:
        out.append(stream[last:o])
        last = o
    out.append(stream[last:])
    return out


class Driver(hlib.Driver):
    """`hlib.Driver` that survives the driver binary being relinked by a concurrent check (several builders share `.lake`)."""

    def __init__(self):
        super().__init__()
        if not self.available:
            for _ in range(20):
                time.sleep(3)
                super().__init__()
                if self.available:
                    break

    def run(self, lines, timeout: float = 600.0):
        if not lines:
            return []
        last = None
        for _ in range(20):
            try:
                return super().run(lines, timeout)
            except (OSError, RuntimeError) as exc:   # binary missing / being written / truncated output of a half-written binary
                last = exc
                time.sleep(3)
        raise last


def guarded(res, name, part):
    """an exception out of the implementation in the middle of a harness part is a finding about the tree under test, not a broken check
    (a failure of the model driver itself stays a crash: exit 2)"""
    import traceback
    try:
        part()
    except RuntimeError as exc:
        if "driver" in str(exc):
            raise
        res.violate("harness-exception", f"unexpected exception in part '{name}': {type(exc).__name__}: {exc}", {"kind": "exception", "part": name},
                    None, traceback.format_exc()[-1500:])
    except Exception as exc:  # noqa: BLE001
        res.violate("harness-exception", f"unexpected exception in part '{name}': {type(exc).__name__}: {exc}", {"kind": "exception", "part": name},
                    None, traceback.format_exc()[-1500:])


def apply_replay(a):
    """`--replay file`: take seed and tier from the replay file so that the same cases are generated again; return recorded violations."""
    import json
    if not a.replay:
        return []
    body = json.load(open(a.replay))
    a.seed = int(body.get("seed", a.seed))
    if body.get("tier") in ("quick", "thorough"):
        a.tier = body["tier"]
    if body.get("breaks"):
        a.search = True
    return body.get("violations", [])
