"""C13 — status variables, equipment constants, alarms: histories of S1F3 / S1F11 / S2F13 / S2F15 / S2F29 / S5F3 / S5F5 / S5F7,
set_alarm / clear_alarm and value updates on a REAL GemEquipmentHandler (in-memory connection; part through the whole message
path, part by calling the registered callbacks with real messages; wall clock stubbed).  Replies are decoded by the harness's
own SECS-II decoder.  After every operation the reply and the constants / alarm flags are compared with the Lean model
(`gemtab run`) = correspondence (C), and with a plain reference that states the property = direct oracle (O)."""
from __future__ import annotations

import datetime as _dt
import json
import math
import os
import sys

sys.path.insert(0, os.path.dirname(os.path.dirname(os.path.abspath(__file__))))
sys.path.insert(0, os.path.dirname(os.path.abspath(__file__)))
import hlib  # noqa: E402
import gemlib  # noqa: E402
from gemlib import V, cid, cid_item, cval_item, cfloat, hexs, parse_id, mk_id_item  # noqa: E402

import secsgem.gem  # noqa: E402
import secsgem.gem.clock_capability as clockcap  # noqa: E402
import secsgem.gem.collection_event_capability as cec  # noqa: E402

THREADS = gemlib.RecordingThreads()
cec.threading = THREADS

FINDING = "ecv-float-on-integer-constant"


class _FakeDatetime:
    """the wall clock: `datetime.datetime.now(tz)` is one fixed instant (UTC)"""

    class datetime:  # noqa: N801
        @staticmethod
        def now(_tz=None):
            return _dt.datetime(2026, 1, 2, 3, 4, 5, 670000, tzinfo=_dt.timezone.utc)


clockcap.datetime = _FakeDatetime
CLOCKS = ["260102030405", "2026010203040567", "2026-01-02T03:04:05.670000+00:00"]   # time format 0, 1 (and any other), 2

T = lambda s: "t" + hexs(s)  # noqa: E731
SVIDS = ["n1001", "n1002", "n1003", "n1004", "n1005", "n30", "n31", T("sv-t"), "n99", T("zz"), "n30.30", "n"]
SVID_W = [3, 2, 6, 4, 4, 5, 3, 3, 2, 1, 1, 1]
ECIDS = ["n1", "n2", "n30", "n31", T("ec-f"), "n32", "n33", "n34", "n35", "n36", "n99", T("zz"), "n30.30", "n"]
ECID_W = [4, 5, 6, 4, 5, 5, 4, 3, 5, 5, 2, 1, 1, 1]
ECID_TAME = [4, 5, 6, 4, 5, 5, 4, 3, 5, 5, 1, 0, 0, 0]
ALIDS = ["n7", "n8", "n99", "n7.7"]
# (id, name, min, max, default, unit, value_type, int-typed)
EC_DEFS = [("n1", "EstablishCommunicationsTimeout", 10, 120, 10, "sec", None, True),
           ("n2", "TimeFormat", 0, 2, 1, "", None, True),
           ("n30", "ec30", 0, 100, 50, "u", V.U4, True),
           ("n31", "ec31", -5, 5, 0, "mm", V.I4, True),
           (T("ec-f"), "ecf", -1.5, 1.5, 0.0, "V", V.F8, False),
           ("n32", "ec32", -100, 0, -1, "C", V.I4, True),       # declared maximum exactly 0 (a falsy limit), negative minimum
           ("n33", "ec33", 0, 0, 0, "", V.U4, True),            # minimum == maximum == 0
           ("n34", "ec34", None, None, 0.0, "", V.F8, False),   # no limits at all
           ("n35", "ec35", 0, None, 5, "", V.I4, True),         # only a minimum (0)
           ("n36", "ec36", None, 0, -5, "", V.I4, True)]        # only a maximum (0)
# configuration B (direct oracle only, the Lean model has no constants without limits): A plus a constant with min = max = None
EC_DEFS_B = EC_DEFS
ACTIVE = [EC_DEFS]


def defs():
    return ACTIVE[0]
AL_DEFS = [("n8", 5, "cold"), ("n7", 3, "hot")]       # registered in DESCENDING id order: table order is not sorted order
# the events enabled at the start of a history (SVID 1003 EventsEnabled = the enabled CEIDs in the order they were LINKED): numeric and
# text CEIDs together, not ascending; CEID 21 is linked first but stays disabled
EV_ORDERS = [["n50"], [T("ce-t"), "n50", "n3"], ["n50", "n20", "n3"], ["n20", T("ce-t")], ["n3", "n50", T("ce-t"), "n1"], [T("ce-t"), "n3"], []]


def ev_order(salt: int):
    return EV_ORDERS[salt % len(EV_ORDERS)]


def cnum(x) -> str:
    """a Python number as the model's `num`"""
    if isinstance(x, bool):
        return "i" + str(int(x))
    if isinstance(x, int):
        return "i" + str(x)
    if isinstance(x, float):
        return cfloat(x)
    return "o:" + type(x).__name__        # a non-number got stored in a constant


def weighted(rng, xs, ws):
    k = rng.below(sum(ws))
    for x, w in zip(xs, ws):
        if k < w:
            return x
        k -= w
    return xs[-1]


def pykey(i: str):
    p = parse_id(i)
    return p[1][0] if p[0] == "n" else p[1]


# ---------------------------------------------------------------------------------------------- generation
def gen_ecv(rng, ecid: str) -> str:
    d = next((e for e in defs() if e[0] == ecid), None)
    lo, hi = (d[2], d[3]) if d else (0, 10)
    if lo is None and hi is None:
        lo, hi = -10, 10
    elif lo is None:
        lo = hi - 20          # candidates around the declared side, and far beyond both
    elif hi is None:
        hi = lo + 20
    k = rng.below(100)
    if k < 26:
        return cnum(rng.range(math.ceil(lo), math.floor(hi)))
    if k < 42:
        return cnum(rng.choice([lo, hi, math.ceil(lo) + 1, math.floor(hi) - 1]))      # the limits and one step inside
    if k < 56:
        return cnum(rng.choice([math.floor(lo) - 1, math.ceil(hi) + 1, math.floor(lo) - 1, math.ceil(hi) + 1,
                                math.floor(lo) - 100, math.ceil(hi) + 1000]))       # one step outside, far outside
    if k < 72:
        x = rng.choice([lo + 0.5, hi - 0.5, float(lo), float(hi), (lo + hi) / 2 + 0.25,
                        math.nextafter(float(hi), math.inf), math.nextafter(float(lo), -math.inf)])
        return cnum(float(x))
    if k < 84:
        return "fnan"       # (+-inf cannot be put into an F4/F8 item through secsgem's own encoder; the model covers it)
    if k < 93:
        return "o"
    return rng.choice(["i1", "i0"])


def ecids():
    return ECIDS


def ecid_w(tame=False):
    w = ECID_TAME if tame else ECID_W
    return w


def gen_op(rng, wild: bool) -> str:
    def ids(dom, w, keep):
        n = rng.choice([0, 1, 1, 2, 2, 3, 4])
        ws = w if wild else [x if j < keep else 0 for j, x in enumerate(w)]
        return ",".join(weighted(rng, dom, ws) for _ in range(n))

    k = rng.below(100)
    if k < 12:
        return "S3:" + ids(SVIDS, SVID_W, 10)
    if k < 20:
        return "S11:" + ids(SVIDS, SVID_W, 10)
    if k < 34:
        return "E13:" + ids(ecids(), ecid_w(), len(ecids()) - 2)
    if k < 40:
        return "E29:" + ids(ecids(), ecid_w(), len(ecids()) - 2)
    if k < 64:
        ps = []
        for _ in range(rng.choice([1, 1, 2, 2, 3])):
            e = weighted(rng, ecids(), ecid_w() if wild else ecid_w(True))
            v = gen_ecv(rng, e)
            if e == "n34" and v in ("o", "fnan"):
                v = "i3"     # without limits nothing refuses a non-number; what is stored then is not pinned by the property
            ps.append(e + "=" + v)
        return "E15:" + ",".join(ps)
    if k < 74:
        return f"A3:{rng.choice([128, 128, 128, 128, 0, 0, rng.below(256), rng.below(256), rng.choice([1, 127, 129, 255, 0x81, 0xC0])])}:" + weighted(rng, ALIDS, [5, 5, 2, 1 if wild else 0])
    if k < 80:
        return "A5:" + ",".join(weighted(rng, ALIDS, [5, 5, 1 if wild else 0, 1 if wild else 0]) for _ in range(rng.choice([0, 1, 2, 3])))
    if k < 84:
        return "A7"
    if k < 92:
        return rng.choice(["AS:", "AS:", "AC:", "ASN:", "ACN:"]) + weighted(rng, ALIDS[:3], [5, 5, 1])
    j = rng.below(3)
    if j == 0:
        return "Vn30=n" + str(rng.range(0, 9))
    if j == 1:
        return "Vn31=" + cfloat(rng.choice([0.0, 1.5, -2.25, 1e10]))
    return "V" + T("sv-t") + "=" + T(rng.choice(["", "a", "xyz"]))


# ---------------------------------------------------------------------------------------------- implementation runner
def ecv_item(tok: str, form: int):
    """the ECV item sent for the model's `ecv` token"""
    if tok == "o":
        return [V.String("abc"), V.U4([1, 2]), V.U1([])][form % 3]
    if tok == "fnan":
        return V.F8(float("nan")) if form % 2 else V.F4(float("nan"))
    if tok in ("finf", "f-inf"):
        return V.F8(float("inf") if tok == "finf" else float("-inf"))
    if tok[0] == "i":
        n = int(tok[1:])
        if n in (0, 1) and form % 5 == 0:
            return V.Boolean(bool(n))
        fits = [t for t, lo, hi in gemlib._UTYPES if lo <= n <= hi]  # pylint: disable=protected-access
        return fits[form % len(fits)](n)
    num, k = tok[1:].split("/")
    x = int(num) / (1 << int(k))
    import struct
    f4_exact = struct.unpack(">f", struct.pack(">f", x))[0] == x if abs(x) < 3e38 else False
    return V.F4(x) if (f4_exact and form % 2) else V.F8(x)


class Run:
    def __init__(self, salt: int, direct: bool):
        self.eq = gemlib.Equipment()
        self.shadow = gemlib.shadow()      # isolation: a second handler with other tables under the same ids, same process
        h = self.eq.h
        self.direct, self.salt, self.nform = direct, salt, 0
        h.status_variables[30] = secsgem.gem.StatusVariable(30, "sv30", "u", V.U4)
        h.status_variables[30].value = 7
        h.status_variables[31] = secsgem.gem.StatusVariable(31, "sv31", "K", V.F8, use_callback=False)
        h.status_variables[31].value = 0.5
        h.status_variables["sv-t"] = secsgem.gem.StatusVariable("sv-t", "svt", "", V.String)
        h.status_variables["sv-t"].value = "x"
        for i, name, lo, hi, df, unit, vt, _ in defs():
            if vt is not None:
                h.equipment_constants[pykey(i)] = secsgem.gem.EquipmentConstant(pykey(i), name, lo, hi, df, unit, vt)
        for i, code, text in AL_DEFS:
            h.alarms[pykey(i)] = secsgem.gem.Alarm(pykey(i), "al" + i, text, code, 60, 61)
        h.collection_events[50] = secsgem.gem.CollectionEvent(50, "ce50", [])
        h.collection_events["ce-t"] = secsgem.gem.CollectionEvent("ce-t", "cet", [])
        # the enabled events of this history, linked in the order of `ev_order(salt)` -- through the message path
        evs = [pykey(c) for c in ev_order(salt)]
        for s, f, val in ((2, 33, {"DATAID": 1, "DATA": [{"RPTID": 1, "VID": [30]}]}),
                          (2, 35, {"DATAID": 1, "DATA": [{"CEID": c, "RPTID": [1]} for c in [21] + evs]}),
                          (2, 37, {"CEED": True, "CEID": evs or [21]}), (2, 37, {"CEED": False, "CEID": [21]})):
            ans = self.eq.request(s, f, val, False)
            if ans[1] != f + 1 or ans[2] != ("B", [0]):
                raise RuntimeError(f"setup S{s}F{f} refused: {ans}")

    def item(self, i):
        self.nform += 1
        return mk_id_item(parse_id(i), self.salt + 7 * self.nform)

    def state(self) -> str:
        h = self.eq.h
        ecs = ";".join(cid(k) + "=" + cnum(ec.value) for k, ec in h.equipment_constants.items())
        als = ";".join(cid(k) + "=" + ("1" if a.enabled else "0") + ("1" if a.set else "0") for k, a in h.alarms.items())
        return f"{ecs}|{h.settings.establish_communication_timeout}|{h._time_format}@{als}"  # pylint: disable=protected-access

    @staticmethod
    def rows(body):
        return ";".join(f"{r[1][0][1][0]}~{cid_item(r[1][1])}~{hexs(r[1][2][1])}" for r in body[1])

    def op(self, op: str) -> str:
        eq, h = self.eq, self.eq.h
        if op[0] == "V":
            k, v = op[1:].split("=")
            sv = h.status_variables[pykey(k)]
            if v[0] == "n":
                sv.value = int(v[1:])
            elif v[0] == "t":
                sv.value = bytes.fromhex(v[1:]).decode("latin-1")
            else:
                num, kk = v[1:].split("/")
                sv.value = int(num) / (1 << int(kk))
            return "-"
        head, *rest = op.split(":")
        self.nops = getattr(self, "nops", 0) + 1
        raw = (self.salt + self.nops) % 3 != 0     # two thirds of the id-list / S5F3 requests come from the harness's own E5 encoder
        if rest and rest[0] and head not in ("E15", "A3", "AS", "AC", "ASN", "ACN"):
            if raw:
                parts = []
                for x in rest[0].split(","):
                    self.nform += 1
                    parts.append(gemlib.enc_id(parse_id(x), self.salt + 5 * self.nform))
                ids = gemlib.enc_item("L", parts, self.salt + self.nform)
            else:
                ids = [self.item(x) for x in rest[0].split(",")]
        else:
            ids = gemlib.enc_item("L", [], self.salt + self.nops) if raw and head != "A7" else []
        if head in ("S3", "E13"):
            s, f, body = eq.request(*((1, 3) if head == "S3" else (2, 13)), ids, self.direct)
            return "x" if f == 0 else "v[" + ",".join(cval_item(x) for x in body[1]) + "]"
        if head == "S11":
            s, f, body = eq.request(1, 11, ids, self.direct)
            return "x" if f == 0 else "n[" + ";".join(f"{cid_item(r[1][0])}~{hexs(r[1][1][1])}~{hexs(r[1][2][1])}" for r in body[1]) + "]"
        if head == "E29":
            s, f, body = eq.request(2, 29, ids, self.direct)
            return "x" if f == 0 else "c[" + ";".join(
                f"{cid_item(r[1][0])}~{hexs(r[1][1][1])}~{cval_item(r[1][2])}~{cval_item(r[1][3])}~{cval_item(r[1][4])}~{hexs(r[1][5][1])}"
                for r in body[1]) + "]"
        if head == "E15":
            req = []
            for p in rest[0].split(","):
                i, v = p.split("=")
                self.nform += 1
                req.append({"ECID": self.item(i), "ECV": ecv_item(v, self.salt + self.nform)})
            s, f, body = eq.request(2, 15, req, self.direct)
            return "x" if f == 0 else "a" + str(body[1][0])
        if head == "A3":
            if raw:
                self.nform += 1
                req3 = gemlib.enc_item("L", [gemlib.enc_item("B", [int(rest[0])], self.nform),
                                            gemlib.enc_id(parse_id(rest[1]), self.salt + 5 * self.nform)], self.salt + self.nform)
            else:
                req3 = {"ALED": int(rest[0]), "ALID": self.item(rest[1])}
            s, f, body = eq.request(5, 3, req3, self.direct)
            return "x" if f == 0 else "a" + str(body[1][0])
        if head == "A5":
            s, f, body = eq.request(5, 5, ids, self.direct)
            return "x" if f == 0 else "l[" + self.rows(body) + "]"
        if head == "A7":
            s, f, body = eq.request(5, 7, None, self.direct)
            return "x" if f == 0 else "l[" + self.rows(body) + "]"
        if head in ("AS", "AC", "ASN", "ACN"):
            # ASN / ACN: fault input -- the host does not answer the S5F1 of this call; T3 is short for it
            eq.c.primaries.clear()
            quiet = head.endswith("N")
            t3 = h.settings.timeouts.t3
            if quiet:
                eq.c.mute.add((5, 1))
                h.settings.timeouts.t3 = 0.05
            try:
                (h.set_alarm if head[1] == "S" else h.clear_alarm)(pykey(rest[0]))
            except ValueError:
                return "!"
            finally:
                eq.c.mute.discard((5, 1))
                h.settings.timeouts.t3 = t3
            THREADS.join_all()
            sent = [gemlib.decode_body(p[2]) for p in eq.c.primaries if p[:2] == (5, 1)]
            return "e[" + ";".join(f"{b[1][0][1][0]}~{cid_item(b[1][1])}~{hexs(b[1][2][1])}" for b in sent) + "]"
        raise ValueError(op)

    def close(self):
        THREADS.join_all()
        self.eq.close()


# ---------------------------------------------------------------------------------------------- the reference (what the property demands)
class Ref:
    """Plain statement of the property over the harness's own record of the tables."""

    def __init__(self, salt=0):
        self.events = ev_order(salt)
        self.sv = {"n30": "n7", "n31": "f1/1", T("sv-t"): T("x")}
        self.defs = defs()
        self.ec = {d[0]: d[4] for d in self.defs}           # id -> Python number
        self.al = {d[0]: [False, False] for d in AL_DEFS}  # id -> [enabled, set]
        self.ect, self.tf = 10, 1

    def sv_value(self, i):
        if i == "n1001":
            return T(CLOCKS[0] if self.tf == 0 else CLOCKS[2] if self.tf == 2 else CLOCKS[1])
        if i == "n1002":
            return "n3"
        if i == "n1003":
            return "l" + "+".join(self.events)
        if i == "n1004":
            return "l" + "+".join(k for k, f in self.al.items() if f[0])
        if i == "n1005":
            return "l" + "+".join(k for k, f in self.al.items() if f[1])
        return self.sv.get(i)

    SV_ORDER = ["n1001", "n1002", "n1003", "n1004", "n1005", "n30", "n31", T("sv-t")]
    SV_NAMES = {"n1001": ("Clock", ""), "n1002": ("ControlState", ""), "n1003": ("EventsEnabled", ""), "n1004": ("AlarmsEnabled", ""),
                "n1005": ("AlarmsSet", ""), "n30": ("sv30", "u"), "n31": ("sv31", "K"), T("sv-t"): ("svt", "")}

    def ec_value(self, i):
        d = next(e for e in self.defs if e[0] == i)
        if i == "n1":
            return "n" + str(self.ect)
        if i == "n2":
            return "n" + str(self.tf)
        x = self.ec[i]
        if d[7]:
            return "n" + str(int(x)) if not isinstance(x, float) else None   # an integer constant cannot show a float
        return cfloat(float(x))

    def expect(self, op):
        """-> expected answer, or None when the property text does not pin it"""
        if op[0] == "V":
            k, v = op[1:].split("=")
            self.sv[k] = v
            return "-"
        head, *rest = op.split(":")
        ids = rest[0].split(",") if rest and rest[0] else []
        if head in ("S3", "S11", "E13", "E29") and any(i == "n" for i in ids):
            return None      # an empty numeric id item: not pinned
        if head == "S3":
            return "v[" + ",".join((self.sv_value(i) or "l") for i in (ids or self.SV_ORDER)) + "]"
        if head == "S11":
            return "n[" + ";".join(f"{i}~{hexs(self.SV_NAMES[i][0])}~{hexs(self.SV_NAMES[i][1])}" if i in self.SV_NAMES else f"{i}~~"
                                   for i in (ids or self.SV_ORDER)) + "]"
        if head == "E13":
            vals = [(self.ec_value(i) if i in self.ec else "l") for i in (ids or [d[0] for d in self.defs])]
            return "UNSHOWABLE" if any(v is None for v in vals) else "v[" + ",".join(vals) + "]"
        if head == "E29":
            rows = []
            for i in (ids or [d[0] for d in self.defs]):
                d = next((e for e in self.defs if e[0] == i), None)
                if d is None:
                    rows.append(f"{i}~~t~t~t~")
                else:
                    sh = lambda x: "t" if x is None else cfloat(x) if isinstance(x, float) else "n" + str(x)  # noqa: E731
                    rows.append(f"{i}~{hexs(d[1])}~{sh(d[2])}~{sh(d[3])}~{sh(d[4])}~{hexs(d[5])}")
            return "c[" + ";".join(rows) + "]"
        if head == "A7":
            return "l[" + ";".join(self.row(k) for k, f in self.al.items() if f[0]) + "]"
        if head == "A5":
            want = ids or list(self.al)
            if any(i not in self.al for i in want):
                return None  # unknown / multi-valued ALID: the text does not pin the answer
            return "l[" + ";".join(self.row(i) for i in want) + "]"
        if head == "A3":
            if rest[1] in self.al:
                if int(rest[0]) in (0, 128):
                    self.al[rest[1]][0] = int(rest[0]) == 128
                else:
                    self.al[rest[1]][0] = None      # E5 only defines bit 8; what 1..127 / 129..255 do is not pinned: taken from the equipment
                return "a0"
            return None
        if head in ("AS", "AC", "ASN", "ACN"):
            # the equipment-side change happened whatever the host answers: same expectation with and without an S5F2
            head = head[:2]
            i = rest[0]
            if i not in self.al:
                return "!"
            en, st = self.al[i]
            code = next(d[1] for d in AL_DEFS if d[0] == i)
            text = next(d[2] for d in AL_DEFS if d[0] == i)
            new = head == "AS"
            self.al[i][1] = new
            if st != new and en:
                return f"e[{code | (128 if new else 0)}~{i}~{hexs(text)}]"
            return "e[]"
        return None

    def row(self, i):
        code = next(d[1] for d in AL_DEFS if d[0] == i)
        text = next(d[2] for d in AL_DEFS if d[0] == i)
        return f"{code | (128 if self.al[i][1] else 0)}~{i}~{hexs(text)}"

    def s2f15(self, op, out, after_state):
        """all-or-none + limits, judged on the implementation's state after the request; keeps the record in step"""
        pairs = [p.split("=") for p in op.split(":")[1].split(",")]
        ecs_txt, ect, tf = after_state.split("@")[0].split("|")
        after = dict(e.split("=") for e in ecs_txt.split(";"))
        before = {k: cnum(v) for k, v in self.ec.items()}
        applied = dict(before)
        numeric = all(v != "o" for _, v in pairs) and all(i in self.ec for i, _ in pairs)
        for i, v in pairs:
            if i in applied:
                applied[i] = v
        bad = None
        if after == before and (int(ect), int(tf)) == (self.ect, self.tf):
            if out == "a0" and applied != before:
                bad = ("s2f15-not-applied", f"{op} answered EAC 0 but no constant changed")
        elif numeric and after == applied:
            if out != "a0":
                bad = ("s2f15-refused-but-applied", f"{op} answered {out} but the constants were changed")
            for i, v in pairs:
                self.ec[i] = tok_value(v)
            self.ect, self.tf = int(ect), int(tf)
        else:
            bad = ("s2f15-partial", f"{op}: the constants are neither all unchanged nor all applied: {before} -> {after}")
            for k, v in after.items():
                self.ec[k] = tok_value(v)
            self.ect, self.tf = int(ect), int(tf)
        for d in self.defs:
            x = self.ec[d[0]]
            if (d[2] is not None and not x >= d[2]) or (d[3] is not None and not x <= d[3]):
                bad = bad or ("constant-outside-limits", f"after {op}: constant {d[0]} = {x!r} outside [{d[2]}, {d[3]}]")
        if not (10 <= self.ect <= 120 and 0 <= self.tf <= 2):
            bad = bad or ("constant-outside-limits", f"after {op}: timeout {self.ect} / time format {self.tf} outside the declared limits")
        return bad


def tok_value(tok: str):
    if tok == "fnan" or tok.startswith("o"):     # a stored non-number is within no limits either
        return float("nan")
    if tok == "fnan":
        return float("nan")
    if tok in ("finf", "f-inf"):
        return float("inf") if tok == "finf" else float("-inf")
    if tok[0] == "i":
        return int(tok[1:])
    num, k = tok[1:].split("/")
    return int(num) / (1 << int(k))


def run_history(ops, salt, direct, gen=None, cfgb=False):
    """-> (answers 'out@ecs|ect|tf@alarms', first oracle violation (index, class, what) or None)"""
    ACTIVE[0] = EC_DEFS_B if cfgb else EC_DEFS
    run = Run(salt, direct)
    ref = Ref(salt)
    try:
        answers, bad = [], None
        i = 0
        while True:
            if gen is not None and i >= len(ops):
                if i >= gen[1]:
                    break
                ops.append(gen_op(gen[0], gen[2]))
            if i >= len(ops):
                break
            op = ops[i]
            if i % 4 == 0:
                run.shadow.step()      # the other handler moves on between the steps of the one under test
            out = run.op(op)
            st = run.state()
            answers.append(out + "@" + st)
            v = None
            if op.startswith("E15"):
                v = ref.s2f15(op, out, st)
            else:
                want = ref.expect(op)
                if want == "UNSHOWABLE":
                    if out == "x" or not out.startswith("v["):
                        v = (FINDING, f"{op} is answered with an abort: an integer-typed constant holds a float that S2F15 accepted")
                elif want is not None and out != want:
                    v = ("reply-differs-from-reference", f"{op}: got {out}, reference {want}")
            for k_, fl in ref.al.items():         # an ALED byte the text does not pin: follow what the equipment did
                if fl[0] is None:
                    flags = dict(e.split("=") for e in st.split("@")[1].split(";"))
                    fl[0] = flags[k_][0] == "1"
            if v is not None and bad is None:
                bad = (i, v[0], v[1])
            i += 1
        return answers, bad
    finally:
        run.close()


def probe_variant() -> bool:
    """does the handler under test refuse a float for an integer-typed constant in the S2F15 pre-check (patched variant)?"""
    run = Run(0, True)
    try:
        return run.op("E15:n30=f3/1") != "a0"
    finally:
        run.close()


def model_prefix(tc: bool, salt: int = 0):
    env = f"X{int(tc)};K{hexs(CLOCKS[0])},{hexs(CLOCKS[1])},{hexs(CLOCKS[2])};C3;E{'+'.join(ev_order(salt))};T10;F1"
    svs = "S" + ";".join([f"n1001~{hexs('Clock')}~~k~n0", f"n1002~{hexs('ControlState')}~~s~n0", f"n1003~{hexs('EventsEnabled')}~~e~n0",
                          f"n1004~{hexs('AlarmsEnabled')}~~a~n0", f"n1005~{hexs('AlarmsSet')}~~z~n0",
                          f"n30~{hexs('sv30')}~{hexs('u')}~c~n7", f"n31~{hexs('sv31')}~{hexs('K')}~c~f1/1", f"{T('sv-t')}~{hexs('svt')}~~c~{T('x')}"])
    ecs = "E" + ";".join(f"{i}~{hexs(n)}~{cnum(lo) if lo is not None else '-'}~{cnum(hi) if hi is not None else '-'}~{cnum(df)}~{hexs(u)}~{'i' if it else 'f'}~{cnum(df)}" for i, n, lo, hi, df, u, _vt, it in EC_DEFS)
    als = "A" + ";".join(f"{i}~{c}~{hexs(t)}~0~0" for i, c, t in AL_DEFS)
    return f"gemtab run {env} {svs} {ecs} {als}"


def is_finding_case(ops) -> bool:
    """the recorded finding: an accepted S2F15 carries a float for an integer-typed constant (30 or 31), a later S2F13 asks for it"""
    for j, op in enumerate(ops):
        if op.startswith("E15:") and any(p.split("=")[0] in ("n30", "n31", "n32", "n33", "n35", "n36") and p.split("=")[1].startswith("f") for p in op[4:].split(",")):
            if any(o.startswith("E13:") for o in ops[j + 1:]):
                return True
    return False


def main():
    a = hlib.std_args()
    res = hlib.Result("C13", a.tier, a.seed)
    rng = hlib.Rng(a.seed ^ 0xC13)
    drv = gemlib.private_driver()
    res.rule = ("histories of S1F3/S1F11/S2F13/S2F15/S2F29/S5F3/S5F5/S5F7, set_alarm/clear_alarm and SV updates; SVIDs {1001..1005, 30, 31, 'sv-t', 99, 'zz', (30,30), ()}, "
                "ECIDs {1, 2, 30, 31, 'ec-f', 99, 'zz', (30,30), ()}, ALIDs {7, 8, 99, (7,7)}; ECVs: in range, min, max, +-1 outside, floats (x.5, the limits, next float outside), "
                "NaN, +-inf, text, multi-valued, empty, Boolean; ids in every admissible integer width / plain / text; length <= 12 (quick) / 40 (thorough); "
                "a third of the histories through the whole HSMS path. distinct = distinct history; non-trivial = at least one accepted and one refused S2F15")
    tc = probe_variant()
    prefix = model_prefix(tc)
    res.notes.append(f"S2F15 pre-check variant detected on the implementation: typeCheck={int(tc)}")
    res.notes.append("S5F5 with an unknown or multi-valued ALID is answered S5F0 (KeyError/TypeError in the handler); the property text does not pin it, not judged")

    probe_a, probe_b = gemlib.Equipment(), gemlib.Equipment()
    shared = gemlib.shared_tables(probe_a.h, probe_b.h)
    if shared:
        res.violate("shared-mutable-table", f"two GemEquipmentHandler instances of one process share the table object(s) {shared}: what one equipment registers or changes shows up in the other", {"attributes": shared})
    probe_a.close()
    probe_b.close()
    res.notes.append("isolation: every history runs next to a second handler (other tables, same ids) that moves on between the steps; two fresh handlers share no dict/list/set attribute")

    cases = []
    if a.replay:
        body = json.load(open(a.replay))
        for v in body.get("violations", []):
            c = v.get("case") or {}
            if "ops" in c:
                cases.append((c["ops"], c.get("salt", 0), c.get("direct", False), None, c.get("cfgb", False)))
    else:
        corpus = [
            ["E15:n2=i0,n1=fnan", "E13:", "S3:n1001"],                                      # F-17 (fixed): NaN after a valid constant
            ["E15:n30=i100,n31=i-5," + T("ec-f") + "=f3/1", "E13:n30,n31," + T("ec-f") + ",n99", "E29:", "E15:n30=i101", "E15:n31=i-6", "E13:"],
            ["A3:128:n7", "AS:n7", "AS:n7", "S3:n1004,n1005", "A5:", "A7", "AC:n7", "AC:n7", "A3:0:n7", "AS:n7", "A5:n7,n8,n7"],
            ["E15:n2=i0", "S3:n1001", "E15:n2=i2", "S3:n1001,n1001", "E15:n2=f3/1", "S3:", "S11:", "E15:n1=f21/1", "E13:n1,n2"],
            ["E15:n30=f3/1", "E13:n30"],                                                     # the finding's witness
            # the host does not answer the S5F1 (T3 expires): the alarm is latched all the same, no second report
            ["A3:128:n7", "ASN:n7", "A5:n7", "A7", "S3:n1005,n1004", "AS:n7", "ACN:n7", "A5:", "S3:n1005", "AC:n7", "AS:n7",
             "A3:128:n8", "ASN:n8", "ASN:n8", "A7"],
        ]
        corpus += [
            ["E15:n32=i0", "E15:n32=i1", "E15:n32=i-100", "E15:n32=i-101", "E15:n30=i7,n32=i5", "E13:n32,n30"],   # a maximum of exactly 0
            ["E15:n33=i0", "E15:n33=i1", "E15:n33=i-1", "E15:n33=f1/1", "E15:n31=i2,n33=i1", "E13:n33,n31", "E29:n32,n33"],
        ]
        for ops in corpus:
            cases.append((ops, 0, False, None, False))
            cases.append((ops, 5, True, None, False))
        corpus2 = [["E15:n34=i1000000", "E15:n34=f-5/1,n32=i1", "E13:n34,n32", "E29:n34", "E15:n34=i0,n33=i0", "E13:"],
                   # one-sided limits: the declared side is enforced, the other is open; all-or-none with a second constant
                   ["E15:n35=i1000000", "E15:n35=i-1", "E15:n30=i7,n35=i-1", "E15:n35=i0", "E15:n36=i1", "E15:n31=i2,n36=i1", "E15:n36=i-1000000",
                    "E15:n36=i0", "E13:n35,n36,n30,n31", "E29:n35,n36,n34", "E15:n35=fnan", "E15:n36=fnan", "E15:n35=o", "E13:"]]
        for k_ in range(1, len(EV_ORDERS)):      # EventsEnabled / AlarmsEnabled / AlarmsSet in table (= link / registration) order
            cases.append((["S3:n1003,n1004,n1005", "S3:", "A3:128:n7", "A3:128:n8", "AS:n7", "AS:n8", "S3:n1004,n1005,n1003", "S3:", "A7", "A5:"],
                          k_, k_ % 2 == 0, None, False))
        for ops in corpus2:
            cases.append((ops, 2, False, None, False))
            cases.append((ops, 7, True, None, False))
        n_hist = 2000 if a.tier == "thorough" else 600 if a.search else 400
        max_len = 40 if a.tier == "thorough" else 30 if a.search else 12
        for i in range(n_hist):
            n = rng.range(1, max_len) if rng.chance(1, 3) else max_len
            cases.append(([], rng.below(1000), not rng.chance(1, 3), (rng.fork(f"h{i}"), n, rng.chance(1, 4)), False))

    lines, impls, metas = [], [], []
    seen_finding = False
    for ops, salt, direct, gen, cfgb in cases:
        ans, bad = run_history(ops, salt, direct, gen, cfgb)
        acks = [x.split("@")[0] for o, x in zip(ops, ans) if o.startswith("E15")]
        res.count(("hist", tuple(ops)), nontrivial=("a0" in acks and any(k in acks for k in ("a1", "a3"))),
                  sample={"ops": ops[:8], "path": "callbacks" if direct else "full message path"} if len(res.samples) < 4 else None)
        res.bump("path", "callbacks" if direct else "full")
        res.bump("config", "B (unlimited constant, oracle only)" if cfgb else "A (modelled)")
        for o, x in zip(ops, ans):
            out = x.split("@")[0]
            kind = o.split(":")[0] if o[0] != "V" else "V"
            res.bump("op", kind)
            res.bump("outcome", kind + ":" + (out if out[0] in "ax-!" else out[0] + ("[]" if out.endswith("[]") else "[..]")))
        res.evaluations += max(0, len(ops) - 1)
        if bad is not None:
            i, klass, what = bad
            if klass == FINDING and seen_finding:
                pass  # one minimised instance of the recorded finding is enough
            else:
                def still(sub, klass=klass, salt=salt, direct=direct, cfgb=cfgb):
                    _, b = run_history(sub, salt, direct, None, cfgb)
                    return b is not None and b[1] == klass
                small = ops[: i + 1]
                if len(res.violations) < 4:
                    small = hlib.ddmin(small, gemlib.bounded(still, 120))
                _, b2 = run_history(small, salt, direct, None, cfgb)
                if klass == FINDING and not is_finding_case(small):
                    klass = "s2f13-abort"   # an abort of S2F13 that is NOT the recorded witness class
                seen_finding = seen_finding or klass == FINDING
                res.violate(klass, (b2 or bad)[2], {"ops": small, "salt": salt, "direct": direct, "cfgb": cfgb})
        if cfgb:
            continue
        lines.append(model_prefix(tc, salt) + " " + " ".join(ops))
        impls.append(ans)
        metas.append((ops, salt, direct))

    if drv.available and lines:
        res.driver_used = True
        outs = drv.run(lines)

        def model_answers(sub, salt_):
            o = drv.run([model_prefix(tc, salt_) + " " + " ".join(sub)])[0]
            return (o[3:].split(" ") if len(o) > 3 else []) if o.startswith("ok") else None
        for (ops, salt, direct), impl, m in zip(metas, impls, outs):
            res.traces_validated += 1
            got = (m[3:].split(" ") if len(m) > 3 else []) if m.startswith("ok") else [m]
            if got != impl:
                def differs(sub, salt=salt, direct=direct):
                    ia, _ = run_history(sub, salt, direct)
                    return model_answers(sub, salt) != ia
                small = ops
                if len(res.disagreements) < 3:
                    small = hlib.ddmin(ops, gemlib.bounded(differs, 120))
                elif len(res.disagreements) >= 12:
                    continue
                ia, _ = run_history(small, salt, direct)
                ma = model_answers(small, salt)
                k = next((j for j in range(len(small)) if ma is None or j >= len(ma) or ma[j] != ia[j]), 0)
                res.disagree("gemtab history: model vs GemEquipmentHandler", {"ops": small, "salt": salt, "direct": direct, "first_diff_at": k},
                             None if ma is None else ma[k] if k < len(ma) else None, ia[k] if k < len(ia) else None)
    elif not drv.available:
        res.notes.append("driver unavailable: correspondence skipped")

    res.dump(a.out)
    sys.stdout.flush()
    os._exit(0)


if __name__ == "__main__":
    main()
