"""C16 — SECS-I blocks: split, checksum, reassembly.  Correspondence (model driver vs real classes) + direct oracle."""
from __future__ import annotations

import os
import sys
import time

sys.path.insert(0, os.path.dirname(os.path.dirname(os.path.abspath(__file__))))
import hlib  # noqa: E402
from hlib import hexs  # noqa: E402

import secsgem.common  # noqa: E402
from secsgem.secsi.header import SecsIHeader  # noqa: E402
from secsgem.secsi.message import SecsIBlock, SecsIMessage  # noqa: E402

FIELDS = ("system", "device_id", "stream", "function", "block", "from_equipment", "require_response", "last_block")
MAXES = {"system": 2**32 - 1, "device_id": 2**15 - 1, "stream": 127, "function": 255, "block": 2**15 - 1}


def hdr_args(h: SecsIHeader) -> str:
    return " ".join(str(int(getattr(h, f))) for f in FIELDS)


def mk_header(vals) -> SecsIHeader:
    return SecsIHeader(vals[0], vals[1], vals[2], vals[3], vals[4], bool(vals[5]), bool(vals[6]), bool(vals[7]))


def gen_header(rng: hlib.Rng, malformed=False):
    vals = []
    for f in FIELDS[:5]:
        m = MAXES[f]
        pool = [0, 1, m, m - 1, m // 2, m // 2 + 1]
        if malformed and rng.chance(1, 3):
            pool += [m + 1, -1, 2 * m + 1, m + 2]
        vals.append(rng.choice(pool) if rng.chance(1, 2) else rng.range(0, m))
    vals += [rng.below(2), rng.below(2), rng.below(2)]
    return vals


def show_block(b) -> str:
    return hdr_args(b.header) + " " + hexs(b.data)


def show_block_of_message(m) -> str:
    """as `showMessage` of Drv/SecsI.lean: header of the last block, data, number of blocks"""
    h = m.header
    return " ".join(str(int(getattr(h, f))) for f in FIELDS) + " " + hexs(bytes(m.data)) + " n=" + str(len(m.blocks))


def impl(fn):
    try:
        return "ok " + fn()
    except Exception as exc:  # noqa: BLE001
        return "err " + hlib.errkind(exc)


class ProtoStub:
    """`self` for the real `Protocol._add_message_block` (no transport needed)."""

    message_type = SecsIMessage
    _add_message_block = secsgem.common.Protocol._add_message_block

    def __init__(self):
        self._incomplete_messages = {}


def body_lengths(tier, search):
    base = [0, 1, 2, 243, 244, 245, 246, 487, 488, 489, 732, 733]
    if tier == "thorough" or search:
        base += [244 * k + d for k in (4, 10, 100) for d in (-1, 0, 1)]
    return base


def main():
    a = hlib.std_args()
    res = hlib.Result("C16", a.tier, a.seed)
    rng = hlib.Rng(a.seed ^ 0xC16)
    drv = hlib.Driver()
    big = a.tier == "thorough" or a.search
    res.rule = ("header codec: boundary pool (0,1,max-1,max, max+1, -1 per field) x random; blocks: data lengths around 0/243..246 and the "
                "length-byte limit; split: body lengths 0,1,243..246,487..489,k*244±1; reassembly: random interleavings of 2-4 transactions; "
                "corruption: every offset x every other byte value of several encoded blocks (exhaustive). distinct = distinct canonical input; "
                "non-trivial = the model/implementation answer is not an input-syntax error")

    # ------------------------------------------------------------ A. header codec (Gen vs real)
    cases, lines, answers = [], [], []
    n_hdr = 4000 if big else 800
    for i in range(n_hdr):
        vals = gen_header(rng, malformed=True)
        h = mk_header(vals)
        cases.append(vals)
        lines.append("secsi henc " + " ".join(str(v) for v in vals))
        answers.append(impl(lambda: hexs(h.encode())))
        res.count(("henc", tuple(vals)), sample={"op": "henc", "fields": vals} if i < 2 else None)
    for i in range(n_hdr):
        n = 10 if rng.chance(5, 6) else rng.choice([0, 1, 9, 11, 20])
        raw = rng.bytes(n)
        if rng.chance(1, 4) and n == 10:
            raw = bytes(rng.choice([0, 0x7F, 0x80, 0xFF]) for _ in range(10))
        cases.append(raw.hex())
        lines.append("secsi hdec " + hexs(raw))
        answers.append(impl(lambda: hdr_args(SecsIHeader.decode(raw))))
        res.count(("hdec", raw), nontrivial=(n == 10))
        res.bump("hdec_len", n)
        # oracle: decode . encode = id on 10-byte strings (header bijective)
        if n == 10:
            back = SecsIHeader.decode(raw).encode()
            if back != raw:
                res.violate("header-not-bijective", "decode then encode changes the header bytes", raw.hex(), raw.hex(), back.hex())
    hlib.compare_batch(res, drv, "SecsIHeader.encode/decode vs Gen.SecsIHeader", cases, lines, answers)

    # ------------------------------------------------------------ B. block encode/decode
    cases, lines, answers = [], [], []
    dlens = [0, 1, 2, 10, 243, 244, 245, 246, 250]
    enc_blocks = []
    for i in range(1500 if big else 300):
        vals = gen_header(rng, malformed=rng.chance(1, 8))
        n = rng.choice(dlens) if rng.chance(2, 3) else rng.range(0, 260)
        data = rng.bytes(n) if rng.chance(3, 4) else bytes([rng.choice([0, 255])]) * n
        blk = SecsIBlock(mk_header(vals), data)
        cases.append({"hdr": vals, "n": n})
        lines.append("secsi benc " + " ".join(str(v) for v in vals) + " " + hexs(data))
        ans = impl(lambda: hexs(blk.encode()))
        answers.append(ans)
        res.count(("benc", tuple(vals), data), nontrivial=ans.startswith("ok"),
                  sample={"op": "block.encode", "hdr": vals, "data_len": n} if i < 2 else None)
        res.bump("block_data_len", n if n in dlens else "other")
        res.bump("benc_outcome", ans.split()[0] if ans.startswith("ok") else ans)
        if ans.startswith("ok"):
            raw = blk.encode()
            enc_blocks.append((vals, data, raw))
            # oracle: decode(encode(b)) == b
            d = SecsIBlock.decode(raw)
            in_range = all(0 <= vals[j] <= MAXES[f] for j, f in enumerate(FIELDS[:5]))
            ok = (not in_range) or d is not None and d.data == data and all(int(getattr(d.header, f)) == int(v) for f, v in zip(FIELDS, vals))
            if not ok:
                res.violate("block-roundtrip", "decode(encode(block)) differs from block", {"hdr": vals, "data": data.hex()},
                            {"hdr": vals}, None if d is None else hdr_args(d.header))
    hlib.compare_batch(res, drv, "Block.encode vs Model.SecsI.Block.encode", cases, lines, answers)

    cases, lines, answers = [], [], []
    for vals, data, raw in enc_blocks[: (600 if big else 150)]:
        variants = [raw, raw[:-1], raw + b"\x00", raw[1:]]
        for _ in range(3):
            if len(raw) > 1:
                pos = rng.below(len(raw))
                variants.append(raw[:pos] + bytes([raw[pos] ^ (1 + rng.below(255))]) + raw[pos + 1:])
        variants.append(bytes([rng.below(256)]) + raw[1:])
        variants.append(b"")
        for v in variants:
            cases.append(v.hex()[:80])
            lines.append("secsi bdec " + hexs(v))

            def f(v=v):
                b = SecsIBlock.decode(v)
                return "none" if b is None else show_block(b)
            answers.append(impl(f))
            res.count(("bdec", v), nontrivial=len(v) > 12)
            res.bump("bdec_outcome", answers[-1].split()[0] + ("" if answers[-1].startswith("err") else (" none" if answers[-1] == "ok none" else " block")))
    hlib.compare_batch(res, drv, "Block.decode vs Model.SecsI.Block.decode", cases, lines, answers)

    # ------------------------------------------------------------ corruption: exhaustive single-byte changes (oracle)
    n_corrupt = 0
    targets = [e for e in enc_blocks if len(e[1]) in (0, 1, 10)][:3] + [e for e in enc_blocks if len(e[1]) in (244, 243)][: (3 if big else 1)]
    # ... and blocks whose byte sum is below 256 / exactly a multiple of 256: a corrupted checksum byte can then read 0x00 (or the whole
    # field 0x0000), which no decoder may take for "no checksum to verify"
    for lv, ld in (([1, 0, 1, 1, 1, 0, 0, 1], b""), ([2, 0, 0, 0, 0, 0, 0, 0], b"\x01"), ([1, 0, 1, 1, 1, 0, 0, 1], b"\x7b")):
        try:
            targets.append((lv, ld, SecsIBlock(mk_header(lv), ld).encode()))
        except Exception:  # noqa: BLE001
            pass
    for vals, data, raw in targets:
        for pos in range(len(raw)):
            for val in range(256):
                if val == raw[pos]:
                    continue
                bad = raw[:pos] + bytes([val]) + raw[pos + 1:]
                n_corrupt += 1
                try:
                    d = SecsIBlock.decode(bad)
                except Exception:  # noqa: BLE001
                    d = None
                if d is not None:
                    res.violate("corrupt-accepted", "a block with one altered byte is accepted as valid",
                                {"block": raw.hex(), "pos": pos, "value": val}, "None/exception", show_block(d)[:100])
        res.count(("corrupt-all", raw), sample={"op": "all single-byte corruptions", "block_len": len(raw)})
    # adversarial single-byte corruptions: the length byte is lowered to cut the block at n2 < n and the two data bytes at the cut
    # happen to equal the 16-bit sum of header and data before the cut (the only way a shortened block could look consistent)
    n_crafted = 0
    for _ in range(400 if big else 120):
        vals = gen_header(rng)
        n = rng.range(3, 244)
        n2 = rng.range(0, n - 2)
        hdr = mk_header(vals)
        prefix = rng.bytes(n2)
        ssum = (sum(hdr.encode()) + sum(prefix)) & 0xFFFF
        data = prefix + bytes([ssum >> 8, ssum & 0xFF]) + rng.bytes(n - n2 - 2)
        raw = SecsIBlock(hdr, data).encode()
        bad = bytes([10 + n2]) + raw[1:]
        n_crafted += 1
        try:
            d = SecsIBlock.decode(bad)
        except Exception:  # noqa: BLE001
            d = None
        if d is not None:
            res.violate("corrupt-accepted", "a block whose length byte was altered is accepted as a (shorter) valid block",
                        {"block": raw.hex(), "pos": 0, "value": 10 + n2}, "None/exception", show_block(d)[:100])
    res.count(("crafted-length-cut", n_crafted), sample={"op": "length byte lowered, data at the cut = running checksum", "cases": n_crafted})
    res.evaluations += n_corrupt + n_crafted
    res.bump("corruptions", "crafted length-cut variants decoded", n_crafted)
    res.bump("corruptions", "single-byte variants decoded", n_corrupt)
    res.exhaustive_parts.append(f"every single-byte corruption (all offsets x 255 values) of {len(targets)} encoded blocks: {n_corrupt} decodes")

    # ------------------------------------------------------------ C. split (model vs real + oracle)
    cases, lines, answers = [], [], []
    lens = body_lengths(a.tier, a.search)
    for i, n in enumerate(lens + [rng.range(0, 2000) for _ in range(40 if big else 10)]):
        vals = gen_header(rng)
        body = rng.bytes(n)
        h = mk_header(vals)
        msg = SecsIMessage(h, body)
        blocks = msg.blocks
        cases.append({"hdr": vals, "len": n})
        lines.append("secsi split " + " ".join(str(v) for v in vals) + " " + hexs(body))
        answers.append("ok " + ";".join(show_block(b) for b in blocks))
        res.count(("split", tuple(vals), body), sample={"op": "split", "hdr": vals, "body_len": n, "blocks": len(blocks)} if i < 3 else None)
        res.bump("split_blocks", len(blocks))
        # oracle
        want_n = max(1, -(-n // 244))
        bad = None
        if b"".join(b.data for b in blocks) != body:
            bad = "concatenated block data differs from the body"
        elif len(blocks) != want_n or any(len(b.data) > 244 for b in blocks):
            bad = "wrong number of blocks or a block above 244 data bytes"
        elif [b.header.block for b in blocks] != list(range(1, len(blocks) + 1)):
            bad = "block numbers are not 1..n"
        elif [bool(b.header.last_block) for b in blocks] != [False] * (len(blocks) - 1) + [True]:
            bad = "end bit not exactly on the last block"
        elif any((b.header.system, b.header.device_id, b.header.stream, b.header.function, b.header.from_equipment, b.header.require_response)
                 != (vals[0], vals[1], vals[2], vals[3], bool(vals[5]), bool(vals[6])) for b in blocks):
            bad = "a header field other than block number / end bit changed"
        if bad:
            res.violate("split", bad, {"hdr": vals, "body_len": n}, None, [show_block(b)[:60] for b in blocks][:4])
    hlib.compare_batch(res, drv, "SecsIMessage._split_blocks vs Model.SecsI.split", cases, lines, answers)

    # the 32767-block limit (E4: 15-bit block number): oracle on the implementation in every tier, model through the driver in thorough
    for n in (244 * 32767, 244 * 32766 + 1, 244 * 32766):
        vals = gen_header(rng)
        body = rng.bytes(n)
        want_n = -(-n // 244)
        try:
            blocks = SecsIMessage(mk_header(vals), body).blocks
        except Exception as exc:  # noqa: BLE001
            res.violate("split", f"a body of {n} bytes ({want_n} blocks, within the 32767-block limit) cannot be split: {hlib.errkind(exc)}",
                        {"hdr": vals, "body_len": n})
            continue
        res.count(("split-max", n), sample={"op": "split", "body_len": n, "blocks": len(blocks)})
        if len(blocks) != want_n or b"".join(b.data for b in blocks) != body or blocks[-1].header.block != want_n or not blocks[-1].header.last_block \
                or any(b.header.last_block for b in blocks[:-1]) or blocks[0].header.block != 1:
            res.violate("split", f"{want_n}-block body not split correctly", {"hdr": vals, "body_len": n})
        else:
            try:
                raw = blocks[-1].encode()
                back = SecsIBlock.decode(raw)
                if back is None or back.header.block != want_n or not back.header.last_block or bytes(back.data) != bytes(blocks[-1].data):
                    res.violate("block-roundtrip", f"the last block (number {want_n}) of a {want_n}-block message does not survive encode/decode", {"hdr": vals, "body_len": n})
            except Exception as exc:  # noqa: BLE001
                res.violate("block-roundtrip", f"the last block (number {want_n}) cannot be encoded/decoded: {hlib.errkind(exc)}", {"hdr": vals, "body_len": n})
        if big and n == 244 * 32767:
            hlib.compare_batch(res, drv, "split at the 32767-block limit", [{"len": n}],
                               ["secsi split " + " ".join(str(v) for v in vals) + " " + hexs(body)],
                               ["ok " + ";".join(show_block(b) for b in blocks)])

    # ------------------------------------------------------------ glue: the byte queue the SECS-I receive path reads blocks from
    # `SecsIProtocol._process_received_data` takes a block with `ByteQueue.wait_for(length + 3)`: whatever the chunking of the line,
    # it must get exactly that many bytes, the block's bytes, in order (a short read truncates the block: no ACK/NAK, message lost).
    import threading
    import time as _time
    from secsgem.common.byte_queue import ByteQueue
    for i in range(12 if big else 5):
        n = rng.choice([13, 14, 60, 257])
        payload = rng.bytes(n)
        cuts = sorted({rng.range(1, n - 1) for _ in range(rng.range(2, 4))})
        frags = [payload[a:b] for a, b in zip([0] + cuts, cuts + [n])]
        q = ByteQueue()
        out = {}

        def reader(q=q, n=n, out=out):
            try:
                out["v"] = bytes(q.wait_for(n))
            except Exception as exc:  # noqa: BLE001
                out["e"] = hlib.errkind(exc)
        t = threading.Thread(target=reader, daemon=True)
        t.start()
        for fr in frags:
            # feed each further fragment only once the reader sleeps on the queue's condition again (the adverse schedule)
            t_end = _time.time() + 0.3
            while _time.time() < t_end and not q._buffer_lock._waiters:
                _time.sleep(0.001)
            q.append(fr)
        t.join(3)
        res.count(("bytequeue", n, tuple(cuts)), sample={"op": "ByteQueue.wait_for across fragments", "n": n, "cuts": cuts} if i < 1 else None)
        if t.is_alive() or out.get("v") != payload:
            res.violate("bytequeue-short-read", "ByteQueue.wait_for(n) did not return exactly the n bytes when they arrived in several fragments",
                        {"n": n, "cuts": cuts}, n, ("blocked" if t.is_alive() else out.get("e", len(out.get("v", b"")))))

    # ------------------------------------------------------------ D. reassembly
    cases, lines, answers = [], [], []
    for i in range(400 if big else 80):
        k = rng.range(1, 4)
        systems = []
        while len(systems) < k:
            s = rng.choice([0, 1, 2**32 - 1, rng.range(0, 2**32 - 1)])
            if systems and rng.range(0, 2) > 0:
                # distinct system bytes that collide under any partial key: same low/high half, same low byte, swapped halves
                p0 = systems[0]
                s = rng.choice([(p0 & 0xFFFF) | (rng.range(0, 0xFFFF) << 16), (p0 & 0xFFFF0000) | rng.range(0, 0xFFFF),
                                (p0 & 0xFF) | (rng.range(0, 0xFFFFFF) << 8), ((p0 & 0xFFFF) << 16) | (p0 >> 16),
                                p0 ^ (1 << rng.range(0, 31)), (p0 + 2**31) % 2**32])
            if s not in systems:
                systems.append(s)
        msgs = []
        for s in systems:
            vals = gen_header(rng)
            vals[0] = s
            body = rng.bytes(rng.choice([0, 1, 244, 245, 488, 489, rng.range(0, 1200)]))
            msgs.append((vals, body, SecsIMessage(mk_header(vals), body).blocks))
        # random interleaving that keeps each message's own block order
        order = []
        idx = [0] * k
        remaining = sum(len(m[2]) for m in msgs)
        while remaining:
            j = rng.choice([j for j in range(k) if idx[j] < len(msgs[j][2])])
            order.append(msgs[j][2][idx[j]])
            idx[j] += 1
            remaining -= 1
        # through encode/decode, as on the line
        try:
            wire = [SecsIBlock.decode(b.encode()) for b in order]
        except Exception as exc:  # noqa: BLE001
            res.violate("block-roundtrip", f"a block produced by split cannot be encoded/decoded: {hlib.errkind(exc)}", {"systems": systems})
            continue
        if any(b is None for b in wire):
            badb = order[[b is None for b in wire].index(True)]
            res.violate("block-roundtrip", "a valid encoded block (in-range header) is rejected by decode",
                        {"hdr": [int(getattr(badb.header, f)) for f in FIELDS], "data": badb.data.hex()[:80]}, "block", None)
            continue
        stub = ProtoStub()
        done = []
        try:
            for b in wire:
                m = stub._add_message_block(b)
                if m is not None:
                    done.append(m)
        except Exception as exc:  # noqa: BLE001
            res.violate("reassembly", f"_add_message_block raised {hlib.errkind(exc)}", {"systems": systems, "order": [b.header.system for b in order]})
            continue
        ans = "ok " + ";".join(hdr_args(m.header) + " " + hexs(m.data) + " n=" + str(len(m.blocks)) for m in done) \
            + " | pending=" + ",".join(str(s) for s in stub._incomplete_messages)
        cases.append({"systems": systems, "blocks": len(order)})
        lines.append("secsi reasm " + " ".join(show_block(b) for b in wire))
        answers.append(ans)
        res.count(("reasm", tuple(systems), tuple(len(m[1]) for m in msgs), tuple(b.header.system for b in order)),
                  sample={"op": "reassemble", "transactions": k, "blocks": len(order)} if i < 2 else None)
        res.bump("reasm_transactions", k)
        # oracle: exactly the original messages
        got = {m.header.system: m for m in done}
        bad = None
        if len(done) != k or stub._incomplete_messages:
            bad = "number of completed messages differs from the number sent"
        else:
            for vals, body, blocks in msgs:
                m = got.get(vals[0])
                if m is None or m.data != body:
                    bad = "a reassembled body differs from the original"
                    break
                hh = m.header
                if (hh.device_id, hh.stream, hh.function, hh.from_equipment, hh.require_response) != (vals[1], vals[2], vals[3], bool(vals[5]), bool(vals[6])):
                    bad = "a reassembled header differs from the original"
                    break
        if bad:
            res.violate("reassembly", bad, {"systems": systems, "lens": [len(m[1]) for m in msgs], "order": [b.header.system for b in order]})
    hlib.compare_batch(res, drv, "Protocol._add_message_block vs Model.SecsI.reassemble", cases, lines, answers)

    # ------------------------------------------------------------ E. the same through the REAL receive path of SecsIProtocol
    # consecutive messages on the line whose blocks share system bytes and block numbers (a reply, then a primary of the other side's own
    # numbering that happens to use the same system bytes; the same transaction id twice in a row): every message must come out
    # whole.  Model side: reassembly of exactly the blocks in line order (domain `secsi reasm`).
    import threading
    import c17
    cases, lines, answers = [], [], []
    for i in range(24 if big else 8):
        rr = rng.fork(f"rx{i}")
        pair = c17.Pair(rr.fork("pair"), [rr.choice([1, 3, 64, 300])], False, 0)
        try:
            direction = rr.choice(["H2E", "E2H"])
            snd, rkey = (pair.host, "E") if direction == "H2E" else (pair.equip, "H")
            a_end = pair.ch if direction == "H2E" else pair.ce
            a_end.name, a_end.peer.name = "a", "b"
            base = rr.choice([0, 1, 7, 2**32 - 1, rr.range(0, 2**32 - 1)])
            msgs = []
            for k in range(rr.range(2, 5)):
                system = base if rr.chance(2, 3) else (base + rr.range(1, 3)) % 2**32
                body = rr.bytes(rr.choice([0, 1, 10, 244, 245, 500]))
                msgs.append((system, rr.choice([1, 5, 6, 127]), rr.choice([0, 1, 2, 13, 14, 255]), rr.chance(1, 2), body))
            oks = []
            for system, st, fn, w, body in msgs:
                out = {}

                def go(system=system, st=st, fn=fn, w=w, body=body, out=out):
                    try:
                        out["r"] = snd.send_response(c17.Fn(st, fn, w, body), system)
                    except Exception as exc:  # noqa: BLE001
                        out["r"] = hlib.errkind(exc)
                t = threading.Thread(target=go, daemon=True)
                t.start()
                t.join(15)
                oks.append(out.get("r", "blocked"))
            t_end = time.time() + 3
            while time.time() < t_end and len(pair.got[rkey]) < len(msgs):
                time.sleep(0.003)
            time.sleep(0.01)
            got = [(int(m.header.system), int(m.header.stream), int(m.header.function), bool(m.header.require_response), bytes(m.data)) for m in pair.got[rkey]]
            case = {"direction": direction, "messages": [(sy, st, fn, w, len(b)) for sy, st, fn, w, b in msgs]}
            res.count(("rx-path", direction, tuple(case["messages"])), sample=case if i < 2 else None)
            if any(o is not True for o in oks):
                res.violate("reassembly", f"send_response on a perfect line returned {oks}", case)
            elif got != [(sy, st, fn, w, b) for sy, st, fn, w, b in msgs]:
                res.violate("reassembly", "messages sent one after the other over a perfect SECS-I line (some sharing system bytes and block numbers) did not all "
                            f"arrive whole: sent {[(m[0], m[1], m[2], len(m[4])) for m in msgs]}, received {[(g[0], g[1], g[2], len(g[4])) for g in got]}", case)
            blocks_on_line = list(pair.queued[rkey])
            cases.append(case)
            lines.append("secsi reasm " + " ".join(blocks_on_line))
            answers.append("ok " + ";".join(show_block_of_message(m) for m in pair.got[rkey]) + " | pending=")
        except Exception as exc:  # noqa: BLE001
            res.violate("reassembly", f"receive-path scenario: {hlib.errkind(exc)}: {exc}", {"i": i})
        finally:
            pair.close()
    hlib.compare_batch(res, drv, "SecsIProtocol receive path (blocks accepted in line order) vs Model.SecsI.reassemble", cases, lines, answers)

    # ------------------------------------------------------------ E2. a block other than the last is damaged on the line (real sender, real receiver)
    # whatever the sender does after the NAK, the receiver must never hand over a message whose body is not the body that was sent
    for i in range(12 if big else 4):
        rr = rng.fork(f"mid{i}")
        pair = c17.Pair(rr.fork("pair"), [rr.choice([3, 64, 300])], False, 0)
        try:
            direction = rr.choice(["H2E", "E2H"])
            snd, rkey = (pair.host, "E") if direction == "H2E" else (pair.equip, "H")
            a_end = pair.ch if direction == "H2E" else pair.ce
            a_end.name, a_end.peer.name = "a", "b"
            nblocks = rr.choice([3, 4, 5])
            body = rr.bytes(244 * (nblocks - 1) + rr.range(1, 244))
            j = rr.range(0, nblocks - 2)
            pair.world.fault = ("a", 2 * j + 1, rr.range(1, 12), rr.range(0, 255))
            system = rr.range(0, 2**32 - 1)
            out = {}

            def go(out=out, system=system, body=body):
                try:
                    out["r"] = snd.send_response(c17.Fn(6, 11, False, body), system)
                except Exception as exc:  # noqa: BLE001
                    out["r"] = hlib.errkind(exc)
            t = threading.Thread(target=go, daemon=True)
            t.start()
            t.join(30)
            time.sleep(0.3)
            got = [(int(m.header.system), bytes(m.data), len(m.blocks)) for m in pair.got[rkey]]
            case = {"direction": direction, "blocks": nblocks, "damaged_block": j + 1, "body_len": len(body), "send_result": out.get("r", "blocked")}
            res.count(("mid-fault", direction, nblocks, j), sample=case if i < 2 else None)
            bad = [g for g in got if g[1] != body]
            if bad:
                res.violate("reassembly", f"block {j + 1} of {nblocks} was damaged on the line: the receiver handed over a message with a body of {len(bad[0][1])} bytes in "
                            f"{bad[0][2]} blocks (sent: {len(body)} bytes in {nblocks} blocks)", case)
            elif got and out.get("r") is not True:
                res.violate("reassembly", "a message was delivered although the send call did not report success", case)
        except Exception as exc:  # noqa: BLE001
            res.violate("reassembly", f"mid-block fault scenario: {hlib.errkind(exc)}: {exc}", {"i": i})
        finally:
            pair.close()

    # ------------------------------------------------------------ F. a scripted FOREIGN sender on the line of one real SecsIProtocol
    # (what the library's own sender never does, but E4 allows): blocks of two multi-block messages interleaved; a damaged block that is
    # NAKed and then retransmitted; non-final blocks shorter than 244 bytes.  Reference: Model.SecsI.reassemble over exactly the ACKed blocks.
    from secsgem.secsi import SecsIProtocol
    cases, lines, answers = [], [], []

    class Wire(secsgem.common.Connection):
        def __init__(self, settings):
            super().__init__(settings)
            self.sent = []
            self.cv = threading.Condition()

        def enable(self):
            pass

        def disable(self):
            pass

        def send_data(self, data):
            with self.cv:
                self.sent.extend(bytes(data))
                self.cv.notify_all()
            return True

        def take(self, bound=20.0):
            """next control byte the endpoint wrote (EOT / ACK / NAK), or None"""
            with self.cv:
                if not self.cv.wait_for(lambda: len(self.sent) > 0, bound):
                    return None
                return self.sent.pop(0)

    class WS(c17.SecsISettings):
        def create_connection(self):
            self.conn = Wire(self)
            return self.conn

    for i in range(30 if big else 10):
        rr = rng.fork(f"fs{i}")
        proto = SecsIProtocol(WS(port="X", device_type=rr.choice([secsgem.common.DeviceType.HOST, secsgem.common.DeviceType.EQUIPMENT]), device_id=5))
        wire = proto._connection
        got = []
        proto.events.message_received += lambda d, got=got: got.append(d["message"])
        accepted = []
        try:
            wire.on_connected({"source": wire})
            kind = ["interleave", "nak-retransmit", "short-blocks", "interleave+nak"][i % 4]
            sys_a, sys_b = rr.range(0, 2**32 - 1), rr.range(0, 2**32 - 1)
            if sys_a == sys_b:
                sys_b = (sys_a + 1) % 2**32
            from_eq = proto._settings.device_type == secsgem.common.DeviceType.HOST   # the peer is the other role

            def blocks_of(system, body, sizes=None):
                hdr_vals = [system, 5, rr.choice([1, 6, 7]), rr.choice([1, 3, 11]), 0, int(from_eq), rr.range(0, 1), 0]
                if sizes is None:
                    return list(SecsIMessage(mk_header(hdr_vals), body).blocks)
                out, pos = [], 0
                for k, n in enumerate(sizes):
                    v = list(hdr_vals)
                    v[4], v[7] = k + 1, int(k == len(sizes) - 1)
                    out.append(SecsIBlock(mk_header(v), body[pos:pos + n]))
                    pos += n
                return out
            body_a, body_b = rr.bytes(rr.choice([489, 600, 733])), rr.bytes(rr.choice([245, 300, 500]))
            if kind == "short-blocks":
                sizes = [rr.range(1, 243), rr.range(1, 244), rr.range(0, 244)]
                body_a = rr.bytes(sum(sizes))
                seq = [(b, False) for b in blocks_of(sys_a, body_a, sizes)]
                want = {sys_a: body_a}
            else:
                a_blocks, b_blocks = blocks_of(sys_a, body_a), blocks_of(sys_b, body_b)
                if kind == "nak-retransmit":
                    seq = [(a_blocks[0], False), (a_blocks[1], True), (a_blocks[1], False)] + [(b, False) for b in a_blocks[2:]]
                    want = {sys_a: body_a}
                else:
                    seq, ia, ib = [], 0, 0
                    while ia < len(a_blocks) or ib < len(b_blocks):
                        if ib >= len(b_blocks) or (ia < len(a_blocks) and rr.chance(1, 2)):
                            seq.append((a_blocks[ia], False))
                            ia += 1
                        else:
                            seq.append((b_blocks[ib], False))
                            ib += 1
                    if kind == "interleave+nak":
                        # a damaged copy of a later block of A goes first and is NAKed; B's blocks already accepted must survive that
                        j = next((k for k, (b, _) in enumerate(seq) if b.header.system == sys_a and b.header.block > 1), None)
                        if j is not None:
                            seq.insert(j, (seq[j][0], True))
                    want = {sys_a: body_a, sys_b: body_b}
            stalled = None
            for blk, damage in seq:
                raw = bytearray(blk.encode())
                if damage:
                    raw[rr.range(1, len(raw) - 1)] ^= 1 << rr.range(0, 7)
                wire.on_data({"source": wire, "data": bytes([5])})          # ENQ
                if wire.take() != 4:                                       # EOT
                    stalled = "no EOT after ENQ"
                    break
                cut = rr.range(1, len(raw) - 1)
                wire.on_data({"source": wire, "data": bytes(raw[:cut])})
                wire.on_data({"source": wire, "data": bytes(raw[cut:])})
                ans = wire.take()
                if ans is None:
                    stalled = "no ACK/NAK after a block"
                    break
                if damage and ans != 0x15:
                    res.violate("corrupt-accepted", "a block with one flipped bit sent by a foreign sender was not answered NAK",
                                {"kind": kind, "block": bytes(raw).hex()}, "NAK", ans)
                if not damage and ans != 6:
                    res.violate("block-roundtrip", "an intact block sent by a foreign sender was not answered ACK", {"kind": kind, "block": bytes(raw).hex()}, "ACK", ans)
                if ans == 6:
                    accepted.append(blk)
            t_end = time.time() + 20
            while stalled is None and time.time() < t_end and len(got) < len(want):
                time.sleep(0.002)
            time.sleep(0.01)
            case = {"kind": kind, "systems": [sys_a, sys_b], "blocks": [(int(b.header.system), int(b.header.block), len(b.data), d) for b, d in seq]}
            res.count(("foreign", kind, tuple(case["blocks"])), sample=case if i < 4 else None)
            res.bump("foreign_sender", kind)
            delivered = {int(m.header.system): bytes(m.data) for m in got}
            if stalled:
                res.violate("reassembly", f"foreign-sender transfer stalled: {stalled}", case)
            elif delivered != want or len(got) != len(want):
                res.violate("reassembly", "blocks sent by a foreign sender (interleaved transactions / NAKed block retransmitted / short non-final blocks): the messages "
                            f"delivered are not the messages sent: sent {[(k, len(v)) for k, v in want.items()]}, delivered {[(int(m.header.system), len(m.data), len(m.blocks)) for m in got]}", case)
            cases.append(case)
            lines.append("secsi reasm " + " ".join(show_block(b) for b in accepted))
            answers.append("ok " + ";".join(show_block_of_message(m) for m in got) + " | pending=")
        except Exception as exc:  # noqa: BLE001
            res.violate("reassembly", f"foreign-sender scenario: {hlib.errkind(exc)}: {exc}", {"i": i})
        finally:
            try:
                wire.on_disconnected({"source": wire})
            except Exception:  # noqa: BLE001
                pass
    hlib.compare_batch(res, drv, "SecsIProtocol receive path driven by a scripted foreign sender vs Model.SecsI.reassemble over the ACKed blocks", cases, lines, answers)

    res.dump(a.out)


if __name__ == "__main__":
    main()
