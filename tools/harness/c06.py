"""C06 — replies reach exactly their requester; other messages delivered once, one at a time, in order, also across reconnects.

Runs the REAL `HsmsProtocol` (threads and all) over an in-memory `Connection`.

(i)   `tools/sched.py` baton schedules: two/three real callers through `get_next_system_counter` (every line a switch point) and
      through `send_and_waitfor_response` (the five lines that are model steps) under ALL interleavings for 2 x 1 calls.
(ii)  free-running threads: N callers, scripted reply permutations with late, missing, duplicate and stray replies.
(iii) unsolicited messages with a slow handler: exactly once, arrival order, one at a time.
(iv)  disconnect/reconnect cycles: live dispatcher threads, and again (iii) afterwards.

Correspondence: every run is recorded by a tap on the shared objects (`_response_queues`, the dispatch queue, the counter, start/stop) as a
sequence of the model's atomic steps and replayed on `Model.Txn` through the driver (`txn run ...`): every step must be enabled and the
final results / delivered list / thread count must agree.  Oracle: the property's own words on what the harness itself observed
(wire, return values, its own `message_received` handler) - not on the tap.
"""
from __future__ import annotations

import logging
import os
import queue
import struct
import sys
import threading
import time

sys.path.insert(0, os.path.dirname(os.path.dirname(os.path.abspath(__file__))))
import hlib  # noqa: E402
import sched  # noqa: E402

logging.disable(logging.CRITICAL)

import secsgem.common  # noqa: E402
import secsgem.hsms  # noqa: E402
from secsgem.hsms import HsmsBlock, HsmsMessage  # noqa: E402
from secsgem.hsms.select_req_header import HsmsSelectReqHeader  # noqa: E402
from secsgem.hsms.stream_function_header import HsmsStreamFunctionHeader  # noqa: E402

KNOWN_CLASS = "c06-dispatcher-leak"
KNOWN_STALE_GATE = "c06-hsms-queued-rejected-after-reconnect"


class RetryDriver(hlib.Driver):
    """the driver binary is relinked by concurrent checks of other properties: retry for a while when it is momentarily missing"""

    def run(self, lines, timeout: float = 600.0):
        last = None
        for _ in range(90):
            try:
                return super().run(lines, timeout)
            except (FileNotFoundError, PermissionError, OSError, RuntimeError) as exc:
                last = exc
                if isinstance(exc, RuntimeError) and "driver failed" in str(exc) and "rc=-" not in str(exc) and "answers=0/" not in str(exc):
                    raise
                time.sleep(1.0)
        raise last



# ---------------------------------------------------------------------------------------------- waiting: at quiescence, never after a sleep
# Observations are taken at QUIESCENCE (`quiesce`) or when a logical condition holds (`wait_until`, `join`) - never after a fixed sleep or a
# short bounded wait whose expiry would be read as "did not happen".  A deadline only ends a wait for something that never comes: 20 s until
# the implementation has shown once that it really stalls, ~4 s afterwards (so that machine load cannot trip it, and a stuck mutation does
# not blow the time budget).  T3 of `send_and_waitfor_response` is LOGICAL on tapped rigs: the harness fires it (`Tap.expire_waiting`).
WAIT_FIRST, WAIT_LATER = 20.0, 4.0
STALLS = [0]
STALL_LOG = []


def _stalled():
    import traceback
    STALLS[0] += 1
    fr = traceback.extract_stack(limit=4)[:-2]
    STALL_LOG.append(" <- ".join(f"{f.name}:{f.lineno}" for f in reversed(fr)))


def deadline() -> float:
    return WAIT_FIRST if STALLS[0] == 0 else WAIT_LATER


def waiting(limit) -> bool:
    """loop guard: True while the deadline `limit` (time.time() based) has not passed; its expiry is recorded as a stall"""
    if time.time() < limit:
        return True
    _stalled()
    return False


def wait_until(cond) -> bool:
    end = None
    spins = 0
    while not cond():
        spins += 1
        time.sleep(0 if spins < 200 else 0.0003)
        if end is None:
            end = time.monotonic() + deadline()
        elif time.monotonic() > end:
            _stalled()
            return False
    return True


def finish(rig, thread) -> bool:
    """let a caller of send_and_waitfor_response come back: everything fed so far is dispatched (quiescence), then - if it still waits -
    its T3 runs out; -> False if it does not return even then"""
    rig.quiesce()
    rig.tap.expire_waiting()
    return join(thread)


def wait_sent(rig) -> bool:
    """the request is on the wire and its caller is inside response_queue.get()"""
    return wait_until(lambda: bool(rig.tap.waiting_callers()))


def join(thread) -> bool:
    """wait for a thread that is expected to finish; False (a stall) if it does not"""
    return wait_until(lambda: not thread.is_alive())


class Quiet:
    """mixin: quiescence of the protocol threads of `self.p` (receiver pass / dispatcher call wrapped with a busy counter)"""

    def watch_threads(self):
        self._busy = 0
        self._busy_lock = threading.Lock()
        th = self.p._thread

        def wrap(orig):
            def run(*a):
                with self._busy_lock:
                    self._busy += 1
                try:
                    return orig(*a)
                finally:
                    with self._busy_lock:
                        self._busy -= 1
            return run

        th._receiver_target = wrap(th._receiver_target)
        th._dispatcher_target = wrap(th._dispatcher_target)

    def is_quiet(self) -> bool:
        th = self.p._thread
        return not (self._busy or queue.Queue.qsize(th._dispatch_queue) or th._dispatcher_thread_trigger.is_set()
                    or th._receiver_thread_trigger.is_set() or not self.p._send_queue.empty())

    def quiesce(self, *_a, **_k) -> bool:
        """nothing in flight: no protocol thread inside library code, triggers clear, queues empty, receive buffer unchanged - looked at twice"""
        def look():
            if not self.is_quiet():
                return False
            n = len(self.p._receive_buffer)
            time.sleep(0)
            return self.is_quiet() and len(self.p._receive_buffer) == n
        return wait_until(look)


# ---------------------------------------------------------------------------------------------- in-memory connection
class MemConn(secsgem.common.Connection):
    """outermost boundary: what the protocol writes is parsed into frames and handed to `hook` (in the writer's thread)"""

    def __init__(self, settings):
        super().__init__(settings)
        self.raw = b""
        self.frames = []  # HsmsBlock, in wire order
        self.lock = threading.Lock()
        self.hook = None
        self.fail_systems = set()

    def enable(self):
        pass

    def disable(self):
        pass

    def send_data(self, data):
        new = []
        with self.lock:
            self.raw += bytes(data)
            while len(self.raw) >= 4:
                n = struct.unpack(">L", self.raw[:4])[0] + 4
                if len(self.raw) < n:
                    break
                blk = HsmsBlock.decode(self.raw[:n])
                self.raw = self.raw[n:]
                self.frames.append(blk)
                new.append(blk)
        for blk in new:
            if blk.header.system in self.fail_systems and blk.header.s_type.value == 0:
                return False
            if self.hook is not None:
                self.hook(blk)
        return True

    def data_systems(self):
        with self.lock:
            return [(b.header.system, b.header.stream, b.header.function) for b in self.frames if b.header.s_type.value == 0]


class Settings(secsgem.hsms.HsmsSettings):
    def create_connection(self):
        self.conn = MemConn(self)
        return self.conn


class Fn:
    """duck-typed SecsStreamFunction: all `send_and_waitfor_response` needs"""

    def __init__(self, stream, function, w=True):
        self.stream, self.function, self.is_reply_required = stream, function, w

    def encode(self):
        return b""

    def __str__(self):
        return f"S{self.stream}F{self.function}"


def data_msg(system, stream, function, w=False):
    return HsmsMessage(HsmsStreamFunctionHeader(system, stream, function, w, 0), b"")


def tag_of(header) -> int:
    st = header.s_type.value if hasattr(header, "s_type") else 0
    return header.stream * 256 + header.function if st == 0 else 65536 + st


# ---------------------------------------------------------------------------------------------- the tap
class Tap:
    """records the model's atomic steps at their linearization points (see module doc)"""

    def __init__(self, p):
        self.p = p
        self.lock = threading.RLock()
        self.log = []  # tuples, first element = kind
        self.by_thread = {}  # ident -> current caller index
        self.pc = {}  # caller index -> 'allocated' | 'registered' | 'sent' | ...
        self.n_callers = 0
        self.disp = {}  # ident -> dispatcher index
        self.disp_threads = []
        self.serial = {}  # id(block) -> arrival serial
        self.n_arrivals = 0
        self.tl = threading.local()
        self.dropped = set()
        self.real_timeouts = False  # True: response_queue.get really waits T3 (only for the baton schedule that needs the wall clock)
        self.auto_expire = False  # True: nobody fires T3 (baton runs): it runs out by itself after the stall budget `deadline()`
        self.expired = {}  # caller index -> Event: the harness fires that caller's T3

    # ---- helpers
    def caller(self):
        return self.by_thread.get(threading.get_ident())

    def dispatcher(self):
        ident = threading.get_ident()
        if ident not in self.disp:
            self.disp[ident] = len(self.disp)
        return self.disp[ident]

    def expire_waiting(self, only=None):
        """T3 runs out for the callers that are waiting for their reply now (or for the given caller indices)"""
        with self.lock:
            # every transaction that has no result yet - also one whose caller has not reached response_queue.get() yet (its send_message is
            # just returning): it will find its T3 expired as soon as it looks and nothing is in its queue
            who = [c for c, st in self.pc.items() if st not in ("got", "done")] if only is None else list(only)
            for c in who:
                self.expired.setdefault(c, threading.Event()).set()
        return who

    def waiting_callers(self):
        with self.lock:
            return [c for c, st in self.pc.items() if st == "sent"]

    def reset_log(self):
        with self.lock:
            self.log = []
            self.dropped = set()

    # ---- installation
    def install(self):
        p, tap = self.p, self

        class TapRespQueue(queue.Queue):
            def __init__(self, owner):
                super().__init__()
                self.owner = owner

            def get(self, block=True, timeout=None):
                try:
                    if tap.real_timeouts or not block or timeout is None:
                        m = super().get(block, timeout)
                    else:
                        # logical T3: expires when the harness says so (`expire_waiting`), not when the machine is slow
                        with tap.lock:
                            ev = tap.expired.setdefault(self.owner, threading.Event())
                        hard = time.monotonic() + (deadline() if tap.auto_expire else 3 * WAIT_FIRST)
                        while True:
                            try:
                                m = super().get(True, 0.0005)
                                break
                            except queue.Empty:
                                if ev.is_set():
                                    raise
                                if time.monotonic() > hard:
                                    _stalled()  # a reply that never reaches this caller: T3 "runs out" after the stall budget
                                    raise
                except queue.Empty:
                    with tap.lock:
                        tap.log.append(("o", self.owner))
                        tap.pc[self.owner] = "got"
                    raise
                with tap.lock:
                    tap.log.append(("r", self.owner))
                    tap.pc[self.owner] = "got"
                return m

        class TapDict(dict):
            def __setitem__(self, k, _v):
                with tap.lock:
                    c = tap.caller()
                    dict.__setitem__(self, k, TapRespQueue(c))
                    tap.log.append(("g", c))
                    tap.pc[c] = "registered"

            def __contains__(self, k):
                with tap.lock:
                    r = dict.__contains__(self, k)
                    tap.tl.decided = True
                    tap.tl.unrouted = not r
                    tap.tl.pending_put = r
                    tap.log.append(("h", tap.dispatcher(), getattr(tap.tl, "serial", None)))
                    return r

            def __getitem__(self, k):
                with tap.lock:
                    if getattr(tap.tl, "pending_put", False):
                        # second statement of the routing branch: `self._response_queues[system].put_nowait(message)` (or KeyError)
                        tap.tl.pending_put = False
                        tap.log.append(("w", tap.dispatcher(), getattr(tap.tl, "serial", None)))
                    return dict.__getitem__(self, k)

            def get(self, k, default=None):
                # reply-only routing (proposal C06-primary-system-bytes): test and lookup are one dict operation
                with tap.lock:
                    r = dict.get(self, k, None)
                    tap.tl.decided = True
                    tap.tl.unrouted = r is None
                    d, ser = tap.dispatcher(), getattr(tap.tl, "serial", None)
                    tap.log.append(("h", d, ser))
                    if r is not None:
                        tap.log.append(("w", d, ser))
                    return default if r is None else r

            def __delitem__(self, k):
                with tap.lock:
                    c = tap.caller()
                    tap.log.append(("u", c))
                    tap.pc[c] = "done"
                    dict.__delitem__(self, k)

        class TapDispatchQueue(queue.Queue):
            when_seen_empty = None  # forced schedule: runs right after the consumer has computed "queue is empty"

            def qsize(self):
                size = super().qsize()
                action = self.when_seen_empty
                if size == 0 and action is not None and threading.current_thread() in tap.disp_threads:  # only for the consumer
                    self.when_seen_empty = None
                    action()
                    # the receive path has queued the block AND set the trigger before the consumer goes on (a legal schedule)
                    wait_until(lambda: queue.Queue.qsize(self) > 0 and p._thread._dispatcher_thread_trigger.is_set())
                return size

            def put(self, item, block=True, timeout=None):
                with tap.lock:
                    h = item[1].header
                    ser = tap.n_arrivals
                    tap.n_arrivals += 1
                    tap.serial[id(item[1])] = ser
                    tap.log.append(("x", h.system, tag_of(h), ser))
                    super().put(item, block, timeout)

            def get(self, block=True, timeout=None):
                limit = None if timeout is None else time.time() + timeout
                while True:
                    with tap.lock:
                        try:
                            item = super().get(False)
                        except queue.Empty:
                            item = None
                        if item is not None:
                            ser = tap.serial.pop(id(item[1]), None)
                            tap.tl.serial = ser
                            tap.tl.decided = False
                            tap.log.append(("p", tap.dispatcher(), ser))
                            return item
                    if not block or (limit is not None and time.time() > limit):
                        raise queue.Empty
                    time.sleep(0.001)

        p._response_queues = TapDict()
        old = p._thread._dispatch_queue
        p._thread._dispatch_queue = TapDispatchQueue()
        while not old.empty():
            p._thread._dispatch_queue.put(old.get())

        orig_alloc = p.get_next_system_counter

        def alloc():
            with tap.lock:
                v = orig_alloc()
                c = tap.n_callers
                tap.n_callers += 1
                tap.by_thread[threading.get_ident()] = c
                tap.pc[c] = "allocated"
                tap.log.append(("a", c, v))
            return v

        p.get_next_system_counter = alloc

        orig_send = p.send_message

        def send_message(message):
            c = tap.caller()
            state = tap.pc.get(c) if c is not None else None
            ok = orig_send(message)
            if state == "registered":
                with tap.lock:
                    tap.log.append(("s" if ok else "f", c))
                    tap.pc[c] = "sent" if ok else "got"
            elif state == "allocated":
                with tap.lock:
                    tap.log.append(("y", c))
                    tap.pc[c] = "done"
            return ok

        p.send_message = send_message

        orig_recv = p._on_connection_message_received

        def on_message(source, message):
            tap.tl.decided = False
            tap.tl.unrouted = False
            try:
                return orig_recv(source, message)
            finally:
                with tap.lock:
                    d = tap.dispatcher()
                    ser = getattr(tap.tl, "serial", None)
                    control = hasattr(message.header, "s_type") and message.header.s_type.value != 0
                    if not tap.tl.decided or (control and tap.tl.unrouted):
                        tap.dropped.add(ser)  # no routing decision / a control message nobody waits for: not a data delivery
                    elif tap.tl.unrouted:
                        tap.log.append(("e", d, ser))

        p._on_connection_message_received = on_message

        orig_start, orig_stop = p._thread.start, p._thread.stop

        def start():
            with tap.lock:
                tap.log.append(("U",))
                orig_start()
                t = p._thread._dispatcher_thread
                tap.disp[t.ident] = len(tap.disp_threads)
                tap.disp_threads.append(t)

        def stop():
            orig_stop()
            with tap.lock:
                tap.log.append(("D",))

        p._thread.start, p._thread.stop = start, stop

    # ---- translation
    def tokens(self, atomic=True):
        with self.lock:
            log, dropped = list(self.log), set(self.dropped)
        out = []
        for e in log:
            k = e[0]
            if k in ("U", "D"):
                out.append(k)
            elif k == "q":
                out.append(f"q{e[1]}")
            elif k == "a":
                out += [f"a{e[1]}"] if atomic else [f"i{e[1]}", f"t{e[1]}"]  # the tap itself serialises the allocator
            elif k in ("g", "s", "f", "y", "r", "o", "u"):
                if e[1] is None:
                    return None, f"step {k} by a thread without a transaction"
                out.append(f"{k}{e[1]}")
            elif k == "x":
                if e[3] not in dropped:
                    out.append(f"x{e[1]}:{e[2]}")
            elif k in ("p", "h", "w", "e"):
                if e[2] not in dropped:
                    out.append(f"{k}{e[1]}")
        return out, None

    def live_dispatchers(self):
        return sum(1 for t in self.disp_threads if t.is_alive())


# ---------------------------------------------------------------------------------------------- endpoint under test
class Rig(Quiet):
    def __init__(self, t3=2.0):
        self.settings = Settings(connect_mode=secsgem.hsms.HsmsConnectMode.PASSIVE, t3=t3)
        self.p = secsgem.hsms.HsmsProtocol(self.settings)
        self.p._linktest_timeout = 10 ** 6  # no linktest transaction of the library's own timer thread in the middle of a scenario
        self.c = self.p._connection
        self.watch_threads()
        self.tap = Tap(self.p)
        self.tap.install()
        self.events = []  # ("start"|"end", system, tag) from our own message_received handler
        self.ev_lock = threading.Lock()
        self.block_first = None  # (system, threading.Event, max wait)
        self.p.events.message_received += self._on_message
        self.c0 = None

    def _on_message(self, data):
        h = data["message"].header
        tap = self.tap
        if not getattr(tap.tl, "decided", True):
            # delivered without looking at _response_queues (reply-only routing: a primary goes straight to the application)
            with tap.lock:
                tap.tl.decided = True
                tap.tl.unrouted = True
                tap.log.append(("h", tap.dispatcher(), getattr(tap.tl, "serial", None)))
        with self.ev_lock:
            self.events.append(("start", h.system, tag_of(h)))
        bf = self.block_first
        if bf is not None and bf[0] == h.system:
            bf[1].wait(120)  # released by the harness (the bound only keeps a forgotten gate from living forever)
        with self.ev_lock:
            self.events.append(("end", h.system, tag_of(h)))

    def feed(self, msg):
        for b in msg.blocks:
            self.c.on_data({"source": self.c, "data": b.encode()})

    def connect(self):
        self.c.on_connected({"source": self.c})
        self.feed(HsmsMessage(HsmsSelectReqHeader(77), b""))
        limit = time.time() + deadline()
        while waiting(limit):
            if self.p.connection_state.current == secsgem.hsms.connection_state_machine.ConnectionState.CONNECTED_SELECTED:
                return True
            time.sleep(0.002)
        return False

    def disconnect(self):
        self.c.on_disconnecting({"source": self.c})
        self.c.on_disconnected({"source": self.c})


REPLY_ONLY = False  # set by the probe: the endpoint routes only replies (even function) to waiting callers


def aflag(atomic) -> str:
    return f"{int(atomic)}{int(REPLY_ONLY)}"


# ---------------------------------------------------------------------------------------------- a SECS-I endpoint (no select gate) fed at byte level
class SerialMem(secsgem.common.Connection):
    def __init__(self, settings):
        super().__init__(settings)
        self.out = bytearray()
        self.lock = threading.Lock()

    def enable(self):
        pass

    def disable(self):
        pass

    def send_data(self, data):
        with self.lock:
            self.out += bytes(data)
        return True

    def take(self):
        with self.lock:
            b = bytes(self.out)
            self.out.clear()
            return b


class SecsIRig(Quiet):
    """real SecsIProtocol (equipment role); the harness plays the host on the line: ENQ, wait EOT, block, wait ACK"""

    def __init__(self, t3=45):
        import secsgem.secsi

        class S(secsgem.secsi.SecsISettings):
            def create_connection(self_inner):
                self_inner.conn = SerialMem(self_inner)
                return self_inner.conn

        self.secsi = secsgem.secsi
        self.p = secsgem.secsi.SecsIProtocol(S(port="X", device_type=secsgem.common.DeviceType.EQUIPMENT, t3=t3))
        self.c = self.p._connection
        self.watch_threads()
        self.tap = Tap(self.p)
        self.tap.install()
        self.events = []
        self.ev_lock = threading.Lock()
        self.block_first = None
        self.p.events.message_received += lambda d: Rig._on_message(self, d)

    def connect(self):
        self.c.on_connected({"source": self.c})
        return True

    def disconnect(self):
        self.c.on_disconnecting({"source": self.c})
        self.c.on_disconnected({"source": self.c})

    def _await(self, byte, limit=2.0):
        end = time.time() + deadline()
        seen = b""
        while waiting(end):
            seen += self.c.take()
            if bytes([byte]) in seen:
                return True
            time.sleep(0.002)
        return False

    def feed(self, system, stream, function):
        """one single-block message, handshaked; True if it was ACKed"""
        from secsgem.secsi.header import SecsIHeader
        from secsgem.secsi.message import SecsIMessage
        m = SecsIMessage(SecsIHeader(system, 0, stream, function), b"")
        ok = True
        for b in m.blocks:
            self.c.on_data({"source": self.c, "data": bytes([0x05])})
            ok = ok and self._await(0x04)
            self.c.on_data({"source": self.c, "data": bytes(b.encode())})
            ok = ok and self._await(0x06)
        return ok

    def take_outgoing_block(self, limit=2.0):
        """play the receiver for ONE block the endpoint sends: wait ENQ, answer EOT, read the block, answer ACK; -> decoded block or None"""
        from secsgem.secsi.message import SecsIBlock
        end = time.time() + deadline()
        buf = b""
        while bytes([0x05]) not in buf and waiting(end):
            buf += self.c.take()
            time.sleep(0.002)
        if bytes([0x05]) not in buf:
            return None
        buf = buf[buf.index(bytes([0x05])) + 1:]
        self.c.on_data({"source": self.c, "data": bytes([0x04])})
        while waiting(end):
            buf += self.c.take()
            if buf and len(buf) >= buf[0] + 3:
                break
            time.sleep(0.002)
        if not buf or len(buf) < buf[0] + 3:
            return None
        blk = SecsIBlock.decode(buf[: buf[0] + 3])
        self.c.on_data({"source": self.c, "data": bytes([0x06 if blk is not None else 0x15])})
        return blk




def model_run(drv, atomic, patched, c0, n, toks):
    line = f"txn run {aflag(atomic)} {int(patched)} {c0} {n} " + (",".join(toks) if toks else "-")
    return line, hlib.strip_branch(drv.run([line])[0])


def parse_model(ans):
    """'ok callers=.. delivered=.. wire=.. disp=.. live=.. busy=.. inbox=.. two=..' -> dict"""
    if not ans.startswith("ok "):
        return None
    d = {}
    for part in ans[3:].split(" "):
        k, _, v = part.partition("=")
        d[k] = v
    d["callers"] = [c.split("/") for c in d["callers"].split(";")] if d.get("callers") else []
    d["delivered"] = [] if d["delivered"] == "-" else d["delivered"].split(",")
    d["wire"] = [] if d["wire"] == "-" else d["wire"].split(",")
    return d


def show_result(m):
    return "None" if m is None else f"{m.header.system}:{tag_of(m.header)}"


class Ctx:
    def __init__(self, a):
        self.a = a
        self.res = hlib.Result("C06", a.tier, a.seed)
        self.rng = hlib.Rng(a.seed ^ 0xC06)
        self.drv = RetryDriver()
        self.big = a.tier == "thorough" or a.search
        self.atomic = True
        self.patched = False
        if self.drv.available:
            self.res.driver_used = True
            self.atomic = self.drv.run(["txn atomic"])[0].strip() == "ok 1"


# ---------------------------------------------------------------------------------------------- (i-a) the counter under all line schedules
def part_counter(cx: Ctx):
    res, rng = cx.res, cx.rng
    s = secsgem.hsms.HsmsSettings(connect_mode=secsgem.hsms.HsmsConnectMode.PASSIVE)
    p = secsgem.hsms.HsmsProtocol(s)
    f = type(p).get_next_system_counter
    try:
        texts = sched.points_by_text(f, ["self._system_counter += 1", "return self._system_counter"])
    except sched.TieBroken as exc:
        res.disagree("sched line mapping", "get_next_system_counter", "lines '+= 1' and 'return'", str(exc))
        return
    inc_line, ret_line = texts["self._system_counter += 1"][0], texts["return self._system_counter"][0]
    baton = sched.Baton({sched.code_of(f): None}, stall=0.01, deadline=90.0)
    baton.describe(f)
    if hasattr(p, "_system_counter_lock"):
        p._system_counter_lock = baton.lock(p._system_counter_lock)
    p._system_counter = 100
    solo = baton.run([p.get_next_system_counter], [])
    n = len(solo.trace)
    res.bump("counter_switch_points_per_call", n)

    lines, expect, cases = [], [], []

    def one(c0, k, sch, exhaustive):
        p._system_counter = c0
        out = baton.run([p.get_next_system_counter] * k, list(sch))
        ids = [out.results.get(i) for i in range(k)]
        case = {"part": "counter", "c0": c0, "threads": k, "schedule": list(sch)}
        res.count(("counter", c0, k, tuple(sch)), sample=case if len(res.samples) < 2 else None)
        res.bump("counter_runs", f"{k} threads" + (" exhaustive" if exhaustive else " sampled"))
        if out.hung or out.errors:
            res.violate("c06-counter-hang", "get_next_system_counter did not return under a line schedule", case, None, str(out.errors or out.hung))
            return
        if len(set(ids)) != k:
            res.violate("c06-duplicate-system-bytes", "two concurrent callers of get_next_system_counter obtained equal system bytes", case,
                        "pairwise distinct", ids)
        # model: order of the traced '+= 1' / 'return' lines
        toks = []
        for (tid, _fn, no, _text) in out.trace:
            if no == inc_line:
                toks.append(f"a{tid}" if cx.atomic else f"i{tid}")
            elif no == ret_line and not cx.atomic:
                toks.append(f"t{tid}")
        if not cx.atomic:
            # the model's non-atomic variant is split at line level into read-modify-write / read-return; only compare schedules that keep
            # a thread's `+= 1` and wrap test together (always true away from the wrap)
            if c0 > 2 ** 32 - 10:
                return
        lines.append(f"txn run {aflag(cx.atomic)} 0 {c0} {k} " + ",".join(toks))
        expect.append(";".join(str(i) for i in ids))
        cases.append(case)

    total = 0
    for sch in sched.interleavings([n, n]):
        one(100, 2, sch, True)
        total += 1
    res.exhaustive_parts.append(f"get_next_system_counter: all {total} interleavings of the {n} traced lines of 2 x 1 calls")
    wrap_all = list(sched.interleavings([n, n]))
    for sch in rng.shuffle(wrap_all)[: (252 if cx.big else 30)]:
        one(2 ** 32 - 2, 2, sch, False)
    for _ in range(600 if cx.big else 30):
        sch = rng.shuffle([0] * n + [1] * n + [2] * n)
        one(rng.choice([7, 2 ** 32 - 3, 2 ** 32 - 2]), 3, sch, False)
    if cx.drv.available and lines:
        outs = cx.drv.run(lines)
        for case, line, ans, want in zip(cases, lines, outs, expect):
            res.traces_validated += 1
            m = parse_model(hlib.strip_branch(ans))
            got = None if m is None else ";".join(c[1] for c in m["callers"])
            if got != want:
                res.disagree("get_next_system_counter under a line schedule vs Model.Txn alloc steps", {"case": case, "line": line}, ans[:300], want)


# ---------------------------------------------------------------------------------------------- (i-b) send_and_waitfor_response under all schedules
STEP_LINES = [
    "system_id = self.get_next_system_counter()",
    "response_queue = self._get_queue_for_system(system_id)",
    "if not self.send_message(out_message):",
    "response = response_queue.get(True, self._settings.timeouts.t3)",
    "self._remove_queue(system_id)",
]


def part_request_schedules(cx: Ctx):
    res, rng = cx.res, cx.rng
    f = secsgem.common.Protocol.send_and_waitfor_response
    try:
        pts = sched.points_by_text(f, STEP_LINES, multi=("self._remove_queue(system_id)",))
    except sched.TieBroken as exc:
        res.disagree("sched line mapping", "send_and_waitfor_response", "the five step lines", str(exc))
        return
    linenos = {no for v in pts.values() for no in v}
    rig = Rig(t3=3.0)
    if not rig.connect():
        res.notes.append("request schedules: could not select")
        return

    def reply_now(blk):
        h = blk.header
        if h.s_type.value == 0 and h.require_response:
            rig.feed(data_msg(h.system, h.stream, h.function + 1))

    rig.c.hook = reply_now
    rig.tap.auto_expire = True  # nobody fires T3 inside a baton run: a reply that never arrives costs one stall budget
    baton = sched.Baton({sched.code_of(f): linenos}, stall=0.02, deadline=90.0)
    baton.describe(f)

    pending = []

    def one(k, sch, exhaustive):
        n_viol = len(res.violations)
        rig.tap.reset_log()
        base_callers = rig.tap.n_callers
        with rig.c.lock:
            rig.c.frames = []
        with rig.ev_lock:
            rig.events = []
        c0 = rig.p._system_counter
        fns = [Fn(1, 2 * i + 1) for i in range(k)]
        out = baton.run([(lambda fn=fn: rig.p.send_and_waitfor_response(fn)) for fn in fns], list(sch))
        case = {"part": "request-schedule", "threads": k, "schedule": list(sch)}
        res.count(("req", k, tuple(sch)), sample=case if len(res.samples) < 4 else None)
        res.bump("request_schedule_runs", f"{k} threads" + (" exhaustive" if exhaustive else " sampled"))
        if out.hung or out.errors:
            res.violate("c06-request-hang", "send_and_waitfor_response did not return under a line schedule", case, None,
                        repr(out.errors or out.hung))
            return False
        wire = rig.c.data_systems()
        own = {fn: sysid for (sysid, _st, fn) in wire}
        ids = [own.get(2 * i + 1) for i in range(k)]
        if None in ids or len(set(ids)) != k:
            res.violate("c06-duplicate-system-bytes", "outstanding requests do not carry pairwise distinct system bytes", case, "distinct", ids)
        for i in range(k):
            m = out.results.get(i)
            if m is None or m.header.system != ids[i] or m.header.function != 2 * i + 2:
                res.violate("c06-wrong-reply", "a caller did not receive exactly the reply carrying its own system bytes", case,
                            f"caller {i}: system {ids[i]} S1F{2 * i + 2}", show_result(m))
        rig.quiesce()
        with rig.ev_lock:
            starts = [e for e in rig.events if e[0] == "start"]
        if starts:
            res.violate("c06-reply-to-application", "a reply to an outstanding request was handed to the application", case, [], starts)
        # model replay: caller indices are global on the tap; renumber by subtracting the base
        toks, err = rig.tap.tokens(cx.atomic)
        if err:
            res.disagree("tap", case, "-", err)
            return True
        ren = []
        for t in toks:
            if t[0] in "aitgsfyrou" and t[1:].isdigit():
                ren.append(t[0] + str(int(t[1:]) - base_callers))
            else:
                ren.append(t)
        want = sorted(f"{ids[i]}/{show_result(out.results.get(i))}" for i in range(k))
        pending.append((case, f"txn run {aflag(cx.atomic)} {int(cx.patched)} {c0} {k} " + ",".join(["U"] + ren), want))
        return len(res.violations) == n_viol  # a failing schedule is reported once; the remaining ones would only repeat it (and its stall)

    total = 0
    t0 = time.time()
    for sch in sched.interleavings([5, 5]):
        if not one(2, sch, True):
            break
        total += 1
        if time.time() - t0 > (200 if cx.big else 45):
            res.notes.append(f"request schedules: time cap after {total} of 252 interleavings")
            break
    if total == 252:
        res.exhaustive_parts.append("send_and_waitfor_response: all 252 interleavings of the 5 step lines of 2 x 1 calls, immediate replies")
    for _ in range(400 if cx.big else 12):
        if total < 252 or not one(3, rng.shuffle([0] * 5 + [1] * 5 + [2] * 5), False):
            break
    if cx.drv.available and pending:
        outs = cx.drv.run([ln for (_c, ln, _w) in pending])
        for (case, line, want), ans in zip(pending, outs):
            res.traces_validated += 1
            ans = hlib.strip_branch(ans)
            m = parse_model(ans)
            mine = {w.split("/")[0] for w in want}
            got = None if m is None else sorted(f"{c[1]}/{c[2]}" for c in m["callers"] if c[1] in mine)
            if m is None or got != want or m["delivered"]:
                res.disagree("send_and_waitfor_response under a line schedule vs Model.Txn", {"case": case, "line": line[:1200]}, ans[:400], want)


# ---------------------------------------------------------------------------------------------- (ii) free threads, scripted replies
def part_scripted(cx: Ctx):
    res, rng = cx.res, cx.rng
    t3 = 1.0
    n_scen = 120 if cx.big else 12
    for sc in range(n_scen):
        rig = Rig(t3=t3)
        if not rig.connect():
            res.notes.append("scripted: could not select")
            return
        c0 = rig.p._system_counter
        k = rng.range(2, 6)
        with_timeouts = sc % 3 == 2
        fates = []
        for i in range(k):
            fates.append(rng.choice(["reply", "reply", "reply", "missing", "late"]) if with_timeouts else "reply")
        results = {}

        def call(i):
            results[i] = rig.p.send_and_waitfor_response(Fn(2, 2 * i + 1))

        threads = [threading.Thread(target=call, args=(i,), daemon=True) for i in range(k)]
        for t in threads:
            t.start()
        limit = time.time() + deadline()
        while waiting(limit) and len(rig.c.data_systems()) < k:
            time.sleep(0.002)
        wire = rig.c.data_systems()
        own = {fn: sysid for (sysid, _st, fn) in wire}
        ids = [own.get(2 * i + 1) for i in range(k)]
        case = {"part": "scripted", "callers": k, "fates": fates, "seed_case": sc}
        if None in ids or len(set(ids)) != k:
            res.violate("c06-duplicate-system-bytes", "outstanding requests do not carry pairwise distinct system bytes", case, "distinct", ids)
            continue
        # the peer: replies in a random permutation, unsolicited and stray messages in between
        order = rng.shuffle([i for i in range(k) if fates[i] == "reply"])
        script = [("reply", i) for i in order]
        unsol = []
        for j in range(rng.range(0, 3)):
            script.insert(rng.below(len(script) + 1), ("unsol", 900000 + j))
        if rng.chance(1, 3):
            script.insert(rng.below(len(script) + 1), ("stray", 800000))
        dup = rng.chance(1, 4) and order
        if dup:
            script.append(("dup", order[0]))
        fed = []  # (system, tag, expected destination)
        for kind, arg in script:
            if kind in ("reply", "dup"):
                m = data_msg(ids[arg], 2, 2 * arg + 2)
                fed.append((ids[arg], tag_of(m.header), "caller" if kind == "reply" else "any"))
            elif kind == "unsol":
                m = data_msg(arg, 6, 11 + (arg % 50))
                fed.append((arg, tag_of(m.header), "app"))
                unsol.append((arg, tag_of(m.header)))
            else:
                m = data_msg(arg, 9, 9)
                fed.append((arg, tag_of(m.header), "app"))
                unsol.append((arg, tag_of(m.header)))
            rig.feed(m)
            if rng.chance(1, 2):
                time.sleep(0.002)
        rig.quiesce()  # everything the peer sent so far has been dispatched: who has a reply has it
        rig.tap.expire_waiting()  # T3 runs out for the others (fates "missing" / "late")
        for t in threads:
            join(t)
        hung = [i for i, t in enumerate(threads) if t.is_alive()]
        # late replies: after the timeout, when the callers have returned
        late = [i for i in range(k) if fates[i] == "late"]
        if late and not hung:
            for i in late:
                m = data_msg(ids[i], 2, 2 * i + 2)
                rig.feed(m)
                unsol.append((ids[i], tag_of(m.header)))
        rig.quiesce()
        res.count(("scripted", k, tuple(fates), tuple(script)), sample={"part": "scripted", "callers": k, "fates": fates, "script": script} if sc < 2 else None)
        for f_ in fates:
            res.bump("scripted_reply_fate", f_)
        if hung:
            res.violate("c06-request-hang", "send_and_waitfor_response did not return after its reply was dispatched / its T3 ran out", case, None, hung)
            continue
        # oracle
        for i in range(k):
            m = results.get(i)
            if fates[i] == "reply":
                if m is None or m.header.system != ids[i] or m.header.function != 2 * i + 2:
                    res.violate("c06-wrong-reply", "a caller did not receive exactly the reply carrying its own system bytes", case,
                                f"caller {i}: {ids[i]}", show_result(m))
            elif m is not None:
                res.violate("c06-wrong-reply", "a caller whose reply never arrived in time got a message instead of a timeout", case, "None", show_result(m))
        with rig.ev_lock:
            ev = list(rig.events)
        starts = [(s, t) for (kk, s, t) in ev if kk == "start"]
        # duplicates of a reply may be consumed by the still-registered queue or reach the application: only demand the unsolicited ones
        must = [u for u in unsol]
        got = [x for x in starts if x in must]
        if got != must:
            res.violate("c06-unsolicited-order", "unsolicited messages were not handed to the application exactly once in arrival order", case, must, starts)
        for x in starts:
            if x not in must and not (dup and x[0] == ids[order[0]]):
                res.violate("c06-reply-to-application", "a reply to an outstanding request was handed to the application", case, must, starts)
        bad_nest = nesting_error(ev)
        if bad_nest:
            res.violate("c06-unsolicited-order", "two message_received handlers overlapped", case, "one at a time", ev)
        toks, err = rig.tap.tokens(cx.atomic)
        if err:
            res.disagree("tap", case, "-", err)
        elif cx.drv.available:
            line, ans = model_run(cx.drv, cx.atomic, cx.patched, c0, rig.tap.n_callers, toks)
            res.traces_validated += 1
            res.bump("model_steps_replayed", "scripted", len(toks))
            m = parse_model(ans)
            want = sorted(f"{ids[i]}/{show_result(results.get(i))}" for i in range(k))
            got2 = None if m is None else sorted(f"{c[1]}/{c[2]}" for c in m["callers"] if c[0] == "done" and c[1] in {str(x) for x in ids})
            impl_delivered = [f"{s_}:{t_}" for (kk, s_, t_) in ev if kk == "start"]
            if m is None or got2 != want or m["delivered"] != impl_delivered:
                res.disagree("scripted replies vs Model.Txn", {"case": case, "line": line[:1500]}, ans[:500], {"results": want, "delivered": impl_delivered})


def nesting_error(ev):
    depth = 0
    for e in ev:
        depth += 1 if e[0] == "start" else -1
        if depth > 1:
            return True
    return False


# ---------------------------------------------------------------------------------------------- (iii)+(iv) unsolicited, slow handler, reconnects
def unsolicited_round(cx: Ctx, rig: Rig, case, base, count=3, block=0.3):
    """feed `count` unsolicited messages; the handler of the first blocks; returns (ok, events)"""
    with rig.ev_lock:
        n0 = len(rig.events)
    gate = threading.Event()
    systems = [base + i for i in range(count)]
    rig.block_first = (systems[0], gate, block)
    for i, s in enumerate(systems):
        rig.feed(data_msg(s, 6, 11 + i))
        time.sleep(0.02)
    # while the first handler is blocked nothing else may start: wait (bounded) until it runs, then give the others time to misbehave
    limit = time.time() + deadline()
    while waiting(limit):
        with rig.ev_lock:
            if any(e[0] == "start" for e in rig.events[n0:]):
                break
        time.sleep(0.003)
    time.sleep(0.15)
    with rig.ev_lock:
        during = list(rig.events[n0:])
    gate.set()
    rig.quiesce()
    with rig.ev_lock:
        ev = list(rig.events[n0:])
    rig.block_first = None
    want = [(s, 6 * 256 + 11 + i) for i, s in enumerate(systems)]
    starts = [(s, t) for (k, s, t) in ev if k == "start"]
    problems = []
    if [e for e in during if e[0] == "start"] != [("start",) + want[0]] or any(e[0] == "end" for e in during):
        problems.append("a second message was handled while the first handler was still blocked")
    if nesting_error(ev):
        problems.append("two message_received handlers overlapped")
    if sorted(starts) != sorted(want):
        problems.append("a message was handed to the application not exactly once")
    elif starts != want:
        problems.append("messages were handed to the application out of arrival order")
    return problems, ev, want


def partial_frame():
    """a valid 20-byte HSMS data frame (4 length + 10 header + 6 body) to be cut somewhere"""
    m = HsmsMessage(HsmsStreamFunctionHeader(424242, 6, 11, False, 0), b"\x01\x02\x41\x01\x21\x07")
    return b"".join(bytes(b.encode()) for b in m.blocks)


CUTS = [2, 4, 8, 13, 14, 17, 19]  # inside the length field, length only, inside the header, header short of one byte, header only, inside the body


def sequential_delivery(rig: Rig, systems):
    """feed unsolicited messages one after the other (each after the previous handler returned); -> list of problems"""
    with rig.ev_lock:
        n0 = len(rig.events)
    for i, s_ in enumerate(systems):
        rig.feed(data_msg(s_, 6, 21 + i))
        limit = time.time() + deadline()
        while waiting(limit):
            with rig.ev_lock:
                if sum(1 for e in rig.events[n0:] if e[0] == "end") > i:
                    break
            time.sleep(0.0005)
    rig.quiesce()
    with rig.ev_lock:
        ev = list(rig.events[n0:])
    want = [(s_, 6 * 256 + 21 + i) for i, s_ in enumerate(systems)]
    starts = [(s_, t) for (k, s_, t) in ev if k == "start"]
    if starts != want:
        return ["messages sent on the re-established link were not handed to the application exactly once, in order"], ev, want
    return [], ev, want


def reconnect_scenario(cx: Ctx, cycles, cuts):
    res = cx.res
    rig = Rig(t3=1.0)
    if not rig.connect():
        res.notes.append("reconnect: could not select")
        return
    c0 = rig.p._system_counter
    case = {"part": "reconnect", "cycles": cycles, "cuts": cuts}
    frame = partial_frame()
    all_ev = []
    for cyc in range(cycles):
        # some traffic, then the link goes down - possibly in the middle of an inbound frame - and comes back
        rig.feed(data_msg(500000 + cyc, 6, 1))
        rig.quiesce()
        cut = cuts[cyc] if cyc < len(cuts) else 0
        if cut:
            with rig.tap.lock:
                rig.tap.log.append(("q", cut))
            rig.c.on_data({"source": rig.c, "data": frame[:cut]})
            rig.quiesce()
            res.bump("link_lost_after_bytes_of_a_20_byte_frame", cut)
        rig.disconnect()
        time.sleep(0.02)
        if not rig.connect():
            res.violate("c06-reconnect-select", "endpoint could not be selected again after the link was lost" +
                        (f" {cut} bytes into an inbound frame" if cut else "") + " and re-established (no Select.rsp)", case,
                        "CONNECTED_SELECTED", str(rig.p.connection_state.current))
            return
        problems, ev, want = sequential_delivery(rig, [550000 + 10 * cyc, 550001 + 10 * cyc])
        all_ev += ev
        if problems:
            res.violate("c06-reconnect-delivery", "; ".join(problems) + (f" (link lost {cut} bytes into an inbound frame)" if cut else ""),
                        dict(case, events=ev), want, ev)
            return
    # threads told to stop (stop token, detected by the probe) end by themselves; without a stop token nothing ever ends them
    if cx.patched:
        wait_until(lambda: rig.tap.live_dispatchers() <= 1)
    live = rig.tap.live_dispatchers()
    res.bump("live_dispatcher_threads_after_cycles", f"{cycles}:{live}")
    problems, ev, want = unsolicited_round(cx, rig, case, 600000 + 10 * cycles, count=3, block=1.5)
    res.count(("reconnect", cycles, tuple(cuts)), sample={"part": "reconnect", "cycles": cycles, "cuts": cuts, "live_dispatchers": live, "handler_events": ev} if cycles in (0, 1) and len(res.samples) < 8 else None)
    case = dict(case, live_dispatchers=live, events=ev)
    if live != 1:
        problems.insert(0, f"{live} dispatcher threads alive after {cycles} reconnect(s)")
    if problems:
        # the recorded finding: exactly "more than one dispatcher thread after a reconnect" and its consequences
        klass = KNOWN_CLASS if (cycles >= 1 and live > 1) else "c06-unsolicited-order"
        res.violate(klass, "; ".join(problems), case, {"live_dispatchers": 1, "starts": want}, {"live_dispatchers": live, "events": ev})
    # correspondence incl. the number of threads and what is left in the receive buffer
    toks, err = rig.tap.tokens(cx.atomic)
    if cx.drv.available and toks is not None:
        line, ans = model_run(cx.drv, cx.atomic, cx.patched, c0, max(rig.tap.n_callers, 1), toks)
        res.traces_validated += 1
        m = parse_model(ans)
        impl_delivered = [f"{s_}:{t}" for (k, s_, t) in ev if k == "start"]
        stale = len(rig.p._receive_buffer)
        if m is None:
            res.disagree("reconnect cycles vs Model.Txn", {"case": {"cycles": cycles, "cuts": cuts}, "line": line[:1500]}, ans[:300], "real run took these steps")
        else:
            tail = m["delivered"][-len(impl_delivered):] if impl_delivered else []
            if tail != impl_delivered or m["live"] != str(live) or m.get("stale") != str(stale):
                res.disagree("reconnect cycles vs Model.Txn", {"case": {"cycles": cycles, "cuts": cuts}, "line": line[:1500]},
                             {"delivered": tail, "live": m["live"], "stale": m.get("stale")}, {"delivered": impl_delivered, "live": live, "stale": stale})


def part_unsolicited_and_reconnect(cx: Ctx):
    res, rng = cx.res, cx.rng
    max_cycles = 5 if cx.big else 2
    reconnect_scenario(cx, 0, [])
    for cut in CUTS:  # every cut position once, one reconnect
        reconnect_scenario(cx, 1, [cut])
    reconnect_scenario(cx, 1, [0])
    for cycles in range(2, max_cycles + 1):
        reconnect_scenario(cx, cycles, [rng.choice(CUTS + [0]) for _ in range(cycles)])
    res.exhaustive_parts.append(f"link lost after {CUTS} bytes of a 20-byte inbound frame (every listed cut), then reconnect, select, two unsolicited messages")
    # plain (iii) with more messages and random handler timing
    for r in range(12 if cx.big else 2):
        rig = Rig(t3=1.0)
        if not rig.connect():
            return
        problems, ev, want = unsolicited_round(cx, rig, {"part": "unsolicited"}, 700000 + 20 * r, count=rng.range(3, 8), block=2.0)
        res.count(("unsolicited", r, len(want)))
        if problems:
            res.violate("c06-unsolicited-order", "; ".join(problems), {"part": "unsolicited", "events": ev}, want, ev)


# ---------------------------------------------------------------------------------------------- (v) an inbound primary that re-uses system bytes
KNOWN_PRIMARY = "c06-primary-system-bytes"
ROUTE_TEST = "if message.header.system in self._response_queues:"
ROUTE_PUT = "self._response_queues[message.header.system].put_nowait(message)"


def part_primary_collision(cx: Ctx):
    """the peer sends a PRIMARY (odd function) whose system bytes equal those of a local open transaction (E37: system bytes are only unique
    per direction).  Property: it is an 'other inbound data message' -> handed to the application exactly once; the caller gets its own
    reply or a timeout - never this message.  (a) while the request is outstanding; (b) baton schedule test / _remove_queue / put."""
    res = cx.res
    # ---- (a) no race
    for variant in ("outstanding", "then-reply"):
        rig = Rig(t3=0.6)
        if not rig.connect():
            return
        c0 = rig.p._system_counter
        out = {}
        t = threading.Thread(target=lambda: out.update(r=rig.p.send_and_waitfor_response(Fn(1, 3))), daemon=True)
        t.start()
        wait_sent(rig)
        wire = rig.c.data_systems()
        if not wire:
            res.violate("c06-request-hang", "request never reached the wire", {"part": "primary"})
            continue
        k = wire[0][0]
        rig.feed(data_msg(k, 6, 11, w=True))  # S6F11 W from the peer, same system bytes
        if variant == "then-reply":
            rig.feed(data_msg(k, 1, 4))  # the real reply S1F4
        finish(rig, t)
        rig.quiesce()
        with rig.ev_lock:
            starts = [(s_, tg) for (kk, s_, tg) in rig.events if kk == "start"]
        r = out.get("r")
        case = {"part": "primary", "variant": variant, "system": k}
        res.count(("primary", variant), sample=dict(case, caller_got=show_result(r), application_got=starts))
        problems = []
        if r is not None and r.header.function % 2 == 1:
            problems.append(f"the caller received the peer's primary S{r.header.stream}F{r.header.function} as the reply to its S1F3")
        if variant == "then-reply" and not problems and (r is None or r.header.function != 4):
            problems.append("the caller did not receive its own reply S1F4")
        if starts.count((k, 6 * 256 + 11)) != 1:
            problems.append("the peer's primary S6F11 was not handed to the application exactly once")
        if problems:
            res.violate(KNOWN_PRIMARY, "; ".join(problems), case, {"caller": "S1F4 / None", "application": [(k, 1547)]},
                        {"caller": show_result(r), "application": starts})
        toks, err = rig.tap.tokens(cx.atomic)
        if cx.drv.available and toks is not None:
            line, ans = model_run(cx.drv, cx.atomic, cx.patched, c0, max(rig.tap.n_callers, 1), toks)
            res.traces_validated += 1
            m = parse_model(ans)
            want = (show_result(r), [f"{a}:{b}" for (a, b) in starts])
            got = None if m is None else (m["callers"][0][2] if m["callers"] else None, m["delivered"])
            if got != want:
                res.disagree("primary with re-used system bytes vs Model.Txn", {"case": case, "line": line[:800]}, ans[:400], want)
    # ---- (b) the window between the test and the put, on the real functions, under the line schedule test / _remove_queue / put
    fr = secsgem.hsms.HsmsProtocol._on_connection_message_received
    fs = secsgem.common.Protocol.send_and_waitfor_response
    try:
        rp = sched.points_by_text(fr, [ROUTE_TEST, ROUTE_PUT])
    except sched.TieBroken as exc:
        if "self._response_queues.get(message.header.system)" in "".join(sched.lines_of(fr).values()):
            res.notes.append("routing test and lookup are one dict operation (reply-only routing): no window between test and put to schedule")
        else:
            res.disagree("sched line mapping", "_on_connection_message_received", [ROUTE_TEST, ROUTE_PUT], str(exc))
        return
    try:
        sp = sched.points_by_text(fs, STEP_LINES, multi=("self._remove_queue(system_id)",))
    except sched.TieBroken as exc:
        res.disagree("sched line mapping", "send_and_waitfor_response", "the five step lines", str(exc))
        return
    schedules = {"test,remove,put": [1, 1, 1, 1, 0, 1, 0], "remove,test": [1, 1, 1, 1, 1, 0, 0], "test,put,remove": [1, 1, 1, 1, 0, 0, 1]}
    for name, sch in schedules.items():
        rig = Rig(t3=0.25)
        rig.tap.real_timeouts = True  # this schedule needs the real queue.get(timeout) to run out
        if not rig.connect():
            return
        k = 7000001
        rig.p._system_counter = k - 1
        baton = sched.Baton({sched.code_of(fr): {rp[ROUTE_TEST][0], rp[ROUTE_PUT][0]}, sched.code_of(fs): {no for v in sp.values() for no in v}},
                            stall=0.9, deadline=90.0)
        baton.describe(fr)
        baton.describe(fs)
        block = data_msg(k, 6, 11, w=True).blocks[0]
        out = baton.run([lambda: rig.p._dispatch_block(rig.p, block), lambda: rig.p.send_and_waitfor_response(Fn(1, 3))], sch)
        rig.quiesce()
        with rig.ev_lock:
            starts = [(s_, tg) for (kk, s_, tg) in rig.events if kk == "start"]
        case = {"part": "primary", "variant": "window", "schedule_name": name, "schedule": sch,
                "lines": [f"{tid}:{text[:48]}" for (tid, _f, _n, text) in out.trace]}
        res.count(("primary-window", name), sample=dict(case, application_got=starts, caller_got=show_result(out.results.get(1))))
        res.bump("routing_window_schedules", name)
        if out.hung or out.errors:
            res.violate("c06-request-hang", "dispatcher or caller did not return under the line schedule", case, None, repr(out.errors or out.hung))
            continue
        r = out.results.get(1)
        problems = []
        if r is not None:
            problems.append("the caller received the peer's primary as its reply")
        if starts.count((k, 6 * 256 + 11)) != 1:
            problems.append("the peer's primary S6F11 (same system bytes as a request that is timing out) was not handed to the application: "
                            + ("KeyError between the `in` test and `put_nowait`, swallowed by _dispatch_block" if name == "test,remove,put"
                               else "put to the reply queue of a caller that had already timed out"))
        if problems:
            res.violate(KNOWN_PRIMARY, "; ".join(problems), case, {"application": [(k, 1547)]}, {"caller": show_result(r), "application": starts})
    res.exhaustive_parts.append("routing window: all 3 orders of {test, put} x {_remove_queue} on the real _on_connection_message_received / send_and_waitfor_response")


# ---------------------------------------------------------------------------------------------- (vi) link loss with work in progress
def part_link_loss_in_progress(cx: Ctx):
    """(a) the application is busy with message N, N+1 and N+2 are received and queued, the link drops and comes back: everything
    received before the drop is still handed to the application exactly once, in arrival order (NOT: one at a time - that is the known
    two-dispatcher class).  (b) a request is outstanding (within T3) when the link drops: the call returns its reply or None, never
    raises; a reply with its system bytes arriving on the re-established link within T3 reaches that caller."""
    res = cx.res
    # ---- (a) on a SECS-I endpoint: no select gate between reception and dispatch (HSMS: see the note below)
    for count in ((2, 3) if cx.big else (2,)):
        rig = SecsIRig()
        rig.connect()
        c0 = rig.p._system_counter
        gate = threading.Event()
        base = 650000
        systems = [base + i for i in range(count + 1)]
        rig.block_first = (systems[0], gate, 4.0)
        acked = [rig.feed(s_, 6, 31 + 2 * i) for i, s_ in enumerate(systems)]
        limit = time.time() + deadline()
        while waiting(limit):  # N is being handled, the others are queued behind it
            with rig.ev_lock:
                started = any(e[0] == "start" for e in rig.events)
            if started and rig.p._thread._dispatch_queue.qsize() >= count:
                break
            time.sleep(0.003)
        queued = rig.p._thread._dispatch_queue.qsize()
        rig.disconnect()
        rig.connect()
        case = {"part": "link-loss", "variant": "queued-behind-busy-handler", "queued": queued, "acked_on_the_line": acked}
        want = [(s_, 6 * 256 + 31 + 2 * i) for i, s_ in enumerate(systems)]

        def delivered():
            with rig.ev_lock:
                return [(s_, t) for (k, s_, t) in rig.events if k == "start" and s_ >= base]

        # the new link carries traffic again (this is also what wakes a dispatcher thread that waits for its trigger)
        rig.feed(base - 1, 6, 1)
        end = time.monotonic() + 0.3  # an opportunity for a second dispatcher, not an assertion: nothing is concluded from its expiry
        while time.monotonic() < end and len(delivered()) < len(want):
            time.sleep(0.002)
        gate.set()  # whoever still waits for the busy handler may go on now
        rig.block_first = None
        rig.quiesce()  # everything that was queued has been dispatched now, whatever became of it
        got = delivered()
        res.count(("link-loss-queued", count), sample=dict(case, delivered=got))
        res.bump("link_lost_with_messages_queued_behind_a_busy_handler", f"queued={queued}")
        if not all(acked):
            res.violate("c06-line", "a block fed to the SECS-I endpoint was not acknowledged", case)
        elif got != want:
            res.violate("c06-queued-lost", "messages received (and acknowledged on the line) before the link was lost, queued behind a busy "
                        "message_received handler, were not all handed to the application exactly once, in order, after the link came back",
                        dict(case, delivered=got), want, got)
        toks, err = rig.tap.tokens(cx.atomic)
        if cx.drv.available and toks is not None:
            line, ans = model_run(cx.drv, cx.atomic, cx.patched, c0, max(rig.tap.n_callers, 1), toks)
            res.traces_validated += 1
            m = parse_model(ans)
            impl = [f"{a_}:{b_}" for (a_, b_) in got]
            if m is None or [x for x in m["delivered"] if int(x.split(":")[0]) >= base] != impl:
                res.disagree("link loss with queued messages vs Model.Txn", {"case": case, "line": line[:1200]}, ans[:400], impl)
    # ---- (a') the same on HSMS: the select gate is evaluated when the dispatcher gets to a message, i.e. possibly on the NEXT connection
    rig = Rig(t3=1.0)
    if rig.connect():
        gate = threading.Event()
        base = 660000
        systems = [base + i for i in range(3)]
        rig.block_first = (systems[0], gate, 4.0)
        for i, s_ in enumerate(systems):
            rig.feed(data_msg(s_, 6, 31 + 2 * i))
        limit = time.time() + deadline()
        while waiting(limit):
            with rig.ev_lock:
                started = any(e[0] == "start" for e in rig.events)
            if started and rig.p._thread._dispatch_queue.qsize() >= 2:
                break
            time.sleep(0.003)
        queued = rig.p._thread._dispatch_queue.qsize()
        with rig.c.lock:
            n0 = len(rig.c.frames)
        rig.disconnect()
        selected = rig.connect()

        def delivered_h():
            with rig.ev_lock:
                return [(s_, t) for (k, s_, t) in rig.events if k == "start" and s_ >= base]

        want = [(s_, 6 * 256 + 31 + 2 * i) for i, s_ in enumerate(systems)]
        end = time.monotonic() + 0.3  # an opportunity for a second dispatcher, not an assertion: nothing is concluded from its expiry
        while time.monotonic() < end and len(delivered_h()) < len(want):
            time.sleep(0.002)
        gate.set()
        rig.block_first = None
        rig.quiesce()  # everything that was queued has been dispatched now, whatever became of it
        got = delivered_h()
        with rig.c.lock:
            after = [(b.header.s_type.name, b.header.system) for b in rig.c.frames[n0:]]
        rejects = [sy for (nm, sy) in after if nm == "REJECT_REQ"]
        case = {"part": "link-loss", "variant": "hsms-queued-behind-busy-handler", "queued": queued, "reselected": selected,
                "delivered": got, "frames_sent_after_the_drop": after}
        res.count(("link-loss-queued-hsms",), sample=case)
        res.bump("hsms_messages_queued_before_link_loss", f"delivered={len(got)}/3 rejected_on_new_link={len(rejects)}")
        if got != want:
            # the recorded finding: exactly "queued before the bounce, answered with Reject.req on the new link, never delivered"
            lost = [w for w in want if w not in got]
            klass = KNOWN_STALE_GATE if (got == [w for w in want if w in got] and lost and all(sy in rejects for (sy, _t) in lost)) else "c06-queued-lost"
            res.violate(klass, "HSMS: data messages received while SELECTED and queued behind a busy message_received handler were dispatched after the "
                        "link bounce, answered with Reject.req on the NEW link and never handed to the application", case, want, got)
    # ---- (b)
    for variant in ("reply-after-reconnect", "no-reply"):
        rig = Rig(t3=0.8)
        if not rig.connect():
            return
        c0 = rig.p._system_counter
        out = {}

        def call():
            try:
                out["r"] = rig.p.send_and_waitfor_response(Fn(1, 3))
            except BaseException as exc:  # noqa: BLE001
                out["exc"] = exc

        t = threading.Thread(target=call, daemon=True)
        t.start()
        wait_sent(rig)
        wire = rig.c.data_systems()
        if not wire:
            res.violate("c06-request-hang", "request never reached the wire", {"part": "link-loss"})
            continue
        k = wire[0][0]
        wait_sent(rig)
        rig.disconnect()
        case = {"part": "link-loss", "variant": variant, "system": k}
        if not rig.connect():
            res.violate("c06-reconnect-select", "endpoint could not be selected again after the link was lost with a request outstanding", case)
            continue
        if variant == "reply-after-reconnect":
            rig.feed(data_msg(k, 1, 4))
        finish(rig, t)
        rig.quiesce()
        with rig.ev_lock:
            starts = [(s_, tg) for (kk, s_, tg) in rig.events if kk == "start"]
        r = out.get("r")
        res.count(("link-loss-request", variant), sample=dict(case, returned=repr(out.get("exc")) if "exc" in out else show_result(r), application_got=starts))
        problems = []
        if t.is_alive():
            problems.append("send_and_waitfor_response did not return within T3 + 1.7 s")
        if "exc" in out:
            problems.append(f"send_and_waitfor_response raised {type(out['exc']).__name__} instead of returning its reply / None")
        if variant == "reply-after-reconnect":
            if "exc" not in out and (r is None or r.header.system != k or r.header.function != 4):
                problems.append("the reply that arrived on the re-established link within T3 did not reach the waiting caller")
            if (k, 1 * 256 + 4) in starts:
                problems.append("the reply to the outstanding request was handed to the application as an unsolicited message")
        elif "exc" not in out and r is not None:
            problems.append("the caller got a message although no reply arrived")
        if problems:
            res.violate("c06-request-across-link-loss", "; ".join(problems), case, "reply / None", {"returned": repr(out.get("exc", r)), "application": starts})
        toks, err = rig.tap.tokens(cx.atomic)
        if cx.drv.available and toks is not None and not t.is_alive():
            line, ans = model_run(cx.drv, cx.atomic, cx.patched, c0, max(rig.tap.n_callers, 1), toks)
            res.traces_validated += 1
            m = parse_model(ans)
            want = ("KeyError" if "exc" in out else show_result(r), [f"{a_}:{b_}" for (a_, b_) in starts])
            got = None if m is None else (("KeyError" if m["callers"][0][3] == "1" else m["callers"][0][2]) if m["callers"] else None, m["delivered"])
            if got != want:
                res.disagree("request outstanding across a link loss vs Model.Txn", {"case": case, "line": line[:1000]}, ans[:400], want)


# ---------------------------------------------------------------------------------------------- (vii) no lost wake-up between receive path and dispatcher
def part_lost_wakeup(cx: Ctx):
    """a reply is queued exactly when the dispatcher thread has just found its queue empty after dispatching an earlier message (the
    schedule is forced inside `qsize()` of the dispatch queue).  Oracle: the requester gets its reply within T3, the reply is not handed to
    the application, and a later message still arrives in order."""
    res = cx.res
    for variant in ("reply", "unsolicited"):
        rig = Rig(t3=1.2)
        if not rig.connect():
            return
        rig.quiesce()
        c0 = rig.p._system_counter
        out = {}
        t = threading.Thread(target=lambda: out.update(r=rig.p.send_and_waitfor_response(Fn(1, 1))), daemon=True)
        t.start()
        wait_sent(rig)
        wire = rig.c.data_systems()
        if not wire:
            res.violate("c06-request-hang", "request never reached the wire", {"part": "lost-wakeup"})
            continue
        k = wire[0][0]
        dq = rig.p._thread._dispatch_queue
        late = data_msg(k, 1, 2) if variant == "reply" else data_msg(910002, 6, 13)
        dq.when_seen_empty = lambda late=late: rig.feed(late)
        rig.feed(data_msg(910001, 5, 1))  # an earlier unsolicited message: after it the dispatcher finds the queue empty
        t0 = time.time()
        if variant == "reply":
            finish(rig, t)
        else:
            limit = time.time() + deadline()
            while waiting(limit):
                with rig.ev_lock:
                    if sum(1 for e in rig.events if e[0] == "start") >= 2:
                        break
                time.sleep(0.005)
        waited = time.time() - t0
        with rig.ev_lock:
            before_later = [(s_, tg) for (kk, s_, tg) in rig.events if kk == "start"]
        rig.feed(data_msg(910003, 10, 1))  # later traffic (would flush a stuck block)
        if variant != "reply":
            rig.feed(data_msg(k, 1, 2))
            finish(rig, t)
        rig.quiesce()
        with rig.ev_lock:
            starts = [(s_, tg) for (kk, s_, tg) in rig.events if kk == "start"]
        r = out.get("r")
        case = {"part": "lost-wakeup", "variant": variant, "system": k, "hook_fired": dq.when_seen_empty is None}
        res.count(("lost-wakeup", variant), sample=dict(case, returned=show_result(r), application_got=starts, waited_s=round(waited, 2)))
        res.bump("block_queued_right_after_dispatcher_saw_empty_queue", f"{variant}: hook fired={case['hook_fired']}")
        problems = []
        if variant == "reply":
            if r is None or r.header.system != k or r.header.function != 2:
                problems.append("the reply was queued well inside T3 (right after the dispatcher found its queue empty) but the requester got " + show_result(r))
            if (k, 258) in starts:
                problems.append("the reply was later handed to the application as an unsolicited message")
            want = [(910001, 5 * 256 + 1), (910003, 10 * 256 + 1)]
        else:
            if (910002, 6 * 256 + 13) not in before_later:
                problems.append("an unsolicited message queued right after the dispatcher found its queue empty was not handed over until later traffic arrived")
            want = [(910001, 5 * 256 + 1), (910002, 6 * 256 + 13), (910003, 10 * 256 + 1)]
        if [x for x in starts if x[0] >= 910000] != want:
            problems.append("unsolicited messages not handed over exactly once, in order")
        if problems:
            res.violate("c06-lost-wakeup", "; ".join(problems), case, {"requester": f"{k}:258", "application": want}, {"requester": show_result(r), "application": starts})
        toks, err = rig.tap.tokens(cx.atomic)
        if cx.drv.available and toks is not None and not t.is_alive():
            line, ans = model_run(cx.drv, cx.atomic, cx.patched, c0, max(rig.tap.n_callers, 1), toks)
            res.traces_validated += 1
            m = parse_model(ans)
            want_m = (show_result(r), [f"{a_}:{b_}" for (a_, b_) in starts])
            got_m = None if m is None else (m["callers"][0][2] if m["callers"] else None, m["delivered"])
            if got_m != want_m:
                res.disagree("reply queued while the dispatcher goes idle vs Model.Txn", {"case": case, "line": line[:1000]}, ans[:400], want_m)


# ---------------------------------------------------------------------------------------------- (viii) an undecodable frame / a failing handler in the middle
def part_bad_frame_in_the_middle(cx: Ctx):
    """a correctly framed but undecodable frame (reserved SType, unknown PType ...) or a `message_received` handler that raises sits in the
    middle of the history.  Judged on the messages that FOLLOW: replies are still routed to their requesters, primaries are still handed
    to the application exactly once in order, a later request still completes."""
    res, rng = cx.res, cx.rng
    bad_frames = {
        "reserved SType 8": struct.pack(">LHBBBBL", 10, 0xFFFF, 0, 0, 0, 8, 4711),
        "SType 200": struct.pack(">LHBBBBL", 10, 0xFFFF, 0, 0, 0, 200, 4712),
        "length field below the header size": struct.pack(">L", 6) + b"\x00" * 6,
    }
    variants = list(bad_frames) + ["handler raises"]
    for variant in (variants if cx.big else [variants[0], rng.choice(variants[1:3]), "handler raises"]):
        rig = Rig(t3=1.2)
        if not rig.connect():
            return
        c0 = rig.p._system_counter
        boom = {"armed": variant == "handler raises"}

        def raising(data, boom=boom):
            if boom["armed"] and data["message"].header.system == 920001:
                raise RuntimeError("application handler failed")

        rig.p.events.message_received += raising
        out = {}
        t = threading.Thread(target=lambda: out.update(r=rig.p.send_and_waitfor_response(Fn(1, 1))), daemon=True)
        t.start()
        wait_sent(rig)
        wire = rig.c.data_systems()
        if not wire:
            res.violate("c06-request-hang", "request never reached the wire", {"part": "bad-frame"})
            continue
        k = wire[0][0]
        rig.feed(data_msg(920001, 6, 11))  # before the disturbance
        rig.quiesce()
        if variant in bad_frames:
            rig.c.on_data({"source": rig.c, "data": bad_frames[variant]})
            rig.quiesce()
        # what follows
        rig.feed(data_msg(k, 1, 2))
        rig.feed(data_msg(920002, 6, 13))
        rig.feed(data_msg(920003, 6, 15))
        finish(rig, t)
        out2 = {}
        n_before = len(rig.c.data_systems())

        def later():
            out2["r"] = rig.p.send_and_waitfor_response(Fn(1, 3))

        t2 = threading.Thread(target=later, daemon=True)
        t2.start()
        limit = time.time() + deadline()
        while waiting(limit) and len(rig.c.data_systems()) <= n_before:
            time.sleep(0.003)
        wire2 = rig.c.data_systems()
        if len(wire2) > n_before:
            rig.feed(data_msg(wire2[-1][0], 1, 4))
        finish(rig, t2)
        rig.quiesce()
        with rig.ev_lock:
            starts = [(s_, tg) for (kk, s_, tg) in rig.events if kk == "start" and s_ >= 920000]
        r, r2 = out.get("r"), out2.get("r")
        alive = rig.p._thread._receiver_thread.is_alive() if rig.p._thread._receiver_thread is not None else False
        case = {"part": "bad-frame", "variant": variant, "receiver_thread_alive": alive}
        res.count(("bad-frame", variant), sample=dict(case, first_request=show_result(r), later_request=show_result(r2), application_got=starts))
        res.bump("disturbance_in_the_middle_of_the_history", variant)
        want = [(920001, 6 * 256 + 11), (920002, 6 * 256 + 13), (920003, 6 * 256 + 15)]
        problems = []
        if r is None or r.header.system != k or r.header.function != 2:
            problems.append("the reply that followed was not routed to its requester (got " + show_result(r) + ")")
        if starts != want:
            problems.append("primaries that followed were not handed to the application exactly once, in order")
        if t2.is_alive():
            problems.append("a later send_and_waitfor_response blocked")
        elif r2 is None or r2.header.function != 4:
            problems.append("a later request did not get its reply (got " + show_result(r2) + ")")
        if problems:
            res.violate("c06-after-bad-frame", f"after {variant}: " + "; ".join(problems), case,
                        {"requests": ["S1F2", "S1F4"], "application": want}, {"requests": [show_result(r), show_result(r2)], "application": starts})
        toks, err = rig.tap.tokens(cx.atomic)
        if cx.drv.available and toks is not None and not t2.is_alive() and not t.is_alive():
            line, ans = model_run(cx.drv, cx.atomic, cx.patched, c0, max(rig.tap.n_callers, 1), toks)
            res.traces_validated += 1
            m = parse_model(ans)
            want_m = [show_result(r), show_result(r2)], [f"{a_}:{b_}" for (a_, b_) in starts]
            got_m = None if m is None else ([c_[2] for c_ in m["callers"][:2]], [x for x in m["delivered"] if int(x.split(":")[0]) >= 920000])
            if got_m != (want_m[0], want_m[1]):
                res.disagree("history with a disturbance in the middle vs Model.Txn", {"case": case, "line": line[:1000]}, ans[:400], list(want_m))


# ---------------------------------------------------------------------------------------------- (ix) the reply functions 0 (abort) .. 254, both transports
def part_reply_functions(cx: Ctx):
    """every reply function reaches the requester: SxF0 (transaction abort), the regular SxF(n+1), F254; on HSMS and on SECS-I.
    Oracle: the caller of send_and_waitfor_response gets the message with its system bytes within T3, the application does not get it."""
    res = cx.res
    functions = [0, 2, 254] if not cx.big else [0, 2, 4, 100, 254]
    for transport in ("hsms", "secsi"):
        for fn_reply in functions:
            rig = Rig(t3=1.0) if transport == "hsms" else SecsIRig(t3=1.0)
            if not rig.connect():
                return
            c0 = rig.p._system_counter
            out = {}

            def call(out=out, rig=rig):
                try:
                    out["r"] = rig.p.send_and_waitfor_response(Fn(1, 1))
                except BaseException as exc:  # noqa: BLE001
                    out["exc"] = exc

            t = threading.Thread(target=call, daemon=True)
            t0 = time.time()
            t.start()
            if transport == "hsms":
                wait_sent(rig)
                wire = rig.c.data_systems()
                k = wire[0][0] if wire else None
                if k is not None:
                    rig.feed(data_msg(k, 1, fn_reply))
            else:
                blk = rig.take_outgoing_block()
                k = None if blk is None else blk.header.system
                wait_sent(rig)
                if k is not None:
                    rig.feed(k, 1, fn_reply)
            if k is None:
                res.violate("c06-request-hang", "request never reached the wire", {"part": "reply-functions", "transport": transport})
                continue
            finish(rig, t)
            took = time.time() - t0
            rig.quiesce()
            with rig.ev_lock:
                starts = [(s_, tg) for (kk, s_, tg) in rig.events if kk == "start"]
            r = out.get("r")
            case = {"part": "reply-functions", "transport": transport, "request": "S1F1 W", "reply": f"S1F{fn_reply}", "system": k}
            res.count(("reply-functions", transport, fn_reply), sample=dict(case, returned=show_result(r), application_got=starts) if fn_reply == 0 else None)
            res.bump("reply_function_to_an_open_request", f"{transport} F{fn_reply}")
            problems = []
            if "exc" in out:
                problems.append(f"send_and_waitfor_response raised {type(out['exc']).__name__}")
            elif t.is_alive():
                problems.append("send_and_waitfor_response did not return")
            elif r is None or r.header.system != k or r.header.function != fn_reply:
                problems.append(f"the reply S1F{fn_reply} carrying the request's system bytes was not routed to the requester (it got {show_result(r)} after {took:.1f} s)")
            if (k, 256 + fn_reply) in starts:
                problems.append(f"the reply S1F{fn_reply} was handed to the application as an unsolicited message")
            if problems:
                res.violate("c06-reply-not-routed", "; ".join(problems), case, {"requester": f"{k}:{256 + fn_reply}", "application": []},
                            {"requester": show_result(r), "application": starts})
            toks, err = rig.tap.tokens(cx.atomic)
            if cx.drv.available and toks is not None and not t.is_alive():
                line, ans = model_run(cx.drv, cx.atomic, cx.patched, c0, max(rig.tap.n_callers, 1), toks)
                res.traces_validated += 1
                m = parse_model(ans)
                want_m = (show_result(r), [f"{a_}:{b_}" for (a_, b_) in starts])
                got_m = None if m is None else (m["callers"][0][2] if m["callers"] else None, m["delivered"])
                if got_m != want_m:
                    res.disagree("reply function 0..254 to an open request vs Model.Txn", {"case": case, "line": line[:800]}, ans[:400], list(want_m))


# ---------------------------------------------------------------------------------------------- (x) isolation of endpoints, bursts - WITHOUT the tap
class PlainRig(Quiet):
    """real HsmsProtocol over MemConn with NOTHING replaced inside the protocol (the tap swaps queues and would hide sharing / bounds)"""

    def __init__(self, name, t3=120.0):
        self.name = name
        self.settings = Settings(connect_mode=secsgem.hsms.HsmsConnectMode.PASSIVE, t3=t3)
        self.p = secsgem.hsms.HsmsProtocol(self.settings)
        self.p._linktest_timeout = 10 ** 6
        self.c = self.p._connection
        self.watch_threads()
        self.events = []
        self.ev_lock = threading.Lock()
        self.gate = None  # (system, Event, max wait): the handler of that message blocks
        self.p.events.message_received += self._on_message

    def _on_message(self, data):
        h = data["message"].header
        with self.ev_lock:
            self.events.append((h.system, tag_of(h)))
        g = self.gate
        if g is not None and g[0] == h.system:
            g[1].wait(120)

    feed = Rig.feed
    connect = Rig.connect

    def got(self):
        with self.ev_lock:
            return list(self.events)


SHARED_ATTRS = [("_response_queues", None), ("_incomplete_messages", None), ("_send_queue", None), ("_receive_buffer", None),
                ("_system_counter_lock", None), ("_thread", None), ("_thread", "_dispatch_queue"), ("_thread", "_receiver_thread_trigger"),
                ("_thread", "_dispatcher_thread_trigger"), ("_receive_buffer", "_buffer"), ("_receive_buffer", "_buffer_lock"), ("_event_producer", None)]


def part_isolation_and_burst(cx: Ctx):
    res = cx.res
    import secsgem.secsi
    # ---- structural probe: two fresh protocol objects share no mutable attribute
    def fresh(kind):
        if kind == "hsms":
            return secsgem.hsms.HsmsProtocol(Settings(connect_mode=secsgem.hsms.HsmsConnectMode.PASSIVE))

        class S(secsgem.secsi.SecsISettings):
            def create_connection(self_inner):
                return SerialMem(self_inner)
        return secsgem.secsi.SecsIProtocol(S(port="P"))

    for kind in ("hsms", "secsi"):
        a, b = fresh(kind), fresh(kind)
        shared = []
        for outer, inner in SHARED_ATTRS:
            try:
                xa, xb = getattr(a, outer), getattr(b, outer)
                if inner is not None:
                    xa, xb = getattr(xa, inner), getattr(xb, inner)
            except AttributeError:
                continue
            if xa is xb:
                shared.append(outer + ("." + inner if inner else ""))
        res.count(("isolation-probe", kind), nontrivial=False)
        if shared:
            res.violate("c06-cross-endpoint", f"two fresh {kind} protocol objects share mutable state: " + ", ".join(shared),
                        {"part": "isolation", "variant": "structural probe", "transport": kind, "shared": shared}, [], shared)
    # ---- two independent endpoints alive and busy at the same time
    a, b = PlainRig("A"), PlainRig("B")
    if not (a.connect() and b.connect()):
        res.notes.append("isolation: could not select both endpoints")
        return
    ga, gb = threading.Event(), threading.Event()
    a.gate, b.gate = (930000, ga, 3.0), (940000, gb, 3.0)
    outs = {}

    def request(rig, key, fn):
        try:
            outs[key] = rig.p.send_and_waitfor_response(Fn(1, fn))
        except BaseException as exc:  # noqa: BLE001
            outs[key] = exc

    ta = threading.Thread(target=request, args=(a, "A", 1), daemon=True)
    tb = threading.Thread(target=request, args=(b, "B", 3), daemon=True)
    ta.start()
    tb.start()
    limit = time.time() + deadline()
    while waiting(limit) and not (a.c.data_systems() and b.c.data_systems()):
        time.sleep(0.002)
    if not (a.c.data_systems() and b.c.data_systems()):
        res.violate("c06-request-hang", "request never reached the wire", {"part": "isolation"})
        return
    ka, kb = a.c.data_systems()[0][0], b.c.data_systems()[0][0]
    # both applications go into a callback, then traffic for both arrives interleaved (primaries and the two replies)
    a.feed(data_msg(930000, 6, 11))
    b.feed(data_msg(940000, 6, 11))
    wait_until(lambda: a.got() and b.got())  # both applications are inside their callback now
    for i in range(1, 6):
        a.feed(data_msg(930000 + i, 6, 11 + 2 * i))
        b.feed(data_msg(940000 + i, 6, 11 + 2 * i))
        if i == 2:
            a.feed(data_msg(ka, 1, 2))
            b.feed(data_msg(kb, 1, 4))
    wait_until(lambda: all(not r_.p._thread._receiver_thread_trigger.is_set() and len(r_.p._receive_buffer) == 0 for r_ in (a, b)))
    ga.set()
    gb.set()
    join(ta)
    join(tb)
    wait_until(lambda: len(a.got()) >= 6 and len(b.got()) >= 6)
    a.quiesce()
    b.quiesce()
    want_a = [(930000 + i, 6 * 256 + 11 + 2 * i) for i in range(6)]
    want_b = [(940000 + i, 6 * 256 + 11 + 2 * i) for i in range(6)]
    ra, rb = outs.get("A"), outs.get("B")
    case = {"part": "isolation", "variant": "two endpoints busy at the same time", "A_application": a.got(), "B_application": b.got(),
            "A_request": repr(ra) if isinstance(ra, BaseException) else show_result(ra), "B_request": repr(rb) if isinstance(rb, BaseException) else show_result(rb)}
    res.count(("isolation", "two-endpoints"), sample=case)
    problems = []
    if a.got() != want_a or b.got() != want_b:
        problems.append("a message did not reach (exactly once, in order) the application of the endpoint it was sent to")
    if isinstance(ra, BaseException) or ra is None or ra.header.system != ka or ra.header.function != 2:
        problems.append("endpoint A's requester did not get its reply")
    if isinstance(rb, BaseException) or rb is None or rb.header.system != kb or rb.header.function != 4:
        problems.append("endpoint B's requester did not get its reply")
    if problems:
        res.violate("c06-cross-endpoint", "two independent endpoints in one process: " + "; ".join(problems), case,
                    {"A": want_a, "B": want_b}, {"A": a.got(), "B": b.got()})
    # ---- burst: more inbound blocks than any sensible queue bound while the application is busy
    for n in ((40, 200) if cx.big else (40,)):
        r = PlainRig("burst")
        if not r.connect():
            return
        g = threading.Event()
        r.gate = (950000, g, 5.0)
        for i in range(n):
            r.feed(data_msg(950000 + i, 6, 1 + 2 * (i % 100)))
        wait_until(lambda: not r.p._thread._receiver_thread_trigger.is_set() and len(r.p._receive_buffer) == 0)  # all taken off the line
        g.set()
        want = [(950000 + i, 6 * 256 + 1 + 2 * (i % 100)) for i in range(n)]
        wait_until(lambda: len(r.got()) >= n)
        r.quiesce()
        got = r.got()
        res.count(("burst", n), sample={"part": "burst", "messages": n, "delivered": len(got)})
        res.bump("burst_behind_a_busy_handler", f"{n} messages -> {len(got)} delivered")
        if got != want:
            missing = [w[0] for w in want if w not in got]
            res.violate("c06-burst-lost", f"{n} inbound messages received while the application was busy with the first one: not all were handed to the "
                        "application exactly once, in order", {"part": "burst", "messages": n, "delivered": len(got), "first_missing": missing[:5]},
                        n, len(got))


# ---------------------------------------------------------------------------------------------- (xi) stale replies, handler level - WITHOUT the tap
def part_stale_and_handler(cx: Ctx):
    """(a) a duplicate reply / a reply landing exactly at T3 expiry reaches the request's queue just before the requester removes it; THEN a
    NEW request must get its own reply and nothing else.  (b) a real SecsHandler on top of the protocol: an inbound S9F3/5/7 (no callback
    registered) whose MHEAD names the outstanding request goes the unknown-function way; the requester gets its own reply, or None at T3."""
    res = cx.res
    import secsgem.secs
    # ---- (a)
    for variant in ("duplicate reply", "reply at T3 expiry"):
        r = PlainRig("stale", t3=120.0 if variant == "duplicate reply" else 0.3)
        if not r.connect():
            return
        gate = threading.Event()
        at_gate = threading.Event()
        orig_remove = r.p._remove_queue

        def gated_remove(system_id, gate=gate, at_gate=at_gate, orig_remove=orig_remove):
            at_gate.set()  # the requester has its result (or its timeout) and is about to remove its queue
            gate.wait(120)
            return orig_remove(system_id)

        r.p._remove_queue = gated_remove
        out = {}

        def call(key, fn):
            try:
                out[key] = r.p.send_and_waitfor_response(Fn(1, fn))
            except BaseException as exc:  # noqa: BLE001
                out[key] = exc

        t1 = threading.Thread(target=call, args=("first", 1), daemon=True)
        t1.start()
        if not wait_until(lambda: bool(r.c.data_systems())):
            res.violate("c06-request-hang", "request never reached the wire", {"part": "stale"})
            continue
        k1 = r.c.data_systems()[0][0]
        if variant == "duplicate reply":
            r.feed(data_msg(k1, 1, 2))
        wait_until(at_gate.is_set)  # reply received / T3 (0.3 s, real) run out; the queue is still registered
        r.feed(data_msg(k1, 1, 2))  # the duplicate / the late reply: it still finds the request's queue
        r.quiesce()
        r.p._remove_queue = orig_remove
        gate.set()
        join(t1)
        # a NEW request
        t2 = threading.Thread(target=call, args=("second", 3), daemon=True)
        t2.start()
        wait_until(lambda: len(r.c.data_systems()) >= 2)
        wire = r.c.data_systems()
        if len(wire) >= 2:
            k2 = wire[1][0]
            time.sleep(0)  # (no observation depends on this)
            r.feed(data_msg(k2, 1, 4))
        else:
            k2 = None
        join(t2)
        r.quiesce()
        first, second = out.get("first"), out.get("second")
        case = {"part": "stale", "variant": variant, "first_request": k1, "second_request": k2,
                "first_returned": repr(first) if isinstance(first, BaseException) else show_result(first),
                "second_returned": repr(second) if isinstance(second, BaseException) else show_result(second), "application_got": r.got()}
        res.count(("stale", variant), sample=case)
        problems = []
        if variant == "duplicate reply" and (isinstance(first, BaseException) or first is None or first.header.system != k1):
            problems.append("the first requester did not get its reply")
        if variant != "duplicate reply" and first is not None:
            problems.append("the first requester got something although its reply only came when T3 had run out")
        if isinstance(second, BaseException) or second is None or second.header.system != k2 or second.header.function != 4:
            problems.append(f"a NEW request did not get its own reply S1F4 ({k2}) but " + case["second_returned"]
                            + " - a message that belonged to the earlier, finished transaction")
        if problems:
            res.violate("c06-stale-reply", f"{variant} just before the requester removed its queue: " + "; ".join(problems), case,
                        {"second": f"{k2}:260"}, case["second_returned"])
    # ---- (b) handler level
    for fn9 in (3, 5, 7) if cx.big else (3, 7):
        for variant in ("then reply", "no reply"):
            settings = Settings(connect_mode=secsgem.hsms.HsmsConnectMode.PASSIVE, t3=120.0 if variant == "then reply" else 0.4)
            handler = secsgem.secs.SecsHandler(settings)
            r = PlainRig.__new__(PlainRig)
            r.name, r.settings, r.p = "handler", settings, handler.protocol
            r.p._linktest_timeout = 10 ** 6
            r.c = r.p._connection
            r.watch_threads()
            r.events, r.ev_lock, r.gate = [], threading.Lock(), None
            r.p.events.message_received += r._on_message
            if not r.connect():
                return
            out = {}

            def call(out=out, handler=handler):
                try:
                    out["r"] = handler.send_and_waitfor_response(handler.stream_function(1, 1)())
                except BaseException as exc:  # noqa: BLE001
                    out["r"] = exc

            t = threading.Thread(target=call, daemon=True)
            t.start()
            if not wait_until(lambda: bool(r.c.data_systems())):
                res.violate("c06-request-hang", "request never reached the wire", {"part": "handler"})
                continue
            k = r.c.data_systems()[0][0]
            with r.c.lock:
                req = [b for b in r.c.frames if b.header.s_type.value == 0][0]
            mhead = bytes(req.header.encode())
            s9 = handler.stream_function(9, fn9)(mhead)
            r.feed(HsmsMessage(HsmsStreamFunctionHeader(4242, 9, fn9, False, 0), s9.encode()))
            r.quiesce()
            if variant == "then reply":
                r.feed(HsmsMessage(HsmsStreamFunctionHeader(k, 1, 2, False, 0), handler.stream_function(1, 2)(["m", "1"]).encode()))
            join(t)
            r.quiesce()
            got = out.get("r")
            case = {"part": "handler", "variant": variant, "inbound": f"S9F{fn9} with MHEAD = header of the outstanding S1F1 ({k})",
                    "returned": repr(got) if isinstance(got, BaseException) else show_result(got), "application_got": r.got()}
            res.count(("handler", fn9, variant), sample=case if fn9 == 3 else None)
            res.bump("handler_level_S9_with_MHEAD_of_an_open_request", f"S9F{fn9} {variant}")
            problems = []
            if isinstance(got, BaseException):
                problems.append("send_and_waitfor_response raised " + repr(got))
            elif got is not None and got.header.stream == 9:
                problems.append(f"the requester of S1F1 received the peer's S9F{fn9} (a foreign primary) instead of its reply / T3")
            elif variant == "then reply" and (got is None or got.header.system != k or got.header.function != 2):
                problems.append("the requester did not get its own reply S1F2")
            elif variant == "no reply" and got is not None:
                problems.append("the requester got a message although no reply arrived")
            if (4242, 9 * 256 + fn9) not in r.got():
                problems.append(f"the S9F{fn9} did not reach the application / unknown-function path")
            if problems:
                res.violate("c06-foreign-primary-to-requester", "; ".join(problems), case, "S1F2 / None", case["returned"])


# ---------------------------------------------------------------------------------------------- static tie: the SECS-I routing branch
def part_static_tie(cx: Ctx):
    """the harness drives HSMS; the SECS-I endpoint shares Protocol.send_and_waitfor_response and has its own copy of the routing branch:
    its statements must be the ones the model's `handle` step stands for"""
    import ast
    import inspect
    import textwrap
    import secsgem.secsi

    def routing(fn):
        tree = ast.parse(textwrap.dedent(inspect.getsource(fn)))
        for node in ast.walk(tree):
            if isinstance(node, ast.If) and ast.unparse(node.test) == "message.header.system in self._response_queues":
                return [ast.unparse(x) for x in node.body], [ast.unparse(x) for x in node.orelse]
        return None

    def routing_b(fn):
        tree = ast.parse(textwrap.dedent(inspect.getsource(fn)))
        for node in ast.walk(tree):
            if isinstance(node, ast.If) and ast.unparse(node.test) == "response_queue is not None":
                return [ast.unparse(x) for x in node.body], [ast.unparse(x) for x in node.orelse]
        return None

    want_body = ["self._response_queues[message.header.system].put_nowait(message)"]
    for name, fn, conn in (("SecsIProtocol", secsgem.secsi.SecsIProtocol._on_connection_message_received, "source"),
                           ("HsmsProtocol", secsgem.hsms.HsmsProtocol._on_connection_message_received, "self")):
        fire = [f"self.events.fire('message_received', {{'connection': {conn}, 'message': message}})"]
        got = routing(fn)
        want = (want_body, fire)
        cx.res.count(("static-tie", name), nontrivial=False)
        src = inspect.getsource(fn)
        reply_only = "response_queue = self._response_queues.get(message.header.system) if message.header.function % 2 == 0 else None" in src
        if reply_only:
            got, want = routing_b(fn), (["response_queue.put_nowait(message)"], fire)
        if got != want:
            cx.res.disagree(f"{name}._on_connection_message_received routing branch vs Model.Txn handle/put steps", name, list(want), got)
        if name == "HsmsProtocol":
            global REPLY_ONLY
            REPLY_ONLY = reply_only


def probe_patched() -> bool:
    """does a dispatcher thread end after stop()?  (one generous bounded wait, once per run: the code as it is never ends it)"""
    rig = Rig(t3=1.0)
    if not rig.connect():
        return False
    rig.disconnect()
    rig.connect()
    end = time.monotonic() + 3.0
    while time.monotonic() < end and rig.tap.live_dispatchers() > 1:
        time.sleep(0.005)
    return rig.tap.live_dispatchers() <= 1


def main():
    a = hlib.std_args()
    cx = Ctx(a)
    res = cx.res
    res.rule = ("(i) baton schedules: every interleaving of the traced lines of 2 x 1 calls of get_next_system_counter (all lines) and of "
                "send_and_waitfor_response (5 step lines), seeded samples for 3 callers and at the 2^32 wrap; (ii) 2-5 free-running callers with "
                "seeded reply permutations, missing/late/duplicate/stray replies and unsolicited messages in between; (iii) unsolicited bursts with a "
                "blocking first handler; (iv) 0..n disconnect/reconnect cycles. distinct = distinct (part, parameters, schedule/script); every case "
                "is non-trivial (at least two threads or two messages)")
    only = None
    replay_classes, replay_reconnects = None, []
    if a.replay:
        import json
        body = json.load(open(a.replay))
        parts = {v.get("case", {}).get("part") for v in body.get("violations", []) if isinstance(v.get("case"), dict)}
        only = parts or None
        replay_classes = {v.get("class") for v in body.get("violations", [])}
        replay_reconnects = [(v["case"].get("cycles", 1), v["case"].get("cuts", [])) for v in body.get("violations", [])
                             if isinstance(v.get("case"), dict) and v["case"].get("part") == "reconnect"]
    cx.patched = probe_patched()
    res.notes.append(f"allocator atomic (generated flag): {cx.atomic}; dispatcher stop token detected: {cx.patched}")

    def want(part):
        return only is None or part in only

    budget = 2400 if cx.big else 600
    current = {"part": "start"}

    def watchdog():
        time.sleep(budget)
        res.violate("c06-harness-stalled", f"the check did not finish within {budget} s: the implementation stalls (last part: {current['part']}; "
                    f"waits that ran into their deadline: {STALL_LOG[-6:]})", {"part": current["part"], "stalls": STALL_LOG[-12:]})
        res.notes.append("watchdog: harness budget used up")
        res.dump(a.out)
        os._exit(0)

    threading.Thread(target=watchdog, daemon=True).start()
    try:
        _t = time.time()
        current["part"] = "part_static_tie"
        part_static_tie(cx)
        res.bump("part_wall_s", "part_static_tie", round(time.time() - _t, 1))
        if want("counter"):
            _t = time.time()
            current["part"] = "part_counter"
            part_counter(cx)
            res.bump("part_wall_s", "part_counter", round(time.time() - _t, 1))
        if want("request-schedule"):
            _t = time.time()
            current["part"] = "part_request_schedules"
            part_request_schedules(cx)
            res.bump("part_wall_s", "part_request_schedules", round(time.time() - _t, 1))
        if want("scripted"):
            _t = time.time()
            current["part"] = "part_scripted"
            part_scripted(cx)
            res.bump("part_wall_s", "part_scripted", round(time.time() - _t, 1))
        if replay_reconnects:
            for cycles, cuts in replay_reconnects:  # exactly the recorded scenarios
                reconnect_scenario(cx, cycles, cuts)
        elif want("reconnect") or want("unsolicited"):
            _t = time.time()
            current["part"] = "part_unsolicited_and_reconnect"
            part_unsolicited_and_reconnect(cx)
            res.bump("part_wall_s", "part_unsolicited_and_reconnect", round(time.time() - _t, 1))
        if want("primary"):
            _t = time.time()
            current["part"] = "part_primary_collision"
            part_primary_collision(cx)
            res.bump("part_wall_s", "part_primary_collision", round(time.time() - _t, 1))
        if want("link-loss"):
            _t = time.time()
            current["part"] = "part_link_loss_in_progress"
            part_link_loss_in_progress(cx)
            res.bump("part_wall_s", "part_link_loss_in_progress", round(time.time() - _t, 1))
        if want("lost-wakeup"):
            _t = time.time()
            current["part"] = "part_lost_wakeup"
            part_lost_wakeup(cx)
            res.bump("part_wall_s", "part_lost_wakeup", round(time.time() - _t, 1))
        if want("bad-frame"):
            _t = time.time()
            current["part"] = "part_bad_frame_in_the_middle"
            part_bad_frame_in_the_middle(cx)
            res.bump("part_wall_s", "part_bad_frame_in_the_middle", round(time.time() - _t, 1))
        if want("reply-functions"):
            _t = time.time()
            current["part"] = "part_reply_functions"
            part_reply_functions(cx)
            res.bump("part_wall_s", "part_reply_functions", round(time.time() - _t, 1))
        if want("stale") or want("handler"):
            _t = time.time()
            current["part"] = "part_stale_and_handler"
            part_stale_and_handler(cx)
            res.bump("part_wall_s", "part_stale_and_handler", round(time.time() - _t, 1))
        if want("isolation") or want("burst"):
            _t = time.time()
            current["part"] = "part_isolation_and_burst"
            part_isolation_and_burst(cx)
            res.bump("part_wall_s", "part_isolation_and_burst", round(time.time() - _t, 1))
        if replay_classes:
            res.violations = [v for v in res.violations if v["class"] in replay_classes]  # "does the recorded failure still fail"
    except Exception as exc:  # noqa: BLE001
        import traceback
        traceback.print_exc()
        res.notes.append("harness exception: " + repr(exc))
        res.dump(a.out)
        os._exit(3)
    if STALL_LOG:
        res.notes.append(f"waits that ran into their deadline ({len(STALL_LOG)}): " + "; ".join(STALL_LOG[:12]))
    res.dump(a.out)
    sys.stdout.flush()
    os._exit(0)


if __name__ == "__main__":
    main()
