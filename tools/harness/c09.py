"""C09 — no peer behaviour wedges the endpoint: link loss ends in a clean, reusable state.

(i)  quick+thorough: a real `HsmsProtocol` with its real threads on an in-memory `Connection`.  For EVERY byte offset of a stream of control
     and data frames, in both session states (not selected / selected): feed the prefix, run the close sequence (`on_disconnecting`,
     `on_disconnected`) in a watchdog thread (3 s bound), require NOT_CONNECTED and an empty receive buffer, reconnect (`on_connected`),
     send a Select.req and require Select.rsp + SELECTED.  The same history goes to the thread-level model (`rx wedge …`): C.
(ii) witnesses of recorded findings are replayed on the implementation (DESIGN §4) and reported under stable classes.
(iii) quick: the F-13 / idle-server witnesses and a re-listen scenario (connect, select, close by either side, listen again on the same
     port) on real loopback sockets; thorough: real `TcpServerConnection` / `TcpClientConnection` on loopback with a raw peer socket that cuts
     and closes; `enable()/disable()` must return within a bound.
Every wait is bounded; all helper threads are daemons; the process ends with `os._exit(0)` (secsgem's own threads are not daemons).
"""
from __future__ import annotations

import os
import socket
import struct
import sys
import threading
import time

sys.path.insert(0, os.path.dirname(os.path.abspath(__file__)))
import _hsmsmem as M  # noqa: E402
from _hsmsmem import hlib  # noqa: E402
from hlib import hexs  # noqa: E402

import secsgem.hsms  # noqa: E402
from secsgem.hsms.connection_state_machine import ConnectionState  # noqa: E402

CLOSE_BOUND = 3.0
LINKTEST_REQ = lambda sy: M.ref_frame(sy, 0xFFFF, 0, 0, False, 0, 5, b"")     # noqa: E731
LINKTEST_RSP = lambda sy: M.ref_frame(sy, 0xFFFF, 0, 0, False, 0, 6, b"")     # noqa: E731
SELECT_REQ = lambda sy: M.ref_frame(sy, 0xFFFF, 0, 0, False, 0, 1, b"")       # noqa: E731
DESELECT_REQ = lambda sy: M.ref_frame(sy, 0xFFFF, 0, 0, False, 0, 3, b"")     # noqa: E731
DATA = lambda sy, s, f, w, body: M.ref_frame(sy, 0, s, f, w, 0, 0, body)       # noqa: E731


def frame_lens(stream: bytes):
    out, i = [], 0
    while len(stream) - i >= 4:
        n = struct.unpack(">L", stream[i:i + 4])[0] + 4
        if len(stream) - i < n:
            break
        out.append(n)
        i += n
    return out, len(stream) - i


class Endpoint:
    """a real HsmsProtocol on the in-memory connection; counts blocks whose handler has RETURNED"""

    def __init__(self, gated_clear=False, active=False, **kw):
        self.s, self.p, self.c = M.new_protocol(active=active, **kw)
        self.handled = 0
        self.disp_gate = None            # when set: the dispatcher is held before the handler of the next block
        self.disp_held = threading.Event()
        orig = self.p._thread._dispatcher_target

        def wrapped(source, block):
            g = self.disp_gate
            if g is not None:
                self.disp_held.set()
                g.wait(300)
            try:
                return orig(source, block)
            finally:
                self.handled += 1
        self.p._thread._dispatcher_target = wrapped
        self.clear_gate = None
        self.at_clear = threading.Event()
        if gated_clear:
            ep = self

            class GatedEvent(threading.Event):
                def clear(self):
                    g = ep.clear_gate
                    if g is not None:
                        ep.at_clear.set()
                        g.wait(300)
                    super().clear()
            self.p._thread._receiver_thread_trigger = GatedEvent()

    def connect(self):
        self.c.on_connected({"source": self.c})

    def feed(self, data: bytes):
        self.c.on_data({"source": self.c, "data": data})

    def settle(self, handled: int, timeout=5.0) -> bool:
        return M.wait_until(lambda: self.handled >= handled and self.p._thread._dispatch_queue.qsize() == 0
                            and self.p._send_queue.qsize() == 0, timeout)

    def close(self, bound=CLOSE_BOUND) -> bool:
        done = threading.Event()

        def closer():
            self.c.on_disconnecting({"source": self.c})
            self.c.on_disconnected({"source": self.c})
            done.set()
        threading.Thread(target=closer, daemon=True).start()
        return M.wait_event(done, bound)

    def out_tags(self):
        return ["sep" if b.header.s_type.value == 9 else "reply" for b in self.c.frames()]

    def state(self):
        return self.p.connection_state.current

    def buf(self) -> int:
        return len(self.p._receive_buffer)


def snapshot(ep, delivered_conn, total, out):
    cur = ep.state()
    rt = ep.p._thread._receiver_thread
    return (f"rx={1 if rt is not None and rt.is_alive() else 0} conn={0 if cur == ConnectionState.NOT_CONNECTED else 1} buf={ep.buf()} "
            f"delivered={delivered_conn} total={total} out=[{','.join(out)}] selected={1 if cur == ConnectionState.CONNECTED_SELECTED else 0}")


def project(model_snap: str) -> str:
    """drop the model-only parts (pcs, wedged flag) of a driver snapshot"""
    return " ".join(w for w in model_snap.split() if not w.startswith(("tcp=", "prx=", "wedged=")))


def cut_scenario(res, pre: bytes, stream: bytes, off: int, state: str, wait_quiescent: bool):
    """returns (case, impl snapshots or None, violation recorded?)"""
    case = {"kind": "cut", "state": state, "pre": pre.hex(), "stream": stream.hex(), "offset": off, "quiescent": wait_quiescent}
    ep = Endpoint()
    ep.connect()
    snaps = []
    total = 0
    if pre:
        ep.feed(pre)
        n_pre = len(frame_lens(pre)[0])
        total += n_pre
        if not ep.settle(total):
            res.violate("c09-not-quiescent", "the complete frames fed before the cut were not handled within 5 s", case)
            return case, None
    prefix = stream[:off]
    n_here, rest = frame_lens(prefix)
    ep.feed(prefix)
    total += len(n_here)
    out = []
    if wait_quiescent:
        if not ep.settle(total):
            res.violate("c09-not-quiescent", "the complete frames of the prefix were not handled within 5 s", case)
            return case, None
        out += ep.out_tags()
        snaps.append(snapshot(ep, total, total, out))
        if ep.buf() != rest:
            res.violate("c09-buffer", "receive buffer does not hold exactly the partial frame after the cut", case, rest, ep.buf())
    # ---- the peer closes here
    if not ep.close():
        res.bump("close_hangs", "n")
        res.violate("c09-close-hang", f"close sequence (on_disconnecting, on_disconnected) did not finish within {CLOSE_BOUND:.0f} s", case,
                    "finished", {"state": str(ep.state()), "buffer": ep.buf(), "send_queue": ep.p._send_queue.qsize()})
        return case, None
    # blocks of this connection that the dispatcher (never stopped) has not finished handling when the close sequence is over
    late = total - ep.handled
    if ep.state() != ConnectionState.NOT_CONNECTED:
        res.violate("c09-state", "endpoint does not report NOT_CONNECTED after the close sequence", case, "NOT_CONNECTED", str(ep.state()))
    if ep.buf() != 0:
        res.violate("c09-stale-bytes", "receive buffer not empty after the close sequence", case, 0, ep.buf())
    if wait_quiescent:
        out += ep.out_tags()
        snaps.append(snapshot(ep, total, total, out))
    ep.c.take()
    # ---- next connection
    ep.connect()
    ep.feed(SELECT_REQ(4242))
    def answered():
        with ep.c.lock:
            raw = b"".join(ep.c.sent)
        return any(b.header.s_type.value == 2 and b.header.system == 4242 for b in M.split_frames(raw))
    ok = M.wait_until(lambda: ep.state() == ConnectionState.CONNECTED_SELECTED and answered(), 3.0 if late == 0 else 1.5, must=(late == 0))
    if late > 0:
        time.sleep(0.05)          # let late handlers of the old connection show what they do
    frames = ep.c.frames()
    sent = [(b.header.s_type.value, b.header.system) for b in frames]
    rsp = [x for x in sent if x == (2, 4242)]
    bad = None
    if not ok or len(rsp) != 1:
        bad = "after reconnect a Select.req is not answered by exactly one Select.rsp with SELECTED state"
    elif len(frames) != 1:
        bad = "frames other than the Select.rsp were sent on the new connection"
    if bad:
        if late > 0:
            # the recorded finding: requests of the closed connection are handled (answered, state changed) on the next one
            res.violate("c09-stale-reply-next-connection", bad + f" ({late} block(s) of the closed connection were handled after its close sequence)",
                        case, "Select.rsp(4242) only, CONNECTED_SELECTED", {"state": str(ep.state()), "sent": sent, "late_blocks": late})
        else:
            res.violate("c09-reselect" if not ok or len(rsp) != 1 else "c09-stale-bytes", bad, case, "Select.rsp(4242) only, CONNECTED_SELECTED",
                        {"state": str(ep.state()), "sent": sent})
    elif wait_quiescent:
        snaps.append(snapshot(ep, 1, total + 1, ["reply"]))
    res.bump("late_blocks_at_close", late)
    ep.close()
    return case, snaps


def model_line(pre: bytes, stream: bytes, off: int) -> str:
    parts = ["rx wedge nonblocking C"]
    if pre:
        parts += ["K" + hexs(pre), "Q"]
    parts += ["K" + hexs(stream[:off]), "Q", "|", "X", "Q", "|", "C", "K" + hexs(SELECT_REQ(4242)), "Q", "|"]
    return " ".join(parts)


def inmemory_part(res, rng, drv, big, racing=True):
    body = rng.bytes(3)
    streams = {
        "not-selected": (b"", LINKTEST_REQ(11) + DATA(12, 1, 1, True, b"") + SELECT_REQ(13) + DATA(14, 1, 13, True, body) + LINKTEST_RSP(15) + DESELECT_REQ(16) + LINKTEST_REQ(17)),
        "selected": (SELECT_REQ(1), LINKTEST_REQ(21) + DATA(22, 1, 13, True, body) + DATA(23, 99, 1, False, b"\x01\x00") + LINKTEST_RSP(24) + DESELECT_REQ(25) + DATA(26, 1, 1, True, b"")),
    }
    cases, lines, answers = [], [], []
    n = 0
    for state, (pre, stream) in streams.items():
        for off in range(len(stream) + 1):
            if res.hist.get("close_hangs", {}).get("n", 0) >= 6:
                res.notes.append("6 close sequences hung: the rest of the exhaustive sweep is skipped (each costs the 3 s bound)")
                break
            case, snaps = cut_scenario(res, pre, stream, off, state, True)
            n += 1
            res.count(("cut", state, off), sample={"op": "cut, close, reconnect, select", "state": state, "offset": off, "stream_len": len(stream)} if off == 7 else None)
            frames, rest = frame_lens(stream[:off])
            where = "between frames" if rest == 0 else ("inside length" if rest < 4 else ("inside header" if rest < 14 else "inside body"))
            res.bump("cut_position", where)
            res.bump("session_state", state)
            if snaps is not None and len(snaps) == 3:
                cases.append(case)
                lines.append(model_line(pre, stream, off))
                answers.append("ok " + " | ".join(snaps))
    res.exhaustive_parts.append(f"every byte offset (0..len) of a {len(streams['not-selected'][1])}-byte and a {len(streams['selected'][1])}-byte stream of control+data frames, "
                                f"session not selected / selected: {n} runs of cut + close + reconnect + select on the real threads")
    if drv.available:
        res.driver_used = True
        outs = drv.run(lines)
        for case, line, m, i in zip(cases, lines, outs, answers):
            res.traces_validated += 1
            mp = "ok " + " | ".join(project(x) for x in hlib.strip_branch(m)[3:].split(" | ")) if m.startswith("ok ") else m
            if mp != i:
                res.disagree("close sequence: real threads vs Model.Wedge", {"case": case, "line": line[:300]}, mp, i)
    else:
        res.notes.append("driver unavailable: thread-level correspondence skipped")
    # the same without waiting for quiescence before the close (the threads race with the close sequence): hard requirements only
    offs = {st: (list(range(len(s[1]) + 1)) if big else sorted({rng.range(0, len(s[1])) for _ in range(8)} | {0, 7, 14, len(s[1])})) for st, s in streams.items()}
    for state, (pre, stream) in streams.items():
        for off in (offs[state] if racing else []):
            if res.hist.get("close_hangs", {}).get("n", 0) >= 6:
                break
            cut_scenario(res, pre, stream, off, state, False)
            res.count(("cut-racing", state, off))
            res.bump("racing_close", state)
    # an application `disconnected` listener that raises, peer cut between frames / mid-length / mid-header / mid-body
    for state, (pre, stream) in streams.items():
        for off in sorted({0, 2, 7, 14, 21, 30, len(stream)}):
            raising_listener_case(res, pre, stream, off, state)
            res.count(("raising-listener", state, off), sample={"op": "application disconnected-listener raises at link loss", "state": state, "offset": off} if off == 7 else None)
            res.bump("raising_listener", state)
    # random valid streams, cut anywhere
    for i in range(60 if big else 12):
        frames = []
        for _ in range(rng.range(1, 6)):
            k = rng.below(6)
            sy = rng.range(1, 2**32 - 1)
            frames.append([LINKTEST_REQ(sy), LINKTEST_RSP(sy), SELECT_REQ(sy), DESELECT_REQ(sy), DATA(sy, rng.range(1, 127), rng.range(1, 255), bool(rng.below(2)), rng.bytes(rng.range(0, 40))),
                           DATA(sy, 1, 13, True, rng.bytes(rng.range(0, 300)))][k])
        stream = b"".join(frames)
        off = rng.range(0, len(stream))
        pre = SELECT_REQ(1) if rng.chance(1, 2) else b""
        if res.hist.get("close_hangs", {}).get("n", 0) >= 6:
            break
        case, snaps = cut_scenario(res, pre, stream, off, "random", True)
        res.count(("cut-random", stream, off, pre), sample={"op": "random stream cut", "frames": len(frames), "offset": off} if i == 0 else None)
        if snaps is not None and len(snaps) == 3 and drv.available:
            m = drv.run([model_line(pre, stream, off)])[0]
            res.traces_validated += 1
            mp = "ok " + " | ".join(project(x) for x in m[3:].split(" | ")) if m.startswith("ok ") else m
            if mp != "ok " + " | ".join(snaps):
                res.disagree("close sequence (random stream): real threads vs Model.Wedge", {"case": case}, mp, "ok " + " | ".join(snaps))


# ---------------------------------------------------------------------------------------------- application callback raises at link loss
def raising_listener_case(res, pre: bytes, stream: bytes, off: int, state: str):
    """An application `disconnected` listener that raises when the link is lost (here: the peer cut at `off`).  The connection layer logs
    and ignores exceptions out of its event callbacks (as `TcpConnection.__receiver_thread` does); the protocol must have finished its own
    disconnect handling regardless: NOT_CONNECTED, receiver thread stopped, buffer empty, and the next connection selects."""
    case = {"kind": "raising-disconnected-listener", "state": state, "pre": pre.hex(), "stream": stream.hex(), "offset": off}
    ep = Endpoint()

    def angry(_data):
        raise RuntimeError("application callback fails at link loss")
    ep.p.events.disconnected += angry
    ep.connect()
    total = 0
    if pre:
        ep.feed(pre)
        total += len(frame_lens(pre)[0])
        ep.settle(total)
    ep.feed(stream[:off])
    total += len(frame_lens(stream[:off])[0])
    if not ep.settle(total):
        res.violate("c09-not-quiescent", "complete frames of the prefix not handled within 5 s", case)
        return
    done = threading.Event()
    raised = []

    def closer():
        for ev in (ep.c.on_disconnecting, ep.c.on_disconnected):
            try:
                ev({"source": ep.c})
            except Exception as exc:  # noqa: BLE001   (what TcpConnection does: log and go on)
                raised.append(type(exc).__name__)
        done.set()
    threading.Thread(target=closer, daemon=True).start()
    if not M.wait_event(done, CLOSE_BOUND):
        res.bump("close_hangs", "n")
        res.violate("c09-close-hang", f"close sequence did not finish within {CLOSE_BOUND:.0f} s (application listener raises)", case)
        return
    rt = ep.p._thread._receiver_thread
    actual = {"state": str(ep.state()), "buffer": ep.buf(), "receiver_thread_alive": bool(rt and rt.is_alive()), "callback_raised": raised}
    if ep.state() != ConnectionState.NOT_CONNECTED or ep.buf() != 0 or actual["receiver_thread_alive"]:
        res.violate("c09-listener-exception-skips-teardown", "an application `disconnected` listener that raises at link loss keeps the protocol "
                    "from finishing its own disconnect handling (state / receiver thread / receive buffer)", case,
                    {"state": "NOT_CONNECTED", "buffer": 0, "receiver_thread_alive": False}, actual)
        return
    ep.c.take()
    ep.connect()
    ep.feed(SELECT_REQ(4242))
    ok = M.wait_until(lambda: ep.state() == ConnectionState.CONNECTED_SELECTED
                      and any(b.header.s_type.value == 2 and b.header.system == 4242 for b in M.split_frames(b"".join(ep.c.sent))), 3.0)
    if not ok:
        res.violate("c09-reselect", "after a close sequence during which an application listener raised: Select.req on the new connection not "
                    "answered / not SELECTED", case, "Select.rsp(4242), CONNECTED_SELECTED", {"state": str(ep.state())})
    for ev in (ep.c.on_disconnecting, ep.c.on_disconnected):
        try:
            ev({"source": ep.c})
        except Exception:  # noqa: BLE001
            pass


# ---------------------------------------------------------------------------------------------- active mode: "selects again"
def sent_select_reqs(ep):
    with ep.c.lock:
        raw = b"".join(ep.c.sent)
    return [b.header.system for b in M.split_frames(raw) if b.header.s_type.value == 1]


def active_scenario(res, off, body):
    """ACTIVE endpoint on the in-memory connection.  The peer's stream is Select.rsp (to our Select.req), Linktest.req, a data message; it is
    cut at `off` (offsets below 14: our Select transaction is still open, T6 = 5 s not expired), the link is closed and comes back at once:
    a Select.req has to be written on the new connection, and answering it has to select."""
    case = {"kind": "active-cut", "offset": off}
    ep = Endpoint(active=True, t6=5)
    ep.connect()
    if not M.wait_until(lambda: len(sent_select_reqs(ep)) == 1, 2.0):
        res.violate("c09-no-select-req", "active endpoint: no Select.req within 2 s of the first connect", case, 1, sent_select_reqs(ep))
        return
    sys1 = sent_select_reqs(ep)[0]
    stream = M.ref_frame(sys1, 0xFFFF, 0, 0, False, 0, 2, b"") + LINKTEST_REQ(41) + DATA(42, 1, 13, True, body)
    prefix = stream[:off]
    n_complete = len(frame_lens(prefix)[0])
    ep.feed(prefix)
    if not ep.settle(n_complete):
        res.violate("c09-not-quiescent", "active endpoint: complete frames of the prefix not handled within 5 s", case)
        return
    if n_complete >= 1 and ep.state() != ConnectionState.CONNECTED_SELECTED:
        res.violate("c09-reselect", "active endpoint: not SELECTED after the Select.rsp", case, "CONNECTED_SELECTED", str(ep.state()))
    if not ep.close():
        res.bump("close_hangs", "n")
        res.violate("c09-close-hang", f"active endpoint: close sequence did not finish within {CLOSE_BOUND:.0f} s", case)
        return
    if ep.state() != ConnectionState.NOT_CONNECTED or ep.buf() != 0:
        res.violate("c09-state", "active endpoint: not NOT_CONNECTED / buffer not empty after the close sequence", case,
                    "NOT_CONNECTED, 0", (str(ep.state()), ep.buf()))
    ep.c.take()
    ep.connect()
    if not M.wait_until(lambda: len(sent_select_reqs(ep)) >= 1, 2.5):
        res.violate("c09-no-select-req", "active endpoint: link lost" + (" while the Select transaction was open" if n_complete == 0 else "")
                    + ", link back before T6: no Select.req is written on the new connection within 2.5 s (does not select again)", case,
                    "one Select.req", sent_select_reqs(ep))
        ep.close()
        return
    reqs = sent_select_reqs(ep)
    ep.feed(M.ref_frame(reqs[0], 0xFFFF, 0, 0, False, 0, 2, b""))
    if len(reqs) != 1 or not M.wait_until(lambda: ep.state() == ConnectionState.CONNECTED_SELECTED, 2.0):
        res.violate("c09-reselect", "active endpoint: new connection not SELECTED after answering its Select.req (or several Select.req)", case,
                    "one Select.req, CONNECTED_SELECTED", {"select_reqs": reqs, "state": str(ep.state())})
    ep.close()


def active_part(res, rng, big):
    body = rng.bytes(3)
    n = 14 + 14 + 14 + 3
    offs = list(range(n + 1)) if big else sorted({0, 1, 4, 7, 13, 14, 15, 21, 28, 30, 42, n} | {rng.range(0, n) for _ in range(6)})
    for off in offs:
        if res.hist.get("close_hangs", {}).get("n", 0) >= 6:
            break
        active_scenario(res, off, body)
        res.count(("active-cut", off), sample={"op": "ACTIVE endpoint: cut, close, reconnect inside T6, Select.req on the new connection", "offset": off} if off == 7 else None)
        res.bump("active_cut", "select transaction open" if off < 14 else "selected")


# ---------------------------------------------------------------------------------------------- witnesses of recorded findings
def witness_send_failure(res, drv):
    """Two sends queued under ONE trigger, the first one fails (the peer is gone): `_process_send_queue` returns, the Separate.req stays
    queued, nobody triggers the receiver again.  Schedule: the receiver thread is paused between `trigger.wait()` and `trigger.clear()`."""
    case = {"kind": "witness", "name": "send-failure-strands-queue"}
    ep = Endpoint(gated_clear=True)
    ep.connect()
    ep.feed(LINKTEST_REQ(5))
    if not ep.settle(1):
        res.violate("c09-not-quiescent", "Linktest.req not handled", case)
        return
    ep.c.take()
    ep.p._settings.timeouts.t6 = 1
    ep.clear_gate = threading.Event()
    threading.Thread(target=ep.p.send_linktest_req, daemon=True).start()      # queues item 1, sets the trigger
    if not M.wait_event(ep.at_clear, 3):
        res.notes.append("witness send-failure: receiver thread did not reach clear(); witness not replayed")
        return
    ep.c.send_result = False                                                  # from now on send_data fails
    done = threading.Event()

    def closer():
        ep.c.on_disconnecting({"source": ep.c})                                # queues the Separate.req (item 2), trigger already set
        ep.c.on_disconnected({"source": ep.c})
        done.set()
    threading.Thread(target=closer, daemon=True).start()
    M.wait_until(lambda: ep.p._send_queue.qsize() == 2, 2.0)
    g, ep.clear_gate = ep.clear_gate, None
    g.set()
    finished = M.wait_event(done, CLOSE_BOUND)
    res.count(("witness", "send-failure"), sample={"op": "witness replay", "name": "send failure strands the Separate.req", "close_finished": finished})
    res.bump("witness", f"send-failure-strands-queue: close finished={finished}")
    if drv.available:
        # the loop that exists goes on after the failed block: the model (current variant) finishes the close sequence on this schedule;
        # should the implementation hang again, it must at least be the hang of the variant before the repair
        sched = " C K" + hexs(LINKTEST_REQ(5)) + " P P P P P P D D X T P P p"
        m = drv.run(["rx wedge nonblocking" + sched + " Q |" if finished else "rx wedge returning" + sched + " P P D D |"])[0]
        res.traces_validated += 1
        if not (("tcp=done" in m and "conn=0" in m) if finished else ("wedged=1" in m)):
            res.disagree("witness send-failure-strands-queue: model vs implementation", case, m, f"close finished={finished}")
    if not finished:
        res.violate("c09-send-failure-strands-queue",
                    "two sends queued under one trigger, the first send_data fails: the Separate.req is never processed, the close sequence never "
                    "finishes (connection thread blocked in BlockSendInfo.wait, state stays CONNECTED)", case,
                    "close sequence finishes", {"state": str(ep.state()), "send_queue": ep.p._send_queue.qsize()})
    elif ep.state() != ConnectionState.NOT_CONNECTED or ep.p._send_queue.qsize() != 0:
        res.violate("c09-state", "after a close sequence with failing sends: not NOT_CONNECTED or blocks left in the send queue", case,
                    "NOT_CONNECTED, empty send queue", {"state": str(ep.state()), "send_queue": ep.p._send_queue.qsize()})


def witness_stale_reply(res, drv):
    """The dispatcher (never stopped) handles a Select.req of the OLD connection after the close sequence: the answer waits in the send queue
    and is the first thing written to the NEXT connection; the endpoint is SELECTED there without having been asked."""
    case = {"kind": "witness", "name": "stale-reply-next-connection"}
    ep = Endpoint()
    ep.connect()
    ep.disp_gate = threading.Event()
    ep.feed(SELECT_REQ(9))
    if not M.wait_event(ep.disp_held, 3):
        res.notes.append("witness stale-reply: dispatcher did not reach the handler; witness not replayed")
        return
    closed = ep.close()
    ep.c.take()
    g, ep.disp_gate = ep.disp_gate, None
    g.set()
    time.sleep(0.2)
    ep.connect()
    time.sleep(0.3)
    frames = ep.c.frames()
    stale = [(b.header.s_type.value, b.header.system) for b in frames]
    res.count(("witness", "stale-reply"), sample={"op": "witness replay", "name": "stale reply into the next connection", "sent_on_new_connection": stale})
    res.bump("witness", f"stale-reply-next-connection: frames on the new connection before any request={len(stale)}")
    if drv.available:
        m = drv.run(["rx wedge nonblocking C K" + hexs(SELECT_REQ(9)) + " P P P P P P X T P P P P P P T T P P T T D D C Q |"])[0]
        res.traces_validated += 1
        if stale and "out=[reply]" not in m:
            res.disagree("witness stale-reply-next-connection: implementation sends a stale frame, model does not", case, m, stale)
        if not stale:
            res.notes.append("witness stale-reply-next-connection no longer fails on the implementation (repaired?): the model's defect witness does not apply")
    if not closed:
        res.violate("c09-close-hang", "close sequence did not finish while the dispatcher was held", case)
    elif stale:
        res.violate("c09-stale-reply-next-connection",
                    "a request of the old connection handled after the close sequence: its answer is written to the next connection "
                    "(and the endpoint is SELECTED there without a Select.req)", case, [], {"sent": stale, "state": str(ep.state())})


# ---------------------------------------------------------------------------------------------- real TCP classes on loopback
def free_port():
    s = socket.socket()
    s.bind(("127.0.0.1", 0))
    p = s.getsockname()[1]
    s.close()
    return p


def diag(p):
    c = p._connection
    rt = p._thread._receiver_thread
    st = getattr(c, "_server_thread", None) or getattr(c, "connection_thread", None)
    return {"state": str(p.connection_state.current), "send_queue": p._send_queue.qsize(), "protocol_receiver_alive": bool(rt and rt.is_alive()),
            "accept_or_connect_thread_alive": bool(st and st.is_alive()),
            "connection_thread_running": getattr(c, "_thread_running", None), "stop_thread": getattr(c, "_stop_thread", None),
            "stop_flag": getattr(c, "_stop_server_thread", getattr(c, "stop_connection_thread", None))}


def disable_established(res, p, case):
    """`disable()` with an established connection.  It is called only after the accept/connect thread has ended (the window in which it has
    not is the recorded finding's, replayed by `f13_witness`); should the endpoint nevertheless end in that finding's stuck state — stop flag
    set, accept/connect thread dead, connection up — it is reported under its class, any other hang is a violation of its own."""
    c = p._connection
    M.wait_until(lambda: not diag(p)["accept_or_connect_thread_alive"], 3.0)
    if call_bounded(p.disable, 8):
        return
    d = diag(p)
    if d["stop_flag"] is True and not d["accept_or_connect_thread_alive"] and d["connection_thread_running"]:
        res.violate("c09-tcp-disable-hang", "disable() waits for the stop flag although the accept/connect thread has ended (it ended between "
                    "disable()'s is_alive() test and its wait)", case, "returns", d)
    else:
        res.violate("c09-disable-hang", "disable() did not return within 8 s (connection established and idle)", case, "returns", d)


def call_bounded(fn, bound):
    done = threading.Event()
    threading.Thread(target=lambda: (fn(), done.set()), daemon=True).start()
    return M.wait_event(done, bound)


def read_frames(sock, n, timeout):
    end = time.monotonic() + M.bound(timeout)
    buf = b""
    out = []
    try:
        while len(out) < n:
            left = end - time.monotonic()
            if left <= 0:
                M.STALLS[0] += 1
                break
            sock.settimeout(left)
            d = sock.recv(4096)
            if not d:
                break
            buf += d
            lens, _ = frame_lens(buf)
            while lens:
                out.append(secsgem.hsms.HsmsBlock.decode(buf[:lens[0]]))
                buf = buf[lens[0]:]
                lens = lens[1:]
    except OSError:
        pass
    return out


def tcp_passive_case(res, stream, off, case_id):
    port = free_port()
    s = secsgem.hsms.HsmsSettings(address="127.0.0.1", port=port, connect_mode=secsgem.hsms.HsmsConnectMode.PASSIVE)
    p = secsgem.hsms.HsmsProtocol(s)
    case = {"kind": "tcp-passive", "stream": stream.hex(), "offset": off}
    if not call_bounded(p.enable, 5):
        res.violate("c09-enable-hang", "enable() did not return within 5 s", case)
        return
    peer = connect_peer(port, tries=50)
    if peer is None:
        res.violate("c09-no-listen", "passive endpoint does not accept a connection within 2.5 s of enable()", case)
        call_bounded(p.disable, 5)
        return
    M.wait_until(lambda: p.connection_state.current != ConnectionState.NOT_CONNECTED and accept_thread_done(p), 5.0)
    if off:
        peer.sendall(stream[:off])
    time.sleep(0.05)
    peer.close()
    if not M.wait_until(lambda: p.connection_state.current == ConnectionState.NOT_CONNECTED, 6.0):
        res.violate("c09-close-hang", "real TcpServerConnection: NOT_CONNECTED not reached within 6 s of the peer's close", case, "NOT_CONNECTED",
                    str(p.connection_state.current))
        call_bounded(p.disable, 3)
        return
    if not M.wait_until(lambda: len(p._receive_buffer) == 0 and torn_down(p), 5.0):
        res.violate("c09-stale-bytes", "receive buffer not empty / connection thread still running 3 s after NOT_CONNECTED", case, 0,
                    {"buffer": len(p._receive_buffer), "thread_running": p._connection._thread_running})
    # new connection, select
    peer2 = connect_peer(port, tries=80)
    if peer2 is None:
        res.violate("c09-no-reconnect", "passive endpoint does not accept a new connection within 4 s after link loss", case)
    else:
        peer2.sendall(SELECT_REQ(4242))
        got = read_frames(peer2, 1, 3.0)
        sel = M.wait_until(lambda: p.connection_state.current == ConnectionState.CONNECTED_SELECTED, 3.0)
        if not (got and got[0].header.s_type.value == 2 and got[0].header.system == 4242 and sel):
            res.violate("c09-reselect", "real TcpServerConnection: Select.req on the new connection not answered / not SELECTED", case,
                        "Select.rsp(4242)", [(b.header.s_type.value, b.header.system) for b in got])
    disable_established(res, p, case)
    if peer2 is not None:
        peer2.close()
    res.count(("tcp-passive", stream, off), sample={"op": "real TcpServerConnection: cut, close, reconnect, select, disable", "offset": off} if case_id == 0 else None)
    res.bump("tcp_cases", "passive")


def tcp_active_case(res, stream, off, case_id):
    srv = socket.socket()
    srv.setsockopt(socket.SOL_SOCKET, socket.SO_REUSEADDR, 1)
    srv.bind(("127.0.0.1", 0))
    srv.listen(2)
    srv.settimeout(M.bound(6))
    port = srv.getsockname()[1]
    s = secsgem.hsms.HsmsSettings(address="127.0.0.1", port=port, connect_mode=secsgem.hsms.HsmsConnectMode.ACTIVE, t5=1, t6=2)
    p = secsgem.hsms.HsmsProtocol(s)
    case = {"kind": "tcp-active", "stream": stream.hex(), "offset": off}
    if not call_bounded(p.enable, 5):
        res.violate("c09-enable-hang", "enable() did not return within 5 s", case)
        return

    def serve_one(cut_bytes):
        try:
            peer, _ = srv.accept()
        except OSError:
            return None
        req = read_frames(peer, 1, 3.0)                      # the active side sends Select.req
        if req and req[0].header.s_type.value == 1:
            peer.sendall(M.ref_frame(req[0].header.system, 0xFFFF, 0, 0, False, 0, 2, b""))
        return peer, req
    r = serve_one(None)
    if r is None:
        res.violate("c09-no-connect", "active endpoint did not connect within 6 s of enable()", case)
        call_bounded(p.disable, 5)
        return
    peer, req = r
    if not M.wait_until(lambda: p.connection_state.current == ConnectionState.CONNECTED_SELECTED, 3.0):
        res.violate("c09-reselect", "active endpoint not SELECTED after Select.rsp", case, "CONNECTED_SELECTED", str(p.connection_state.current))
    if off:
        peer.sendall(stream[:off])
    time.sleep(0.05)
    peer.close()
    if not M.wait_until(lambda: p.connection_state.current == ConnectionState.NOT_CONNECTED, 6.0):
        res.violate("c09-close-hang", "real TcpClientConnection: NOT_CONNECTED not reached within 6 s of the peer's close", case, "NOT_CONNECTED",
                    str(p.connection_state.current))
        call_bounded(p.disable, 3)
        return
    if not M.wait_until(lambda: len(p._receive_buffer) == 0 and torn_down(p), 5.0):
        res.violate("c09-stale-bytes", "receive buffer not empty / connection thread still running 3 s after NOT_CONNECTED", case, 0,
                    {"buffer": len(p._receive_buffer), "thread_running": p._connection._thread_running})
    r = serve_one(None)                                       # reconnect after T5 (1 s), selects again
    if r is None or not r[1] or r[1][0].header.s_type.value != 1:
        res.violate("c09-no-reconnect", "active endpoint did not reconnect and send Select.req within 6 s after link loss", case)
    else:
        if not M.wait_until(lambda: p.connection_state.current == ConnectionState.CONNECTED_SELECTED, 3.0):
            res.violate("c09-reselect", "active endpoint not SELECTED on the new connection", case, "CONNECTED_SELECTED", str(p.connection_state.current))
    disable_established(res, p, case)
    if r is not None:
        r[0].close()
    srv.close()
    res.count(("tcp-active", stream, off), sample={"op": "real TcpClientConnection: cut, close, reconnect, select, disable", "offset": off} if case_id == 0 else None)
    res.bump("tcp_cases", "active")


def f13_witness(res, drv):
    """F-13: `disable()` called while the `on_connected` listeners run (a `connected` listener that takes 0.6 s)."""
    slow = 0.6
    # ---- client
    srv = socket.socket()
    srv.setsockopt(socket.SOL_SOCKET, socket.SO_REUSEADDR, 1)
    srv.bind(("127.0.0.1", 0))
    srv.listen(1)
    port = srv.getsockname()[1]
    s = secsgem.hsms.HsmsSettings(address="127.0.0.1", port=port, connect_mode=secsgem.hsms.HsmsConnectMode.ACTIVE, t6=1)
    p = secsgem.hsms.HsmsProtocol(s)
    in_listener = threading.Event()
    p.events.connected += lambda d: (in_listener.set(), time.sleep(slow))
    p.enable()
    inside = M.wait_event(in_listener, 3)
    returned = call_bounded(p.disable, 3)
    classify_f13(res, drv, "client", inside, returned, p, "TTTAAAT")
    # ---- server
    port2 = free_port()
    s2 = secsgem.hsms.HsmsSettings(address="127.0.0.1", port=port2, connect_mode=secsgem.hsms.HsmsConnectMode.PASSIVE)
    p2 = secsgem.hsms.HsmsProtocol(s2)
    in_listener2 = threading.Event()
    p2.events.connected += lambda d: (in_listener2.set(), time.sleep(slow))
    p2.enable()
    peer = connect_peer(port2, tries=50)
    inside2 = M.wait_event(in_listener2, 3)
    returned2 = call_bounded(p2.disable, 3)
    classify_f13(res, drv, "server", inside2, returned2, p2, "TTTTTAAATT")


def classify_f13(res, drv, side, inside, returned, p, trace):
    case = {"kind": "witness", "name": "tcp-disable-hang", "side": side, "disable_called_while_connected_listener_runs": inside}
    res.count(("witness", "f13", side), sample={"op": "witness replay", "name": f"F-13 {side}: disable() inside the on_connected window", "disable_returned": returned})
    res.bump("witness", f"tcp-disable-hang {side}: listener running={inside} disable returned={returned}")
    if drv.available and inside:
        # the finding's witness still fails: the model of the code that exists says stuck; it no longer fails (someone repaired the
        # handshake): the patched model variant is the one that applies and has to say that disable() returns on the same schedule
        if returned:
            m = drv.run([f"tcp stop {side} fixed {trace}AARRA"])[0]
            ok = "app=returned" in m and "stuck=0" in m
        else:
            m = drv.run([f"tcp stop {side} code {trace}"])[0]
            ok = "stuck=1" in m
        res.traces_validated += 1
        if not ok:
            res.disagree(f"witness tcp-disable-hang ({side}): model vs implementation", case, m, f"disable returned={returned}")
    if not returned:
        if inside:
            res.violate("c09-tcp-disable-hang", f"{side}: disable() called while the on_connected listeners run never returns "
                        "(stop flag set after the connect/accept thread's last look at it; the thread ends without resetting it)", case,
                        "disable() returns", "still waiting after 3 s")
        else:
            res.violate("c09-disable-hang", f"{side}: disable() did not return although no connected listener was running", case)


def idle_server_witness(res, drv):
    """`enable(); disable()` of a passive connection nobody connected to: closing the listening socket wakes the server thread's `select`,
    `accept()` raises EBADF, the thread dies without resetting the stop flag."""
    p = secsgem.hsms.HsmsProtocol(secsgem.hsms.HsmsSettings(address="127.0.0.1", port=free_port(), connect_mode=secsgem.hsms.HsmsConnectMode.PASSIVE))
    p.enable()
    time.sleep(0.7)
    conn = p._connection
    in_select = conn._server_thread is not None and conn._server_thread.is_alive() and not p._connection.connected
    returned = call_bounded(p.disable, 3)
    case = {"kind": "witness", "name": "tcp-server-idle-disable-hang", "server_thread_waiting_for_a_peer": in_select}
    res.count(("witness", "idle-server"), sample={"op": "witness replay", "name": "idle passive endpoint: enable(); disable()", "disable_returned": returned})
    res.bump("witness", f"tcp-server-idle-disable-hang: disable returned={returned}")
    if drv.available and in_select:
        m = drv.run(["tcp stop server fixed TTAAATTTAA" if returned else "tcp stop server code TTAAATT"])[0]
        res.traces_validated += 1
        if not (("app=returned" in m) if returned else ("stuck=1" in m)):
            res.disagree("witness tcp-server-idle-disable-hang: model vs implementation", case, m, f"disable returned={returned}")
    if not returned:
        d = diag(p)
        if in_select and d["stop_flag"] is True and not conn._server_thread.is_alive():
            res.violate("c09-tcp-server-idle-disable-hang", "passive connection without a peer: disable() never returns (the listening socket is closed "
                        "under the server thread's select, accept() raises EBADF, the thread dies, the stop flag disable() waits for stays set)",
                        case, "disable() returns", d)
        else:
            res.violate("c09-disable-hang", "passive connection without a peer: disable() did not return within 3 s", case, "returns", d)


def torn_down(p) -> bool:
    """the previous connection's thread has finished ALL of its close handling (`_on_disconnected` incl. `ProtocolDispatcher.stop()`, the
    reset of the transport's flags).  The scenarios that test something else connect a new peer only after this: a peer that connects while
    the teardown is still running is the recorded finding c09-relisten-overlaps-teardown (`overlap_witness`)."""
    rt = p._thread._receiver_thread
    return not p._connection._thread_running and not (rt is not None and rt.is_alive()) and not p._connection._stop_thread


def accept_thread_done(p) -> bool:
    """the thread that accepted / established the current connection has ended (the passive one closes its listening socket as its last
    act).  Scenarios that are not about that thread's tail wait for this before the connection is closed again: a close that overtakes
    it is the recorded finding c09-relisten-bind-race (`early_close_witness`)."""
    return not diag(p)["accept_or_connect_thread_alive"]


def connect_peer(port, tries=60):
    """connect to the endpoint's port; retried until the load-proof bound (nominal: tries x 50 ms)"""
    end = time.monotonic() + M.bound(tries * 0.05)
    while True:
        try:
            c = socket.create_connection(("127.0.0.1", port), timeout=5)
            if c.getsockname() != c.getpeername():          # not a TCP self-connect to a port nobody listens on
                return c
            c.close()
        except OSError:
            pass
        if time.monotonic() >= end:
            M.STALLS[0] += 1
            return None
        time.sleep(0.05)


def select_on(peer, p, system):
    peer.sendall(SELECT_REQ(system))
    got = read_frames(peer, 1, 3.0)
    sel = M.wait_until(lambda: p.connection_state.current == ConnectionState.CONNECTED_SELECTED, 3.0)
    if getattr(p._connection, "_server_thread", None) is not None:
        M.wait_until(lambda: accept_thread_done(p), 5.0)
    return bool(got) and got[0].header.s_type.value == 2 and got[0].header.system == system and sel, got


def relisten_case(res, local_first: bool):
    """A passive endpoint on a real loopback port has to listen again on the SAME port after a connection ended — also when the endpoint
    itself closed first (local `disable()` of an established connection leaves the accepted socket's port in TIME_WAIT)."""
    port = free_port()
    p = secsgem.hsms.HsmsProtocol(secsgem.hsms.HsmsSettings(address="127.0.0.1", port=port, connect_mode=secsgem.hsms.HsmsConnectMode.PASSIVE))
    case = {"kind": "tcp-relisten", "who_closes_first": "endpoint (disable)" if local_first else "peer"}
    res.count(("tcp-relisten", local_first), sample={"op": "real TcpServerConnection: connect, select, close, listen again on the same port", **case})
    res.bump("tcp_cases", "relisten " + ("local close" if local_first else "peer close"))
    if not call_bounded(p.enable, 5):
        res.violate("c09-enable-hang", "enable() did not return within 5 s", case)
        return
    peer = connect_peer(port)
    if peer is None:
        res.violate("c09-no-listen", "passive endpoint does not accept a connection within 3 s of enable()", case)
        call_bounded(p.disable, 5)
        return
    ok, got = select_on(peer, p, 4141)
    if not ok:
        res.violate("c09-reselect", "first connection: Select.req not answered / not SELECTED", case, "Select.rsp(4141)",
                    [(b.header.s_type.value, b.header.system) for b in got])
    if local_first:
        M.wait_until(lambda: not diag(p)["accept_or_connect_thread_alive"], 3.0)
        if not call_bounded(p.disable, 8):
            res.violate("c09-disable-hang", "disable() of an established connection did not return within 8 s", case, "returns", diag(p))
            return
        read_frames(peer, 5, 1.0)                       # Separate.req, then EOF
        peer.close()
        if p.connection_state.current != ConnectionState.NOT_CONNECTED:
            res.violate("c09-state", "not NOT_CONNECTED after disable()", case, "NOT_CONNECTED", str(p.connection_state.current))
        if not call_bounded(p.enable, 5):
            res.violate("c09-enable-hang", "second enable() did not return within 5 s", case)
            return
    else:
        peer.close()
        if not M.wait_until(lambda: p.connection_state.current == ConnectionState.NOT_CONNECTED and torn_down(p), 8.0):
            res.violate("c09-close-hang", "NOT_CONNECTED / complete teardown not reached within 8 s of the peer's close", case, "NOT_CONNECTED",
                        diag(p))
            call_bounded(p.disable, 3)
            return
    peer2 = connect_peer(port, tries=80)
    if peer2 is None:
        st = getattr(p._connection, "_server_thread", None)
        res.violate("c09-no-reconnect", "the passive endpoint does not listen on its port again within 4 s after the connection ended "
                    "(a new peer cannot connect)", case, "accepts a new connection", {"server_thread_alive": bool(st and st.is_alive()), **diag(p)})
    else:
        ok, got = select_on(peer2, p, 4242)
        if not ok:
            res.violate("c09-reselect", "new connection: Select.req not answered / not SELECTED", case, "Select.rsp(4242)",
                        [(b.header.s_type.value, b.header.system) for b in got])
    M.wait_until(lambda: not diag(p)["accept_or_connect_thread_alive"], 3.0)
    if not call_bounded(p.disable, 8):
        res.violate("c09-disable-hang", "final disable() did not return within 8 s", case, "returns", diag(p))
    if peer2 is not None:
        peer2.close()


def idle_cycle_case(res, active: bool):
    """enable() → disable() with no peer ever connected → enable(): the endpoint has to work like a fresh one — a peer connects, the session
    is selected, a Linktest.req is answered, and the peer's close is noticed."""
    case = {"kind": "tcp-idle-cycle", "mode": "active" if active else "passive"}
    res.count(("tcp-idle-cycle", active), sample={"op": "real sockets: enable, disable (no peer), enable, connect, select, linktest, peer close", **case})
    res.bump("tcp_cases", "idle cycle " + case["mode"])
    port = free_port()
    mode = secsgem.hsms.HsmsConnectMode.ACTIVE if active else secsgem.hsms.HsmsConnectMode.PASSIVE
    p = secsgem.hsms.HsmsProtocol(secsgem.hsms.HsmsSettings(address="127.0.0.1", port=port, connect_mode=mode, t5=1, t6=2))
    if not call_bounded(p.enable, 5):
        res.violate("c09-enable-hang", "enable() did not return within 5 s", case)
        return
    time.sleep(0.4)
    if not call_bounded(p.disable, 8):
        res.violate("c09-disable-hang", "disable() with no peer did not return within 8 s", case, "returns", diag(p))
        return
    srv = None
    if active:
        srv = socket.socket()
        srv.setsockopt(socket.SOL_SOCKET, socket.SO_REUSEADDR, 1)
        srv.bind(("127.0.0.1", port))
        srv.listen(1)
        srv.settimeout(M.bound(6))
    if not call_bounded(p.enable, 5):
        res.violate("c09-enable-hang", "second enable() did not return within 5 s", case)
        return
    if active:
        try:
            peer, _ = srv.accept()
        except OSError:
            res.violate("c09-no-connect", "active endpoint did not connect within 6 s of the second enable()", case)
            call_bounded(p.disable, 5)
            return
        req = read_frames(peer, 1, 3.0)
        if not req or req[0].header.s_type.value != 1:
            res.violate("c09-no-select-req", "active endpoint sent no Select.req on its connection", case)
        else:
            peer.sendall(M.ref_frame(req[0].header.system, 0xFFFF, 0, 0, False, 0, 2, b""))
        sel = M.wait_until(lambda: p.connection_state.current == ConnectionState.CONNECTED_SELECTED, 3.0)
    else:
        peer = connect_peer(port)
        if peer is None:
            res.violate("c09-no-listen", "passive endpoint does not accept a connection within 3 s of the second enable()", case)
            call_bounded(p.disable, 5)
            return
        sel, _ = select_on(peer, p, 4343)
    if not sel:
        res.violate("c09-reselect", "after enable/disable/enable the session is not SELECTED (the endpoint does not read what the peer sends)", case,
                    "CONNECTED_SELECTED", str(p.connection_state.current))
    peer.sendall(LINKTEST_REQ(77))
    got = read_frames(peer, 1, 3.0)
    if not (got and got[0].header.s_type.value == 6 and got[0].header.system == 77):
        res.violate("c09-no-linktest-rsp", "Linktest.req on the established connection is not answered within 3 s", case, "Linktest.rsp(77)",
                    [(b.header.s_type.value, b.header.system) for b in got])
    peer.close()
    if not M.wait_until(lambda: p.connection_state.current == ConnectionState.NOT_CONNECTED and torn_down(p), 8.0):
        res.violate("c09-close-hang", "NOT_CONNECTED / complete teardown not reached within 8 s of the peer's close", case, "NOT_CONNECTED", diag(p))
    if not call_bounded(p.disable, 8):
        res.violate("c09-disable-hang", "final disable() did not return within 8 s", case, "returns", diag(p))
    if srv is not None:
        srv.close()


def overlap_witness(res, drv):
    """A peer connects to the passive endpoint WHILE the previous connection is still being torn down.  The window exists because
    `TcpServerConnection` restarts its listener from an `on_disconnected` listener that runs before `HsmsProtocol._on_disconnected`; it is
    held open here by pausing the old connection's thread at its call of `ProtocolDispatcher.stop()`."""
    port = free_port()
    p = secsgem.hsms.HsmsProtocol(secsgem.hsms.HsmsSettings(address="127.0.0.1", port=port, connect_mode=secsgem.hsms.HsmsConnectMode.PASSIVE))
    case = {"kind": "witness", "name": "relisten-overlaps-teardown"}
    if not call_bounded(p.enable, 5):
        res.violate("c09-enable-hang", "enable() did not return within 5 s", case)
        return
    peer = connect_peer(port)
    if peer is None or not select_on(peer, p, 1)[0]:
        res.violate("c09-reselect", "first connection could not be established / selected", case)
        call_bounded(p.disable, 5)
        return
    # the server thread that accepted `peer` closes its listening socket as its last act; until then a connect would still reach THAT
    # listener's backlog (and never be accepted).  The witness is about the listener being restarted, so wait for the old one to be gone.
    listener_gone = M.wait_until(lambda: not diag(p)["accept_or_connect_thread_alive"], 10.0)
    gate, at_stop = threading.Event(), threading.Event()
    real_stop = p._thread.stop

    def held_stop():
        at_stop.set()
        gate.wait(300)
        return real_stop()
    p._thread.stop = held_stop
    peer.close()
    if not M.wait_event(at_stop, 4):
        res.notes.append("witness relisten-overlaps-teardown: the old connection's thread did not reach ProtocolDispatcher.stop(); not replayed")
        p._thread.stop = real_stop
        gate.set()
        call_bounded(p.disable, 5)
        return
    # the old teardown is paused: can a new peer connect now?
    peer2, t0 = None, time.monotonic()
    while peer2 is None and time.monotonic() - t0 < 1.0:
        try:
            c = socket.create_connection(("127.0.0.1", port), timeout=0.3)
            if c.getsockname() == c.getpeername():          # TCP self-connect to a port nobody listens on
                c.close()
            else:
                peer2 = c
        except OSError:
            time.sleep(0.02)
    during = peer2 is not None
    if during:
        time.sleep(0.3)                                      # accepted, `_on_connected` runs next to the paused teardown
    p._thread.stop = real_stop
    gate.set()
    M.wait_until(lambda: torn_down(p) or during, 3.0)
    if peer2 is None:
        peer2 = connect_peer(port, tries=80)
    ok, got = (False, [])
    if peer2 is not None:
        try:
            ok, got = select_on(peer2, p, 2)
        except OSError:
            ok = False
    res.count(("witness", "overlap"), sample={"op": "witness replay", "name": "peer connects during the teardown of the previous connection",
                                              "accepted_during_teardown": during, "new_connection_selected": ok})
    res.bump("witness", f"relisten-overlaps-teardown: accepted during teardown={during} new connection selected={ok}")
    if drv.available and during and not ok:
        res.traces_validated += 1      # the model's witness is a theorem (overlapping_connect_kills_new_connection); nothing to run in the driver
    if not ok:
        actual = {"accepted_during_teardown": during, "frames_on_new_connection": [(b.header.s_type.value, b.header.system) for b in got], **diag(p)}
        if during:
            res.violate("c09-relisten-overlaps-teardown", "a peer accepted while the previous connection is still being torn down: the new "
                        "connection is not selected (the old connection's teardown stops / closes it, or its leftover flags do)", case,
                        "Select.rsp(2), CONNECTED_SELECTED", actual)
        else:
            res.violate("c09-reselect", "new connection after a complete teardown: Select.req not answered / not SELECTED", case,
                        "Select.rsp(2), CONNECTED_SELECTED", actual)
    M.wait_until(lambda: not diag(p)["accept_or_connect_thread_alive"], 2.0)
    call_bounded(p.disable, 4)
    if peer2 is not None:
        peer2.close()


def abortive_close_case(res, active: bool):
    """The peer resets the connection (SO_LINGER 0 → RST) while the session is selected.  The endpoint's close sequence then writes its
    Separate.req to a dead socket (EPIPE / ECONNRESET): `send_data` has to report failure so that the block is resolved and the close
    sequence finishes: NOT_CONNECTED within a bound, `disable()` returns."""
    import struct as _struct
    case = {"kind": "tcp-abortive-close", "mode": "active" if active else "passive"}
    res.count(("tcp-abortive-close", active), sample={"op": "real sockets: selected session, peer resets the connection (RST)", **case})
    res.bump("tcp_cases", "abortive close " + case["mode"])
    port = free_port()
    mode = secsgem.hsms.HsmsConnectMode.ACTIVE if active else secsgem.hsms.HsmsConnectMode.PASSIVE
    srv = None
    if active:
        srv = socket.socket()
        srv.setsockopt(socket.SOL_SOCKET, socket.SO_REUSEADDR, 1)
        srv.bind(("127.0.0.1", port))
        srv.listen(1)
        srv.settimeout(M.bound(6))
    p = secsgem.hsms.HsmsProtocol(secsgem.hsms.HsmsSettings(address="127.0.0.1", port=port, connect_mode=mode, t5=5, t6=2))
    if not call_bounded(p.enable, 5):
        res.violate("c09-enable-hang", "enable() did not return within 5 s", case)
        return
    if active:
        try:
            peer, _ = srv.accept()
        except OSError:
            res.violate("c09-no-connect", "active endpoint did not connect within 6 s", case)
            call_bounded(p.disable, 5)
            return
        req = read_frames(peer, 1, 3.0)
        if req and req[0].header.s_type.value == 1:
            peer.sendall(M.ref_frame(req[0].header.system, 0xFFFF, 0, 0, False, 0, 2, b""))
        sel = M.wait_until(lambda: p.connection_state.current == ConnectionState.CONNECTED_SELECTED, 3.0)
    else:
        peer = connect_peer(port)
        if peer is None:
            res.violate("c09-no-listen", "passive endpoint does not accept a connection within 3 s", case)
            call_bounded(p.disable, 5)
            return
        sel, _ = select_on(peer, p, 4545)
    if not sel:
        res.violate("c09-reselect", "session not SELECTED before the reset", case)
    # a Linktest.req right before the reset: the endpoint also has an answer to write to the dead socket
    peer.sendall(LINKTEST_REQ(78))
    peer.setsockopt(socket.SOL_SOCKET, socket.SO_LINGER, _struct.pack("ii", 1, 0))
    peer.close()
    if not M.wait_until(lambda: p.connection_state.current == ConnectionState.NOT_CONNECTED and torn_down(p), 8.0):
        res.violate("c09-close-hang", "peer reset the connection: NOT_CONNECTED / complete teardown not reached within 8 s (close sequence stuck "
                    "writing to the dead socket?)", case, "NOT_CONNECTED", diag(p))
    if not call_bounded(p.disable, 8):
        res.violate("c09-disable-hang", "disable() after the peer's reset did not return within 8 s", case, "returns", diag(p))
    if srv is not None:
        srv.close()


def early_close_witness(res, drv):
    """A peer connects to the passive endpoint and closes again while the `on_connected` listeners still run (a `connected` listener that
    takes 0.6 s).  The closed connection's thread then restarts the listener while the server thread that accepted it still holds the
    listening socket: bind fails with EADDRINUSE, the new server thread dies, and the endpoint never listens again."""
    port = free_port()
    p = secsgem.hsms.HsmsProtocol(secsgem.hsms.HsmsSettings(address="127.0.0.1", port=port, connect_mode=secsgem.hsms.HsmsConnectMode.PASSIVE))
    in_listener = threading.Event()
    p.events.connected += lambda d: (in_listener.set(), time.sleep(0.6))
    case = {"kind": "witness", "name": "relisten-bind-race"}
    if not call_bounded(p.enable, 5):
        res.violate("c09-enable-hang", "enable() did not return within 5 s", case)
        return
    peer = connect_peer(port)
    if peer is None:
        res.violate("c09-no-listen", "passive endpoint does not accept a connection within 3 s of enable()", case)
        call_bounded(p.disable, 5)
        return
    inside = M.wait_event(in_listener, 3)
    peer.close()                                             # … while the accepting thread is still in the listener
    M.wait_until(lambda: p.connection_state.current == ConnectionState.NOT_CONNECTED and torn_down(p) and accept_thread_done(p), 8.0)
    time.sleep(0.3)                                          # the restarted server thread (if it lives) binds and listens within this
    st = getattr(p._connection, "_server_thread", None)
    listening = bool(st and st.is_alive())
    peer2 = connect_peer(port, tries=40) if listening else None
    ok = False
    if peer2 is not None:
        ok, _ = select_on(peer2, p, 3)
    res.count(("witness", "early-close"), sample={"op": "witness replay", "name": "peer connects and closes during the on_connected listeners",
                                                  "closed_inside_listener": inside, "listens_again": listening, "new_connection_selected": ok})
    res.bump("witness", f"relisten-bind-race: closed inside listener={inside} listens again={listening} selected={ok}")
    if not ok:
        actual = {"closed_inside_listener": inside, "server_thread_alive": listening, **diag(p)}
        if inside and not listening:
            res.violate("c09-relisten-bind-race", "a peer that connects and closes again while the on_connected listeners run: the listener is "
                        "restarted while the accepting thread still holds the listening socket (EADDRINUSE), the new server thread dies, the "
                        "endpoint never listens again", case, "listens again, new connection selected", actual)
        else:
            res.violate("c09-no-reconnect", "after a connect-and-close the passive endpoint does not accept / select a new connection", case,
                        "listens again, new connection selected", actual)
    M.wait_until(lambda: accept_thread_done(p), 3.0)
    call_bounded(p.disable, 5)
    if peer2 is not None:
        peer2.close()


def disable_in_handler_case(res):
    """The application takes the endpoint down from inside one of the protocol's own callbacks: a `communicating` handler (it runs on the
    dispatcher thread, inside the select transition of the connection state machine) calls `disable()`.  `disable()` has to return, the
    endpoint has to be NOT_CONNECTED, and after `enable()` a new connection has to select."""
    case = {"kind": "tcp-disable-in-handler", "handler": "communicating"}
    res.count(("tcp-disable-in-handler",), sample={"op": "real sockets: disable() called from the `communicating` handler", **case})
    res.bump("tcp_cases", "disable in handler")
    port = free_port()
    p = secsgem.hsms.HsmsProtocol(secsgem.hsms.HsmsSettings(address="127.0.0.1", port=port, connect_mode=secsgem.hsms.HsmsConnectMode.PASSIVE))
    refuse = [True]
    returned = threading.Event()

    def on_communicating(_data):
        if refuse[0]:
            p.disable()
            returned.set()
    p.events.communicating += on_communicating
    if not call_bounded(p.enable, 5):
        res.violate("c09-enable-hang", "enable() did not return within 5 s", case)
        return
    peer = connect_peer(port)
    if peer is None:
        res.violate("c09-no-listen", "passive endpoint does not accept a connection within 3 s of enable()", case)
        call_bounded(p.disable, 5)
        return
    peer.sendall(SELECT_REQ(4646))
    got = read_frames(peer, 1, 3.0)
    if not (got and got[0].header.s_type.value == 2):
        res.violate("c09-reselect", "Select.req not answered", case, "Select.rsp", [(b.header.s_type.value, b.header.system) for b in got])
    if not M.wait_event(returned, 8):
        res.violate("c09-disable-hang", "disable() called from the `communicating` handler did not return (the connection's teardown needs the "
                    "state machine the handler is running inside)", case, "returns", diag(p))
        return
    if not M.wait_until(lambda: p.connection_state.current == ConnectionState.NOT_CONNECTED and torn_down(p), 5.0):
        res.violate("c09-state", "not NOT_CONNECTED / not torn down after disable() from the handler", case, "NOT_CONNECTED", diag(p))
    peer.close()
    refuse[0] = False
    if not call_bounded(p.enable, 5):
        res.violate("c09-enable-hang", "enable() after the disable() from the handler did not return within 5 s", case)
        return
    peer2 = connect_peer(port, tries=80)
    if peer2 is None:
        res.violate("c09-no-reconnect", "after disable() from a handler and enable(): no new connection is accepted", case)
    else:
        ok, got = select_on(peer2, p, 4747)
        if not ok:
            res.violate("c09-reselect", "after disable() from a handler and enable(): the new connection does not select", case,
                        "Select.rsp(4747)", [(b.header.s_type.value, b.header.system) for b in got])
        peer2.close()
        M.wait_until(lambda: p.connection_state.current == ConnectionState.NOT_CONNECTED and torn_down(p), 8.0)
    if not call_bounded(p.disable, 8):
        res.violate("c09-disable-hang", "final disable() did not return within 8 s", case, "returns", diag(p))


def tcp_part(res, rng, drv, big):
    f13_witness(res, drv)
    disable_in_handler_case(res)
    # the active side loses an ESTABLISHED connection (peer cut mid-frame) and has to connect and select again after T5
    tcp_active_case(res, LINKTEST_REQ(31) + DATA(32, 1, 13, True, b"\x01\x02\x03"), 7, 1)
    early_close_witness(res, drv)
    abortive_close_case(res, False)
    abortive_close_case(res, True)
    overlap_witness(res, drv)
    idle_server_witness(res, drv)
    relisten_case(res, True)
    relisten_case(res, False)
    idle_cycle_case(res, False)
    idle_cycle_case(res, True)
    if not big:
        return
    stream = LINKTEST_REQ(31) + DATA(32, 1, 13, True, b"\x01\x02\x03") + LINKTEST_RSP(33)
    offs = sorted({0, 2, 7, 13, 14, 16, 20, 31, len(stream)} | {rng.range(0, len(stream)) for _ in range(4)})
    for i, off in enumerate(offs):
        tcp_passive_case(res, stream, off, i)
    for i, off in enumerate(offs[::2]):
        tcp_active_case(res, stream, off, i)
    # disable() with nothing connected, and right after a connection came and went, must return
    for mode in (secsgem.hsms.HsmsConnectMode.PASSIVE, secsgem.hsms.HsmsConnectMode.ACTIVE):
        port = free_port()
        p = secsgem.hsms.HsmsProtocol(secsgem.hsms.HsmsSettings(address="127.0.0.1", port=port, connect_mode=mode, t5=1))
        p.enable()
        time.sleep(0.7)
        case = {"kind": "tcp-idle-disable", "mode": str(mode)}
        if not call_bounded(p.disable, 8):
            res.violate("c09-disable-hang", "disable() did not return within 8 s with no connection (server selecting / client idling between attempts)", case)
        res.count(("tcp-idle-disable", str(mode)))
        res.bump("tcp_cases", "idle-disable")


def replay_cases(res, violations):
    for v in violations:
        case = v.get("case") or {}
        if case.get("kind") == "cut":
            cut_scenario(res, bytes.fromhex(case["pre"]), bytes.fromhex(case["stream"]), case["offset"], case["state"], case.get("quiescent", True))
            res.count(("replay", case["stream"], case["offset"]))


def main():
    a = hlib.std_args()
    recorded = M.apply_replay(a)
    res = hlib.Result("C09", a.tier, a.seed)
    rng = hlib.Rng(a.seed ^ 0xC09)
    drv = M.Driver()
    big = a.tier == "thorough" or a.search
    res.rule = ("in-memory connection, real threads: every byte offset of two streams of control+data frames (session not selected / selected), "
                "cut, close (3 s watchdog), NOT_CONNECTED + empty buffer, reconnect, Select.req -> Select.rsp + SELECTED, each also replayed on the "
                "thread-level model; the same with the close racing the threads; random valid streams cut at a random offset; witnesses of the "
                "recorded findings; thorough: real TcpServerConnection/TcpClientConnection on loopback, raw peer cuts and closes, enable/disable "
                "bounded. distinct = distinct (state, stream, offset); every case is non-trivial")
    # `--replay`: a replay re-runs the recorded cases and the deterministic sweep; the parts that (can) show the open finding
    # c09-stale-reply-next-connection and the corpus witnesses of repaired findings run only if the replay file is about one of them
    known = {"c09-relisten-bind-race", "c09-relisten-overlaps-teardown", "c09-tcp-disable-hang", "c09-tcp-server-idle-disable-hang", "c09-send-failure-strands-queue", "c09-stale-reply-next-connection"}
    rec_classes = {v.get("class") for v in recorded}
    replaying = a.replay is not None
    if recorded:
        replay_cases(res, recorded)
    racing = not replaying or "c09-stale-reply-next-connection" in rec_classes or any(not (v.get("case") or {}).get("quiescent", True) for v in recorded)
    M.guarded(res, "in-memory", lambda: inmemory_part(res, rng.fork("mem"), drv, big, racing))
    M.guarded(res, "active mode", lambda: active_part(res, rng.fork("active"), big))
    if not replaying or "c09-send-failure-strands-queue" in rec_classes:
        M.guarded(res, "witness send failure", lambda: witness_send_failure(res, drv))
    if not replaying or "c09-stale-reply-next-connection" in rec_classes:
        M.guarded(res, "witness stale reply", lambda: witness_stale_reply(res, drv))
    if not replaying or rec_classes & {"c09-relisten-bind-race", "c09-relisten-overlaps-teardown", "c09-tcp-disable-hang", "c09-tcp-server-idle-disable-hang", "c09-disable-hang", "c09-enable-hang", "c09-no-listen", "c09-no-reconnect", "c09-no-connect", "c09-reselect", "c09-state", "c09-no-linktest-rsp", "c09-no-select-req", "c09-close-hang"} \
            or any((v.get("case") or {}).get("kind", "").startswith("tcp") for v in recorded):
        M.guarded(res, "tcp", lambda: tcp_part(res, rng.fork("tcp"), drv, big))
    if replaying:
        res.notes.append("replay run: parts that only show recorded findings are left out unless the replay file is about them: " + ", ".join(sorted(known)))
    res.notes.append("a hang is 'no completion within the stated bound' (3 s close sequence, 4-8 s disable); fairness of the OS scheduler is assumed")
    res.dump(a.out)
    sys.stdout.flush()
    os._exit(0)


if __name__ == "__main__":
    main()
