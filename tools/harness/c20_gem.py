"""C20 (part c) — remote commands and the host side of event reports / alarms on a REAL GemHostHandler + REAL
GemEquipmentHandler pair (tools/pairlib.Pipe), compared with the Lean models (`gemc20 rcmd`, `gemc20 pair`, `gemtab run`)
and with a direct oracle taken from the property text.  Entry point for tools/harness/c20.py:

    import c20_gem
    c20_gem.run(res, rng, drv, a.tier)
"""
from __future__ import annotations

import collections
import os
import sys
import threading
import time

sys.path.insert(0, os.path.dirname(os.path.dirname(os.path.abspath(__file__))))
sys.path.insert(0, os.path.dirname(os.path.abspath(__file__)))
import hlib  # noqa: E402
import pairlib  # noqa: E402
import gemlib  # noqa: E402
from gemlib import V, cid, hexs, parse_id  # noqa: E402

import secsgem.common  # noqa: E402
import secsgem.gem  # noqa: E402
import secsgem.hsms  # noqa: E402
import secsgem.gem.collection_event_capability as cec  # noqa: E402

BOUND = 90.0     # reaching COMMUNICATING
CALL = 90.0      # one host / equipment API call; an expiry is a RuntimeError (check broken), never an observation
T = lambda s: "t" + hexs(s)  # noqa: E731

EVCFG = ("C" + ",".join(["n1", "n2", "n3", "n20", "n21", "n100", "n101", "n102", "n5001", "n5002", "n5003"])
         + ";S" + ",".join(f"n{k}:c" for k in (1001, 1002, 1004, 1005, 10)) + ",n1003:e;Dn30,n31")
RCMDS = {"GO": (["P1", "P2"], 5001), "BOOM": (["P1"], 5001), "NOCB": (["P1"], 5001), "START": ([], 20), "STOP": ([], 21)}
CALLBACKS = ["GO", "BOOM", "START", "STOP"]
RAISING = ["BOOM"]


def cval(x) -> str:
    if isinstance(x, bool):
        return "n" + str(int(x))
    if isinstance(x, int):
        return "n" + str(x)
    if isinstance(x, str):
        return T(x)
    if isinstance(x, float):
        return gemlib.cfloat(x)
    if isinstance(x, (list, tuple)):
        return "n" + ".".join(str(int(v)) for v in x)
    raise ValueError(repr(x))


def plain(v):
    return v.get() if hasattr(v, "get") and not isinstance(v, dict) else v


def bounded(fn, bound=CALL):
    out = {}

    def go():
        try:
            out["v"] = fn()
        except BaseException as exc:  # noqa: BLE001
            out["e"] = exc
    t = threading.Thread(target=go, daemon=True)
    t.start()
    t.join(bound)
    if t.is_alive():
        raise RuntimeError(f"c20_gem: a call did not return within {bound} s")
    return ("raised", out["e"]) if "e" in out else ("ok", out.get("v"))


class Eq(secsgem.gem.GemEquipmentHandler):
    """the library's equipment handler; what it sends as a reply, which callbacks run and which events it triggers is logged"""

    def __init__(self, settings):
        super().__init__(settings, initial_control_state="HOST_OFFLINE")
        self.log = []
        self.done41 = threading.Event()
        self.status_variables[10] = secsgem.gem.StatusVariable(10, "sv10", "m", V.U4, use_callback=False)
        self.data_values[30] = secsgem.gem.DataValue(30, "dv30", V.U4, False)
        self.data_values[31] = secsgem.gem.DataValue(31, "dv31", V.String, False)
        for c in (100, 101, 102, 5001, 5002, 5003):
            self.collection_events[c] = secsgem.gem.CollectionEvent(c, f"ce{c}", [])
        self.alarms[40] = secsgem.gem.Alarm(40, "al40", "alarm forty", 1, 5002, 5003)
        self.alarms[41] = secsgem.gem.Alarm(41, "al41", "alarm forty-one", 2, 5002, 5003)
        for name, (params, ce) in RCMDS.items():
            if name not in ("START", "STOP"):
                self.remote_commands[name] = secsgem.gem.RemoteCommand(name, name.lower(), params, ce)
        self.callbacks.rcmd_GO = lambda **kw: self.log.append("c" + hexs("GO") + "(" + ",".join(f"{T(k)}={cval(v)}" for k, v in kw.items()) + ")")
        self.callbacks.rcmd_BOOM = self._boom

    def _boom(self, **kw):
        self.log.append("c" + hexs("BOOM") + "(" + ",".join(f"{T(k)}={cval(v)}" for k, v in kw.items()) + ")")
        raise RuntimeError("remote command failed")

    def _on_rcmd_START(self, **kw):  # noqa: N802
        self.log.append("c" + hexs("START") + "()")

    def _on_rcmd_STOP(self, **kw):  # noqa: N802
        self.log.append("c" + hexs("STOP") + "()")

    def send_response(self, function, system):
        if (function.stream, function.function) == (2, 42):
            self.log.append("r" + str(function.HCACK.get()))
        elif function.function == 0:
            self.log.append("x")
        elif (function.stream, function.function) in ((2, 34), (2, 36), (2, 38)):
            self.log.append("k" + str(function.get()))
        return super().send_response(function, system)

    def trigger_collection_events(self, ceids):
        self.log.append("t" + ",".join(cid(c) for c in ceids))
        return super().trigger_collection_events(ceids)

    def _handle_stream_function(self, message):
        """as the library's; tells the harness when the handling of an S2F41 is completely over (the S2F42 leaves BEFORE the
        callback runs, an S2F0 after it)"""
        try:
            super()._handle_stream_function(message)
        finally:
            if (message.header.stream, message.header.function) == (2, 41):
                self.done41.set()


class Rig:
    def __init__(self):
        mk = secsgem.hsms.HsmsConnectMode

        class HS(secsgem.hsms.HsmsSettings):
            def create_connection(self):
                self.conn = pairlib.Pipe(self, "host")
                return self.conn

        class ES(secsgem.hsms.HsmsSettings):
            def create_connection(self):
                self.conn = pairlib.Pipe(self, "equip")
                return self.conn

        hs = HS(connect_mode=mk.ACTIVE, device_type=secsgem.common.DeviceType.HOST, t3=45, t6=45, establish_communication_timeout=1)
        es = ES(connect_mode=mk.PASSIVE, device_type=secsgem.common.DeviceType.EQUIPMENT, t3=45, t6=45, establish_communication_timeout=1)
        self.host = secsgem.gem.GemHostHandler(hs)
        self.eq = Eq(es)
        self.hc, self.ec = self.host.protocol._connection, self.eq.protocol._connection  # pylint: disable=protected-access
        self.hc.peer, self.ec.peer = self.ec, self.hc
        for p in (self.host.protocol, self.eq.protocol):
            p._linktest_timeout = 10 ** 6  # pylint: disable=protected-access
        self.stop = threading.Event()
        threading.Thread(target=pairlib.retry_loop, args=(self.hc, self.ec, self.stop), daemon=True).start()
        self.hlog = []
        self.lock = threading.Lock()
        self.host.events.collection_event_received += self._on_ce
        self.host.events.alarm_received += self._on_alarm
        orig = self.host.send_response

        def send_response(function, system):
            with self.lock:
                if (function.stream, function.function) == (6, 12):
                    self.hlog.append("ok")
                elif (function.stream, function.function) == (5, 2):
                    self.hlog.append("ok" + str(function.get()))
                elif function.function == 0:
                    self.hlog.append("x")
            return orig(function, system)
        self.host.send_response = send_response
        self.eq.enable()
        self.host.enable()
        t0 = time.time()
        ok = self.host.waitfor_communicating(BOUND) and self.eq.waitfor_communicating(max(0.01, BOUND - (time.time() - t0)))
        if not ok:
            raise RuntimeError("c20_gem: the pair did not reach COMMUNICATING")

    def _on_ce(self, d):
        with self.lock:
            self.hlog.append("e" + cid(plain(d["ceid"])) + "/" + cid(plain(d["rptid"])) + "("
                             + ",".join(cid(x["dvid"]) + "=" + cval(plain(x["value"])) for x in d["values"]) + ")")

    def _on_alarm(self, d):
        with self.lock:
            self.hlog.append(f"al{plain(d['code'])}~{cid(plain(d['alid']))}~{hexs(plain(d['text']))}")

    def take_host(self):
        with self.lock:
            out, self.hlog[:] = list(self.hlog), []
        return out

    def close(self):
        self.stop.set()
        for h in (self.host, self.eq):
            bounded(h.disable, 5)


# ---------------------------------------------------------------------------------------------- A. remote commands
def rcmd_section(res, rng, drv, rig, n):
    host, eq = rig.host, rig.eq
    prefix = ("gemc20 rcmd C" + ";".join(f"{hexs(k)}~{','.join(T(p) for p in ps)}~n{ce}" for k, (ps, ce) in RCMDS.items())
              + " B" + ",".join(hexs(k) for k in CALLBACKS) + " R" + ",".join(hexs(k) for k in RAISING))
    lines, impls, cases = [], [], []
    for i in range(n):
        name = rng.choice(["GO", "GO", "GO", "BOOM", "NOCB", "START", "NOPE", 5])
        k = rng.choice([0, 1, 1, 2, 3])
        names = [rng.choice(["P1", "P1", "P2", "PX", 7] if rng.chance(1, 3) else RCMDS.get(name, (["P1"], 0))[0] or ["P1"]) for _ in range(k)]
        params = [(nm, rng.choice([1, 77, "v", "xyz", 300])) for nm in names]
        as_odict = rng.chance(1, 3) and len({p[0] for p in params}) == len(params)
        eq.log[:] = []
        gemlib_threads.join_all()
        eq.done41.clear()
        if isinstance(name, int):
            fn = host.stream_function(2, 41)({"RCMD": V.U1(name), "PARAMS": [{"CPNAME": a, "CPVAL": b} for a, b in params]})
            st, ans = bounded(lambda: host.settings.streams_functions.decode(host.send_and_waitfor_response(fn)))
        else:
            arg = collections.OrderedDict(params) if as_odict else [list(p) for p in params]
            st, ans = bounded(lambda: host.send_remote_command(name, arg))
        if not eq.done41.wait(CALL):     # the S2F42 leaves before the callback runs: wait for the END of the handling, not for a while
            raise RuntimeError("c20_gem: the equipment did not finish handling an S2F41")
        errs = gemlib_threads.join_all()
        effs = [e for e in eq.log if not e.startswith("k")]
        got = ";".join(effs)
        case = {"rcmd": name, "params": params, "odict": as_odict}
        res.count(("rcmd", name, tuple(params), as_odict), sample=dict(case, effects=got) if i < 2 else None)
        res.bump("c20c_rcmd", str(name) + ":" + (effs[0] if effs else "none"))
        # ---- direct oracle (the property's table)
        if isinstance(name, int):
            want_h = None
        elif name not in RCMDS or name not in CALLBACKS:
            want_h = 1
        elif any(p[0] not in RCMDS[name][0] for p in params):
            want_h = 3
        else:
            want_h = 4
        replies = [e for e in effs if e.startswith("r")]
        calls = [e for e in effs if e.startswith("c")]
        if want_h is not None:
            ret = plain(ans.HCACK) if st == "ok" and ans is not None and hasattr(ans, "HCACK") else None
            if replies != [f"r{want_h}"] or effs[:1] != [f"r{want_h}"]:
                res.violate("c20c-rcmd-reply", f"remote command {name!r}: S2F42 replies sent {replies}, the table assigns exactly one with HCACK {want_h}", case, f"r{want_h}", got)
            elif ret != want_h:
                res.violate("c20c-rcmd-return", f"send_remote_command({name!r}) returned HCACK {ret!r}, the equipment answered {want_h}", case, want_h, ret)
            kw = {}
            for a, b in params:
                kw[a] = b
            want_call = "c" + hexs(name) + "(" + ",".join(f"{cid(a)}={cval(b)}" for a, b in kw.items()) + ")"
            if (want_h == 4) != (len(calls) == 1) or (calls and calls != [want_call]):
                res.violate("c20c-rcmd-callback", f"remote command {name!r}: callback invocations {calls}, expected {[want_call] if want_h == 4 else []}", case, want_call, calls)
            if want_h == 4 and name not in RAISING and effs[-1:] != [f"tn{RCMDS[name][1]}"]:
                res.violate("c20c-rcmd-finished", f"remote command {name!r}: the finished event {RCMDS[name][1]} was not triggered after the callback", case, None, got)
        if errs:
            res.violate("c20c-rcmd-thread", "the event sender thread died after a remote command", case)
        rcmd_tok = "#" if isinstance(name, int) else "t" + hexs(name)
        lines.append(f"{prefix} {rcmd_tok} P" + ",".join(f"{cid(a)}={cval(b)}" for a, b in params))
        impls.append("ok " + got)
        cases.append(case)
    hlib.compare_batch(res, drv, "S2F41 handling: Model.Gem.Rcmd vs GemEquipmentHandler (real pair)", cases, lines, impls)


# ---------------------------------------------------------------------------------------------- B. subscriptions and events
CEIDS = ["n100", "n101", "n102", "n99", "n5001"]
VIDS = ["n10", "n30", "n31", "n99"]


PAIR_PREFIX = ["Vn10=n0", "Wn30=n0", "Wn31=t"]      # the initial cell values, told to the model


def gen_pair_op(rng, clean, subs):
    k = rng.below(100)
    if k < 30:
        c = rng.choice(CEIDS[:3]) if clean else rng.choice(CEIDS)
        dvs = [rng.choice(VIDS[:3] if clean else VIDS) for _ in range(rng.choice([1, 1, 2, 3]) if clean else rng.choice([0, 1, 2, 3]))]
        if clean:
            free = [r for r in ("n5", "n7", "n0") if r not in ["n" + str(s_[2]) for s_ in subs]]
            if free and rng.chance(1, 3):        # an explicit report id the equipment does not hold at the moment
                return "X" + rng.choice(free) + ":" + c + "=" + ",".join(dvs)
        elif rng.chance(1, 4):
            return "X" + rng.choice(["n5", "n1000", "n5", "n0"]) + ":" + c + "=" + ",".join(dvs)
        return "U" + c + "=" + ",".join(dvs)
    if k < 34:
        return "C"
    if k < 40:
        return "D"          # host.disable_ceid_reports(): S2F33 delete-all, report_subscriptions untouched
    if k < 44:
        return "N"          # host.disable_ceids(): S2F37 (False, [])
    if k < 78:
        pool = [s_[0] for s_ in subs] * 3 + CEIDS
        return "T" + ",".join(rng.choice(pool) for _ in range(rng.choice([1, 1, 2, 3, 4])))
    j = rng.below(3)
    if j == 0:
        return "Vn10=n" + str(rng.range(0, 9))
    if j == 1:
        return "Wn30=n" + str(rng.range(0, 999))
    return "Wn31=" + T(rng.choice(["", "a", "xyz"]))


def pair_dump(rig):
    h, host = rig.eq, rig.host
    reps = ";".join(cid(plain(k)) + "=" + ",".join(cid(plain(v)) for v in rep.vars) for k, rep in h.registered_reports.items())
    links = ";".join(cid(k) + "=" + ",".join(cid(r) for r in ln.reports) + ":" + ("1" if ln.enabled else "0")
                     for k, ln in h.registered_collection_events.items())
    subs = ";".join(cid(k) + "=" + ",".join(cid(v) for v in dvs) for k, dvs in host.report_subscriptions.items())
    return f"{reps}@{links}@{subs}|{host._report_id_counter}"  # pylint: disable=protected-access


def pair_history(rig, ops, gen=None, clean=False):
    """-> (answers, oracle violation or None).  Resets the pair first (through the host's own clear call).
    `clean`: every subscription of the history is one the equipment must accept (known CEID, known non-empty dvs, a report id it
    does not hold): the direct oracle then demands that it IS accepted and that every trigger of an enabled subscribed event
    reaches the host application exactly once."""
    clean = clean or (gen is not None and gen[2])
    host, eq = rig.host, rig.eq
    bounded(host.clear_collection_events)
    host._report_id_counter = 1000  # pylint: disable=protected-access
    eq.status_variables[10].value, eq.data_values[30].value, eq.data_values[31].value = 0, 0, ""
    values = {"n10": "n0", "n30": "n0", "n31": "t"}
    subs = []          # the harness's own record of the subscriptions the equipment holds: (ceid, dvs, report id)
    enabled = {}       # ceid -> enabled, by the same record
    next_rid = 1000
    answers, bad, i = [], None, 0
    while True:
        if gen is not None and i >= len(ops):
            if i >= gen[1]:
                break
            ops.append(gen_pair_op(gen[0], gen[2], subs))
        if i >= len(ops):
            break
        op = ops[i]
        eq.log[:] = []
        rig.take_host()
        gemlib_threads.join_all()
        out = "-"
        if op[0] in "UX":
            body = op[1:]
            rid = None
            if op[0] == "X":
                rid_s, body = body.split(":")
                rid = parse_id(rid_s)[1][0]
            c, dvs = body.split("=")
            dv_list = [parse_id(x)[1][0] for x in dvs.split(",")] if dvs else []
            st, _ = bounded(lambda: host.subscribe_collection_event(parse_id(c)[1][0], dv_list, rid))
            acks = [e for e in eq.log if e.startswith("k") or e == "x"]
            out = "k" + ",".join(("x" if e == "x" else e[1:]) for e in acks)
            if op[0] == "X" and out == "k0,0,0" and bad is None and \
                    (rid not in [plain(k) for k in eq.registered_reports] or rid not in [plain(k) for k in host.report_subscriptions]):
                bad = (i, "c20c-explicit-report-id", f"{op}: all three requests accepted, but report {rid} asked for by the application is not "
                       f"the one defined (equipment reports {[plain(k) for k in eq.registered_reports]}, host subscriptions {list(host.report_subscriptions)})")
            the_rid = next_rid if op[0] == "U" else rid
            if clean:
                if out != "k0,0,0" and bad is None:
                    bad = (i, "c20c-subscribe-refused", f"{op}: a subscription the equipment has to accept (known event, known variables, report id "
                           f"{the_rid} not defined there) was answered {out}: the event will never reach the host")
                subs.append((c, dvs.split(","), the_rid))
                enabled[c] = True
            elif op[0] == "U" and out == "k0,0,0":
                subs.append((c, dvs.split(","), the_rid))
                enabled[c] = True
            if op[0] == "U":
                next_rid += 1
        elif op == "C":
            bounded(host.clear_collection_events)
            acks = [e for e in eq.log if e.startswith("k") or e == "x"]
            out = "k" + ",".join(("x" if e == "x" else e[1:]) for e in acks)
            subs.clear()
            enabled.clear()
        elif op in ("D", "N"):
            bounded(host.disable_ceid_reports if op == "D" else host.disable_ceids)
            acks = [e for e in eq.log if e.startswith("k") or e == "x"]
            out = "k" + ",".join(("x" if e == "x" else e[1:]) for e in acks)
            if op == "D":
                subs.clear()
                enabled.clear()
            else:
                for c_ in enabled:
                    enabled[c_] = False
        elif op[0] == "T":
            ids = [parse_id(x)[1][0] for x in op[1:].split(",")]
            eq.trigger_collection_events(ids)
            errs = gemlib_threads.join_all()
            got = rig.take_host()
            msgs, cur = [], []
            for e in got:
                cur.append(e)
                if e in ("ok", "x"):
                    msgs.append(";".join(cur))
                    cur = []
            if cur:
                msgs.append(";".join(cur))
            out = ("|".join(msgs) if msgs else ("-" if not errs else "")) + ("!" if errs else "")
            if clean and bad is None:
                want = []
                for c in op[1:].split(","):
                    mine = [s_ for s_ in subs if s_[0] == c] if enabled.get(c) else []
                    if mine:
                        want.append(";".join(f"e{c}/n{rid}(" + ",".join(f"{d}={values[d]}" for d in dvl) + ")" for _, dvl, rid in mine) + ";ok")
                want = "|".join(want) if want else "-"
                if out != want:
                    bad = (i, "c20c-event-delivery", f"{op}: the host application saw {out}; every enabled subscribed event of the call exactly once would be {want}")
        elif op[0] in "VW":
            k, v = op[1:].split("=")
            values[k] = v
            if k == "n10":
                eq.status_variables[10].value = int(v[1:])
            elif k == "n30":
                eq.data_values[30].value = int(v[1:])
            else:
                eq.data_values[31].value = bytes.fromhex(v[1:]).decode("latin-1")
        answers.append(out + "@" + pair_dump(rig))
        i += 1
    return answers, bad


def pair_section(res, rng, drv, rig, n_hist, max_len):
    lines, impls, cases = [], [], []
    corpus = [["Un100=n30,n10", "Un101=n10", "Wn30=n99", "Tn101,n7,n100", "Xn5:n100=n30", "Tn100", "C", "Tn100"],
              ["Xn5:n100=n30,n10", "Xn5:n101=n30,n10,n10", "Tn100", "Tn101"],          # the explicit-id witness: S6F0 from the host
              ["Xn0:n100=n30", "Tn100", "Un101=n10", "Xn0:n101=n30", "Tn101,n100"],       # a falsy explicit id is an explicit id
              ["Un100=n99", "Un99=n10", "Un102=", "Tn100,n99,n102", "Un100=n10", "Un100=n30,n31", "Tn100,n100"]]
    todo = [(ops, None, False) for ops in corpus]
    # subscribe again under the same explicit report id after the reports were deleted on the equipment; disable / re-enable
    todo += [(ops, None, True) for ops in (
        ["Xn5:n100=n30", "Tn100", "D", "Tn100", "Xn5:n100=n30", "Tn100", "N", "Tn100", "Un100=n10", "Tn100,n100"],
        ["Un100=n30,n10", "Un101=n10", "N", "Tn100,n101", "Un101=n31", "Tn101,n100", "D", "Un100=n30,n10", "Tn100"])]
    for i in range(n_hist):
        clean = not rng.chance(1, 3)
        todo.append(([], (rng.fork(f"p{i}"), rng.range(3, max_len), clean), clean))
    for ops, gen, cl in todo:
        ans, bad = pair_history(rig, ops, gen, cl)
        res.count(("pair", tuple(ops)), nontrivial=any("e" == a[:1] for a in ans), sample={"ops": ops[:8]} if len(res.samples) < 6 else None)
        for o, a in zip(ops, ans):
            res.bump("c20c_pair", o[0] + ":" + ("events" if a[:1] == "e" else a.split("@")[0][:7]))
        res.evaluations += max(0, len(ops) - 1)
        if bad is not None:
            res.violate(bad[1], bad[2], {"ops": ops[: bad[0] + 1]})
        lines.append("gemc20 pair " + EVCFG + " " + " ".join(PAIR_PREFIX + ops))
        impls.append("ok " + " ".join(["-@@@|1000"] * len(PAIR_PREFIX) + ans))
        cases.append({"ops": ops})
    hlib.compare_batch(res, drv, "subscribe/trigger histories: Model.Gem.Host pair vs real host + equipment", cases, lines, impls)


# ---------------------------------------------------------------------------------------------- C. alarms
def alarm_section(res, rng, drv, rig, n_hist, max_len):
    host, eq = rig.host, rig.eq
    prefix = ("gemtab run X0;K,,;C3;E;T1;F1 S E A" + ";".join(f"n{k}~{a.code}~{hexs(a.text)}~0~0" for k, a in eq.alarms.items()))
    lines, impls, cases = [], [], []
    for h in range(n_hist):
        for a in eq.alarms.values():
            a.enabled = a.set = False
        ref = {k: [False, False] for k in eq.alarms}
        ops, ans = [], []
        for _ in range(rng.range(3, max_len)):
            k = rng.choice([40, 40, 41])
            j = rng.below(10)
            rig.take_host()
            if j < 3:
                en = rng.chance(2, 3)
                st, v = bounded(lambda: (host.enable_alarm if en else host.disable_alarm)(k))
                ops.append(f"A3:{128 if en else 0}:n{k}")
                out = "a" + str(plain(v)) if st == "ok" else st
                ref[k][0] = en
                want = "a0"
            else:
                setit = j < 7
                st, _ = bounded(lambda: (eq.set_alarm if setit else eq.clear_alarm)(k))
                gemlib_threads.join_all()
                got = rig.take_host()
                ops.append(("AS:" if setit else "AC:") + f"n{k}")
                rows = [e[2:] for e in got if e.startswith("al")]
                out = "e[" + ";".join(rows) + "]"
                al = eq.alarms[k]
                want = "e[" + (f"{al.code | (128 if setit else 0)}~n{k}~{hexs(al.text)}" if ref[k][0] and ref[k][1] != setit else "") + "]"
                ref[k][1] = setit
                if [e for e in got if not e.startswith("al")] != ["ok0"] * len(rows):
                    res.violate("c20c-alarm-ack", f"{ops[-1]}: host replies {got} do not answer each S5F1 with S5F2", {"ops": list(ops)})
            if out != want:
                res.violate("c20c-alarm-delivery", f"{ops[-1]}: the host application saw {out}, the alarm changes that are to be reported are {want}", {"ops": list(ops)}, want, out)
            flags = ";".join(f"n{kk}=" + ("1" if a.enabled else "0") + ("1" if a.set else "0") for kk, a in eq.alarms.items())
            ans.append(f"{out}@|1|1@{flags}")
            res.bump("c20c_alarm", ops[-1].split(":")[0] + ":" + ("report" if out.startswith("e[") and out != "e[]" else out[:3]))
        res.count(("alarm", tuple(ops)), sample={"ops": ops[:8]} if h < 1 else None)
        res.evaluations += len(ops) - 1
        lines.append(prefix + " " + " ".join(ops))
        impls.append("ok " + " ".join(ans))
        cases.append({"ops": ops})
    hlib.compare_batch(res, drv, "alarm reports reaching the host: Model.Gem.Tab + host vs real pair", cases, lines, impls)


gemlib_threads = gemlib.RecordingThreads()


def run(res, rng, drv, tier):
    """drive one real host/equipment pair through remote-command, subscribe/trigger and alarm histories"""
    cec.threading = gemlib_threads
    big = tier == "thorough"
    rng = rng.fork("c20c")
    try:
        rig = Rig()
    except RuntimeError as exc:
        res.notes.append(f"c20_gem skipped: {exc}")
        return
    try:
        # isolation, structural: a second host / equipment object of the same process shares no table with the pair under test
        other_host = secsgem.gem.GemHostHandler(secsgem.hsms.HsmsSettings(device_type=secsgem.common.DeviceType.HOST))
        other_eq = Eq(secsgem.hsms.HsmsSettings(device_type=secsgem.common.DeviceType.EQUIPMENT))
        for what, a_, b_ in (("GemHostHandler", rig.host, other_host), ("GemEquipmentHandler", rig.eq, other_eq)):
            shared = gemlib.shared_tables(a_, b_)
            if shared:
                res.violate("shared-mutable-table", f"two {what} instances of one process share the table object(s) {shared}", {"attributes": shared})
        rcmd_section(res, rng, drv, rig, 200 if big else 60)
        pair_section(res, rng, drv, rig, 150 if big else 40, 14 if big else 9)
        alarm_section(res, rng, drv, rig, 60 if big else 15, 12)
        res.notes.append("c20_gem: remote commands, subscribe/trigger and alarm histories on one real host+equipment pair over pairlib.Pipe; "
                         "compared with gemc20/gemtab driver lines and a direct oracle (table of HCACKs; each enabled subscribed event once, values in dv order)")
    finally:
        rig.close()
        cec.threading = threading


if __name__ == "__main__":
    a = hlib.std_args()
    r = hlib.Result("C20", a.tier, a.seed)
    run(r, hlib.Rng(a.seed ^ 0xC20), gemlib.private_driver(), a.tier)
    r.dump(a.out)
    sys.stdout.flush()
    os._exit(0)
