"""C03 — every catalogued stream/function round-trips and is found by its S/F numbers; pairing/flags agree with partner and YAML.

Direct oracle (O) on the real classes:
  * for every catalogue entry, values generated from its structure (type-directed from the live variable tree: every alternative type of
    every dynamic item at least once per run, list lengths 0,1,2,n, length-limited items at their limit): `cls(value)`, `encode()`,
    `StreamsFunctions.decode(HsmsMessage(HsmsStreamFunctionHeader(system, s, f, w, 0), body))` — looked up by the header's numbers
    only — must give an object of the same class whose `get()` equals the original's (binary32 rounding applied to F4 leaves);
  * plain Python values (dict / positional list / scalars / lists of scalars) given to the constructor are read back unchanged
    under the library's own equality (a one-element numeric / boolean / binary value reads back as the scalar);
  * lookup by (stream, function): every catalogued pair gives its class, every other pair `None` (exhaustive for streams 0..20);
  * pairing / reply flags / directions on the live classes, on their instances (what the protocol layers read) and on functions.yaml.
Correspondence (C): Gen.Catalogue rows vs live class attributes; `Model.Catalogue.function` (driver `cat lookup`) vs `StreamsFunctions.function`.
"""
from __future__ import annotations

import json
import math
import os
import struct
import sys

sys.path.insert(0, os.path.dirname(os.path.dirname(os.path.abspath(__file__))))
import hlib  # noqa: E402

import secsgem.hsms  # noqa: E402
import secsgem.secs.functions as fmod  # noqa: E402
import secsgem.secs.variables as V  # noqa: E402
from secsgem.secs.functions import StreamsFunctions  # noqa: E402
from secsgem.secs.functions._all import secs_streams_functions  # noqa: E402
from secsgem.secs.variables import functions as vfunctions  # noqa: E402
from secsgem.secs.variables.dynamic import ANYVALUE  # noqa: E402

S2F49_CLASS = "c03-s2f49-reply-flags"
PLAIN_LIST_CLASS = "c03-plain-list-for-list-capable-item"
PLAIN_ROUND_CLASS = "c03-plain-int-list-rounded-to-float"

INT_TYPES = {"U1": V.U1, "U2": V.U2, "U4": V.U4, "U8": V.U8, "I1": V.I1, "I2": V.I2, "I4": V.I4, "I8": V.I8}
FLT_MAX = struct.unpack(">f", bytes.fromhex("7f7fffff"))[0]


def f32(x: float) -> float:
    return struct.unpack(">f", struct.pack(">f", x))[0]


def canon(v):
    """JSON-able canonical form of a get() result (floats as IEEE hex, bytes as hex)"""
    if isinstance(v, bool):
        return {"b": v}
    if isinstance(v, int):
        return v
    if isinstance(v, float):
        return {"f": struct.pack(">d", v).hex()}
    if isinstance(v, (bytes, bytearray)):
        return {"x": bytes(v).hex()}
    if isinstance(v, str):
        return v
    if isinstance(v, dict):
        return {"d": [[k, canon(x)] for k, x in v.items()]}
    if isinstance(v, (list, tuple)):
        return [canon(x) for x in v]
    if v is None:
        return None
    return {"?": repr(v)}


def same(a, b) -> bool:
    """the library's own value equality, structurally (bool and int kept apart, floats bitwise)"""
    return json.dumps(canon(a), sort_keys=False) == json.dumps(canon(b), sort_keys=False)


def py_equal(a, b) -> bool:
    """the library's own equality on read-back values: Python `==` leaf by leaf (1 == True, 2 == 2.0, exact int/float comparison)"""
    if isinstance(a, dict) or isinstance(b, dict):
        return isinstance(a, dict) and isinstance(b, dict) and list(a) == list(b) and all(py_equal(a[k], b[k]) for k in a)
    if isinstance(a, (list, tuple)) or isinstance(b, (list, tuple)):
        return isinstance(a, (list, tuple)) and isinstance(b, (list, tuple)) and len(a) == len(b) and all(py_equal(x, y) for x, y in zip(a, b))
    if isinstance(a, (bytes, bytearray)) or isinstance(b, (bytes, bytearray)):
        return isinstance(a, (bytes, bytearray)) and isinstance(b, (bytes, bytearray)) and bytes(a) == bytes(b)
    return a == b


def leaf_diffs(a, b):
    if isinstance(a, dict) and isinstance(b, dict) and list(a) == list(b):
        return [d for k in a for d in leaf_diffs(a[k], b[k])]
    if isinstance(a, (list, tuple)) and isinstance(b, (list, tuple)) and len(a) == len(b):
        return [d for x, y in zip(a, b) for d in leaf_diffs(x, y)]
    return [] if py_equal(a, b) else [(a, b)]


def only_rounded_ints(want, got) -> bool:
    """every differing leaf is an integer beyond 2**53 that came back as a different float"""
    ds = leaf_diffs(want, got)
    return bool(ds) and all(isinstance(x, int) and not isinstance(x, bool) and isinstance(y, float) and abs(x) > 2 ** 53 for x, y in ds)


def expected_after_wire(node):
    """get() of the original object with binary32 rounding applied to F4 leaves (what the wire can carry)"""
    if isinstance(node, V.List):
        return {k: expected_after_wire(x) for k, x in node.data.items()}
    if isinstance(node, V.Array):
        return [expected_after_wire(x) for x in node.data]
    if isinstance(node, V.Dynamic):
        return expected_after_wire(node.value) if node.value is not None else None
    if isinstance(node, V.F4):
        vals = [f32(x) for x in node.value]
        return vals[0] if len(vals) == 1 else vals
    return node.get()


# ------------------------------------------------------------------------------------------------ value generation
class ValueGen:
    def __init__(self, rng: hlib.Rng, res: hlib.Result):
        self.rng = rng
        self.res = res
        self.force_depth = 0        # > 0: every L-capable dynamic leaf gets a nested list value of this depth
        self.todo: set = set()      # (item class name, alternative type name) not yet used
        self.covered: set = set()

    # ---- scalars per variable type
    def ints(self, typ, n):
        lo, hi = typ._min, typ._max
        pool = [lo, hi, 0 if lo <= 0 else lo, 1, hi - 1, lo + 1, hi // 2]
        return [self.rng.choice(pool) if self.rng.chance(2, 3) else self.rng.range(lo, hi) for _ in range(n)]

    def floats(self, typ, n):
        if typ is V.F4:
            pool = [0.0, 1.0, -1.0, 1.5, -2.25, FLT_MAX, -FLT_MAX, 2.0 ** -126, 2.0 ** -149, 1 / 1024, 123456.0, f32(3.14159)]
        else:
            pool = [0.0, 1.0, -1.0, 0.1, 1e300, -1e-300, sys.float_info.max, -sys.float_info.max, 5e-324, 2.5, math.pi]
        return [self.rng.choice(pool) for _ in range(n)]

    def length(self, count: int, zero_ok=True):
        """number of elements for an item with this `__count__` (limit included)"""
        r = self.rng
        if count >= 0:
            opts = [count, count, max(count - 1, 0), 1 if count >= 1 else 0] + ([0] if zero_ok else [])
            return r.choice([o for o in opts if o <= count])
        return r.choice([0, 1, 1, 2, 3, 7] if zero_ok else [1, 1, 2, 3, 7])

    def typed(self, tname: str, count: int):
        """a `variables.*` instance of the named type within the count limit"""
        r = self.rng
        if tname in INT_TYPES:
            n = self.length(count)
            vals = self.ints(INT_TYPES[tname], n)
            return INT_TYPES[tname](vals[0] if n == 1 and r.chance(1, 2) else vals)
        if tname in ("F4", "F8"):
            typ = V.F4 if tname == "F4" else V.F8
            n = self.length(count)
            vals = self.floats(typ, n)
            return typ(vals[0] if n == 1 and r.chance(1, 2) else vals)
        if tname == "Boolean":
            n = self.length(count)
            vals = [r.chance(1, 2) for _ in range(n)]
            return V.Boolean(vals[0] if n == 1 and r.chance(1, 2) else vals)
        if tname == "Binary":
            n = self.length(count)
            return V.Binary(r.bytes(n))
        if tname == "String":
            n = self.length(count)
            return V.String("".join(chr(r.range(32, 126)) for _ in range(n)))
        if tname == "Array":
            n = r.choice([0, 1, 2, 3])
            elems = [self.typed(r.choice(["U1", "I2", "String", "Boolean", "F8", "Binary", "U4"]), -1) for _ in range(n)]
            if n and r.chance(1, 3):
                elems.append(V.Array(ANYVALUE, [self.typed("U2", -1)]))
            return V.Array(ANYVALUE, elems)
        raise KeyError(tname)

    def nested_array(self, depth: int):
        """an L value of the given nesting depth: L[ U1, A, L[ … ] ]"""
        if depth <= 1:
            return V.Array(ANYVALUE, [V.U2(self.rng.range(0, 65535)), V.String("a")])
        return V.Array(ANYVALUE, [V.U1(self.rng.range(0, 255)), V.String("n%d" % depth), self.nested_array(depth - 1)])

    def plain(self, tname: str, count: int):
        """a plain Python value the named type supports, within the count limit"""
        r = self.rng
        if tname in INT_TYPES:
            n = self.length(count)
            vals = self.ints(INT_TYPES[tname], n)
            return vals[0] if n == 1 and r.chance(2, 3) else vals
        if tname in ("F4", "F8"):
            n = self.length(count)
            vals = self.floats(V.F4 if tname == "F4" else V.F8, n)
            return vals[0] if n == 1 and r.chance(2, 3) else vals
        if tname == "Boolean":
            n = self.length(count)
            vals = [r.chance(1, 2) for _ in range(n)]
            return vals[0] if n == 1 and r.chance(2, 3) else vals
        if tname == "Binary":
            return r.bytes(self.length(count))
        if tname == "String":
            return "".join(chr(r.range(32, 126)) for _ in range(self.length(count)))
        raise KeyError(tname)

    # ---- trees
    def alternatives(self, leaf):
        cls = type(leaf)
        if cls.__type__ is V.Dynamic:
            return [t.__name__ for t in cls.__allowedtypes__]
        return [cls.__type__.__name__]

    def leaf(self, leaf, mode: str):
        cls = type(leaf)
        alts = self.alternatives(leaf)
        dynamic = cls.__type__ is V.Dynamic
        count = cls.__count__
        open_alts = [t for t in alts if (cls.__name__, t) in self.todo]
        tname = self.rng.choice(open_alts) if open_alts else self.rng.choice(alts)
        if mode == "typed" and dynamic and self.force_depth and "Array" in alts:
            return self.nested_array(self.force_depth)
        if mode == "typed" and dynamic:
            self.todo.discard((cls.__name__, tname))
            self.covered.add((cls.__name__, tname))
            self.res.bump("alternative_type_used", tname)
            return self.typed(tname, count)
        if dynamic:
            # plain values for a dynamic item: ints, bools, floats, str and lists of those (bytes only where no text type competes)
            ok = [t for t in alts if t != "Array" and (t != "Binary" or "String" not in alts)]
            if tname not in ok:
                tname = self.rng.choice(ok)
        else:
            self.todo.discard((cls.__name__, tname))
            self.covered.add((cls.__name__, tname))
        self.res.bump("plain_value_for", tname)
        return self.plain(tname, count)

    def node(self, node, mode: str, sizes):
        if isinstance(node, V.List):
            d = {k: self.node(x, mode, sizes) for k, x in node.data.items()}
            if mode == "plain-positional":
                return list(d.values())
            return d
        if isinstance(node, V.Array):
            n = self.rng.choice(sizes)
            self.res.bump("open_list_length", n if n < 4 else "n")
            return [self.node(vfunctions.generate(node.item_decriptor), mode, sizes) for _ in range(n)]
        return self.leaf(node, "typed" if mode == "typed" else "plain")


def leaves_of(node, out):
    if isinstance(node, V.List):
        for x in node.data.values():
            leaves_of(x, out)
    elif isinstance(node, V.Array):
        leaves_of(vfunctions.generate(node.item_decriptor), out)
    elif node is not None:
        out.append(node)
    return out


def strip_typed(v):
    """plain rendering of a generated value for replay files"""
    if isinstance(v, V.Base):
        return {"type": type(v).__name__, "value": canon(v.get())}
    if isinstance(v, dict):
        return {k: strip_typed(x) for k, x in v.items()}
    if isinstance(v, list):
        return [strip_typed(x) for x in v]
    return canon(v)


def contains_plain_list_for_array_item(value, node) -> bool:
    """does the value give a plain Python list to a dynamic item that also allows `Array` (the second finding's pattern)"""
    if isinstance(node, V.List):
        vals = value.values() if isinstance(value, dict) else value
        return any(contains_plain_list_for_array_item(v, x) for v, x in zip(vals, node.data.values()))
    if isinstance(node, V.Array):
        el = vfunctions.generate(node.item_decriptor)
        return any(contains_plain_list_for_array_item(v, el) for v in value)
    cls = type(node)
    return cls.__type__ is V.Dynamic and V.Array in cls.__allowedtypes__ and isinstance(value, (list, tuple))


# ------------------------------------------------------------------------------------------------ pairing rule (as the property states it)
def pairing_problems(rows: dict):
    """rows: (s, f) -> dict(to_host, to_equipment, reply, reply_required).  Returns [(key, what)]"""
    out = []
    for (s, f), r in sorted(rows.items()):
        if r["reply_required"] and not r["reply"]:
            out.append(((s, f), "reply required but no reply declared"))
        if f % 2 == 1:
            partner = rows.get((s, f + 1))
            if r["reply"] and partner is None:
                out.append(((s, f), "declares a reply but the secondary function is not in the catalogue"))
            if not r["reply"] and partner is not None:
                out.append(((s, f), f"declares no reply although S{s}F{f + 1} is in the catalogue"))
            if r["reply"] and partner is not None and (r["to_host"] != partner["to_equipment"] or r["to_equipment"] != partner["to_host"]):
                out.append(((s, f), "directions are not mirrored by the secondary function"))
        else:
            if r["reply"] or r["reply_required"]:
                out.append(((s, f), "a secondary (even) function declares a reply"))
    return out


class Phase:
    """Safety net around one part of the oracle: an exception that escapes from the LIBRARY is a finding (recorded with the part, the
    library frame and the message), never a crash of the check.  Errors of the harness' own machinery (driver, facts, workers:
    RuntimeError raised by the harness itself) still propagate."""

    def __init__(self, res, name):
        self.res, self.name = res, name

    def __enter__(self):
        return self

    def __exit__(self, et, ev, tb):
        if et is None or not issubclass(et, Exception):
            return False
        import traceback  # noqa: PLC0415
        frames = traceback.extract_tb(tb)
        lib = [f for f in frames if os.sep + "secsgem" + os.sep in f.filename]
        if not lib:
            return False                                  # not from the library: a broken harness must stay visible as such
        last_h = [f for f in frames if os.sep + "secsgem" + os.sep not in f.filename][-1]
        self.res.violate("c03-library-raises", f"{self.name}: a library call made by the oracle raised {et.__name__}",
                         {"part": self.name, "harness_line": f"{os.path.basename(last_h.filename)}:{last_h.lineno} {last_h.line}",
                          "library_frame": f"{os.path.relpath(lib[-1].filename, hlib.REPO)}:{lib[-1].lineno} in {lib[-1].name}"},
                         "no exception", f"{et.__name__}: {str(ev)[:300]}")
        return True


def safe_lookup(cont, s, f):
    """`cont.function(s, f)`, an exception returned as a value"""
    try:
        return cont.function(s, f)
    except Exception as exc:  # noqa: BLE001
        return exc


def show_found(x):
    if x is None:
        return "None"
    if isinstance(x, BaseException):
        return f"{type(x).__name__}: {str(x)[:80]}".replace("\n", " ")
    return getattr(x, "__name__", repr(x))


class RobustDriver(hlib.Driver):
    """the driver binary is relinked whenever another check rebuilds it: wait for it instead of failing on the gap"""

    def __init__(self):
        import time
        super().__init__()
        for _ in range(60):
            if self.available:
                break
            time.sleep(1.0)
            super().__init__()

    def run(self, lines, timeout: float = 600.0):
        import time
        last = None
        for _ in range(60):
            try:
                return super().run(lines, timeout)
            except (OSError, RuntimeError) as exc:  # missing / half-written executable, or a run cut short by the relink
                last = exc
                time.sleep(1.5)
        raise RuntimeError(f"model driver unusable: {last}")


# ------------------------------------------------------------------------------------------------ order experiment (fresh interpreters)
def enc_json(v):
    if isinstance(v, (bytes, bytearray)):
        return {"__b": bytes(v).hex()}
    if isinstance(v, dict):
        return {"__d": [[k, enc_json(x)] for k, x in v.items()]}
    if isinstance(v, list):
        return [enc_json(x) for x in v]
    return v


def dec_json(v):
    if isinstance(v, dict):
        if "__b" in v:
            return bytes.fromhex(v["__b"])
        return {k: dec_json(x) for k, x in v["__d"]}
    if isinstance(v, list):
        return [dec_json(x) for x in v]
    return v


def norm_value(value, node):
    """the library's own reading of a plain value (one-element lists and one-byte binaries read back as the scalar)"""
    if isinstance(node, V.List):
        return {k: norm_value(value[k], x) for k, x in node.data.items()}
    if isinstance(node, V.Array):
        el = vfunctions.generate(node.item_decriptor)
        return [norm_value(v, el) for v in value]
    if isinstance(value, list) and len(value) == 1 and not isinstance(value[0], (list, dict)):
        return value[0]
    if isinstance(value, (bytes, bytearray)) and len(value) == 1:
        return value[0]
    return value


def limited_text_count(leaf):
    """the length limit of a leaf that takes text (or, for a fixed Binary, bytes) and is length-limited; else None"""
    cls = type(leaf)
    if cls.__count__ is None or cls.__count__ <= 0:
        return None
    if cls.__type__ is V.Dynamic:
        return cls.__count__ if V.String in cls.__allowedtypes__ else None
    return cls.__count__ if cls.__type__ in (V.String, V.Binary) else None


def boundary_value(node, variant: int, salt: str):
    """a plain value of the structure whose length-limited text/binary leaves have length count (0), count-1 (1) or count+1 (2)"""
    if isinstance(node, V.List):
        return {k: boundary_value(x, variant, salt + k) for k, x in node.data.items()}
    if isinstance(node, V.Array):
        el = vfunctions.generate(node.item_decriptor)
        return [boundary_value(el, variant, salt + str(i)) for i in range(3 if variant == 3 else 1 + variant % 2)]
    cls = type(node)
    lim = limited_text_count(node)
    if variant == 3:
        alts = [t.__name__ for t in cls.__allowedtypes__] if cls.__type__ is V.Dynamic else []
        if "String" in alts and any(t in INT_TYPES for t in alts):
            pool = [d for d in ("0", "42", "255", "-1", "65536", "7", "127", "-128") if lim is None or len(d) <= lim]
            return pool[sum(map(ord, salt + cls.__name__)) % len(pool)]
        variant = 0
    if lim is not None:
        n = max(lim + (0, -1, 1)[variant], 0)
        ch = chr(65 + sum(map(ord, salt + cls.__name__)) % 26)
        if cls.__type__ is V.Binary:
            return (ch * n).encode("ascii")
        return ch * n
    types = [t.__name__ for t in cls.__allowedtypes__] if cls.__type__ is V.Dynamic else [cls.__type__.__name__]
    for t in types:
        if t in INT_TYPES:
            return 1
    if "String" in types:
        return "x" + cls.__name__.lower()
    if "Boolean" in types:
        return True
    if "F8" in types or "F4" in types:
        return 1.5
    return b"\x01\x02" if cls.__count__ != 1 else b"\x07"


def class_state():
    """the class-level mutable tables of the variable, data item and function classes (lists, dicts, sets), as comparable text"""
    import secsgem.secs.data_items as dmod  # noqa: PLC0415
    out = {}
    groups = [("variables", [c for c in vars(V).values() if isinstance(c, type)] + [ANYVALUE]),
              ("data_items", [c for c in vars(dmod).values() if isinstance(c, type)]),
              ("functions", [c for c in vars(fmod).values() if isinstance(c, type)])]
    for gname, clss in groups:
        for c in clss:
            for k, v in vars(c).items():
                if isinstance(v, (list, dict, set, tuple)) and not (k.startswith("__") and k.endswith("__") and k not in ("__allowedtypes__",)):
                    out[f"{gname}.{c.__name__}.{k}"] = repr(v)
    return out


CLASS_STATE_AT_IMPORT = class_state()


def class_state_diff():
    now = class_state()
    return {k: {"at_import": CLASS_STATE_AT_IMPORT.get(k), "now": now.get(k)} for k in sorted(set(now) | set(CLASS_STATE_AT_IMPORT))
            if now.get(k) != CLASS_STATE_AT_IMPORT.get(k)}


def read_everything(obj, log=None):
    """read every public property / side-effect-free method the library itself uses on a variable, data item or function object"""
    n = 0
    for attr in ("preferred_type", "preferred_types", "is_dynamic", "typ", "name", "format_code", "text_code", "types", "count"):
        try:
            getattr(obj, attr)
            n += 1
        except Exception as exc:  # noqa: BLE001 - some attributes do not exist on some classes; a raise of an existing one is logged
            if log is not None and hasattr(type(obj), attr):
                log.append(f"{type(obj).__name__}.{attr}: {type(exc).__name__}")
    for call in (repr, str, lambda o: o.get(), lambda o: type(o).get_format(), lambda o: len(o), lambda o: hash(o) if False else None):
        try:
            call(obj)
            n += 1
        except Exception:  # noqa: BLE001 - len()/get() of an unset value may legitimately raise
            pass
    return n


def read_all_of(cls, log=None):
    """the reads above on the function class, an instance, and every node and leaf of its variable tree"""
    n = 0
    for call in (repr, str, lambda c: c.get_format(), lambda c: c.stream, lambda c: c.function):
        try:
            call(cls)
            n += 1
        except Exception:  # noqa: BLE001
            pass
    try:
        inst = cls()
    except Exception:  # noqa: BLE001
        return n
    n += read_everything(inst, log)

    def walk(node):
        nonlocal n
        if node is None:
            return
        n += read_everything(node, log)
        if isinstance(node, V.List):
            for x in node.data.values():
                walk(x)
        elif isinstance(node, V.Array):
            try:
                walk(vfunctions.generate(node.item_decriptor))
            except Exception:  # noqa: BLE001
                pass
    walk(inst.data)
    return n


def order_worker(jobfile: str, outfile: str):
    """fresh interpreter: read back (and round-trip) the given values function by function IN THE GIVEN ORDER"""
    job = json.load(open(jobfile))
    sf = StreamsFunctions()
    out = []
    prelude = job.get("prelude", "none")
    if prelude == "reads first":
        for name in job["order"]:
            read_all_of(getattr(fmod, name))
    for name in job["order"]:
        cls = getattr(fmod, name)
        if prelude == "reads interleaved":
            read_all_of(cls)
        for variant, enc in job["values"][name]:
            value = dec_json(enc)
            try:
                obj = cls(value)
            except Exception as exc:  # noqa: BLE001
                out.append([name, variant, "constructor raises " + type(exc).__name__])
                continue
            got = obj.get()
            st = "read back unchanged" if py_equal(got, norm_value(value, obj.data)) else "read back CHANGED: " + json.dumps(canon(got))[:300]
            try:
                body = obj.encode()
                back = sf.decode(secsgem.hsms.HsmsMessage(secsgem.hsms.HsmsStreamFunctionHeader(9, cls._stream, cls._function, False, 0), body))
                st += "; wire " + ("ok" if type(back) is cls and same(back.get(), expected_after_wire(obj.data)) else "DIFFERS") + " fmt=" + body[:1].hex()
            except Exception as exc:  # noqa: BLE001
                st += "; wire raises " + type(exc).__name__
            out.append([name, variant, st])
    diff = class_state_diff()
    out.append(["<class-level tables>", 9, "unchanged" if not diff else "MUTATED: " + json.dumps(diff)[:1500]])
    json.dump(out, open(outfile, "w"))


def load_facts():
    """gen/facts.json is rewritten by every check run (also concurrent ones of other properties): retry a torn read"""
    import time
    last = None
    for _ in range(25):
        try:
            with open(os.path.join(hlib.ROOT, "gen", "facts.json")) as fh:
                facts = json.load(fh)
            if "Catalogue" in facts and "DataItems" in facts:
                return facts
        except (OSError, ValueError) as exc:
            last = exc
        time.sleep(0.2)
    raise RuntimeError(f"gen/facts.json unreadable: {last}")


def main():
    a = hlib.std_args()
    if a.replay:
        # a replay is the deterministic re-execution of the recorded run: same seed, same tier, same cases
        rp = json.load(open(a.replay))
        a.seed, a.tier = int(rp.get("seed", a.seed)), rp.get("tier", a.tier)
    res = hlib.Result("C03", a.tier, a.seed)
    _violate, _per_class = res.violate, {}

    def capped_violate(klass, *args, **kw):
        """at most eight entries per finding class, so that a flood of one class cannot push another one out of the report"""
        _per_class[klass] = _per_class.get(klass, 0) + 1
        res.bump("violations_by_class", klass)
        if _per_class[klass] <= 8:
            _violate(klass, *args, **kw)
    res.violate = capped_violate
    rng = hlib.Rng(a.seed ^ 0xC03)
    drv = RobustDriver()
    big = a.tier == "thorough" or a.search
    res.rule = ("for each of the catalogue's functions: values generated from the live variable tree of the class — typed (every alternative type of every "
                "dynamic item at least once per run), plain dict, plain positional; open list lengths 0,1,2,n; length-limited items at their limit; numeric "
                "boundaries (min, max, 0, +-FLT_MAX/DBL_MAX, subnormals) — through cls(value).encode() and StreamsFunctions.decode(HsmsMessage(header(s,f), body)); "
                "lookup for all (s,f) with s<=20,f<=255; pairing/flags/YAML on all rows. distinct = distinct (function, encoded body, mode); non-trivial = function with a body")

    facts = load_facts()
    gen_rows = {(r["stream"], r["function"]): r for r in facts["Catalogue"]["py"]}
    gen_yaml = {(r["stream"], r["function"]): r for r in facts["Catalogue"]["yaml"]}
    settings = secsgem.hsms.HsmsSettings()
    sf = settings.streams_functions
    if not isinstance(sf, StreamsFunctions):
        res.notes.append("settings.streams_functions is not a StreamsFunctions")
    classes = list(secs_streams_functions)

    # ------------------------------------------------------------ T-tie: Gen.Catalogue vs the live classes
    with Phase(res, "T-tie: Gen.Catalogue vs the live classes"):
        flag_attrs = ["_to_host", "_to_equipment", "_has_reply", "_is_reply_required", "_is_multi_block"]
        live_rows = {}
        for cls in classes:
            key = (cls._stream, cls._function)
            live_rows[key] = {"cls": cls.__name__, "flags": [getattr(cls, x) for x in flag_attrs], "data_format": cls._data_format}
            res.count(("tie", key), nontrivial=False)
            g = gen_rows.get(key)
            if g is None or g["cls"] != cls.__name__ or g["flags"] != live_rows[key]["flags"] or g["data_format"] != cls._data_format:
                res.disagree("Gen.Catalogue.py row vs live class attributes", {"key": key}, g, live_rows[key])
            # the public attributes the property names
            inst_ok = (cls.stream == cls._stream and cls.function == cls._function)
            if not inst_ok:
                res.violate("c03-attributes", "class properties stream/function differ from _stream/_function", {"cls": cls.__name__})
        if len(gen_rows) != len(classes) or set(gen_rows) != set(live_rows):
            res.disagree("Gen.Catalogue.py key set vs secs_streams_functions", None, sorted(gen_rows), sorted(live_rows))

    # ------------------------------------------------------------ lookup by numbers only
    with Phase(res, "lookup by numbers only"):
        n_lookup = 0
        lines, cases, answers = [], [], []
        pairs = [(s, f) for s in range(0, 21) for f in range(0, 256)] + [(rng.range(21, 127), rng.range(0, 255)) for _ in range(300)] + [(127, 255), (64, 0)]
        for s, f in pairs:
            n_lookup += 1
            try:
                got = sf.function(s, f)
                ans = "ok " + (got.__name__ if got is not None else "none")
            except Exception as exc:  # noqa: BLE001
                got = None
                ans = "err " + hlib.errkind(exc)
            want = live_rows.get((s, f))
            if (want is None) != (got is None) or (want is not None and got.__name__ != want["cls"]):
                res.violate("c03-lookup", "StreamsFunctions.function(s, f) does not return exactly the catalogued class", {"s": s, "f": f}, want and want["cls"], ans)
            lines.append(f"cat lookup {s} {f}")
            cases.append({"s": s, "f": f})
            answers.append(ans)
        # "found by its S/F numbers", stated against sources that do not depend on the list being looked up in: every function class
        # the package exports (secsgem.secs.functions.SecsSxxFyy) and every key of functions.yaml must be found, exactly once, and be
        # the class that carries these numbers; the list holds no entry twice.
        from secsgem.secs.functions.base import SecsStreamFunction as _SSF  # noqa: PLC0415
        exported = sorted((c for n, c in vars(fmod).items() if isinstance(c, type) and issubclass(c, _SSF) and c is not _SSF and n.startswith("SecsS")),
                          key=lambda c: (c._stream, c._function))
        import yaml as _yaml  # noqa: PLC0415
        ykeys = sorted((int(k[1:3]), int(k[4:6])) for k in _yaml.safe_load(open(os.path.join(hlib.REPO, "secsgem", "secs", "functions.yaml"), encoding="utf-8")))
        for c in exported:
            res.evaluations += 1
            got = safe_lookup(sf, c._stream, c._function)
            if got is not c:
                res.violate("c03-lookup", f"the exported function class {c.__name__} is not what StreamsFunctions.function({c._stream}, {c._function}) returns",
                            {"s": c._stream, "f": c._function, "class": c.__name__}, c.__name__, show_found(got))
        for (s_, f_) in ykeys:
            res.evaluations += 1
            got = safe_lookup(sf, s_, f_)
            if not (isinstance(got, type) and (got._stream, got._function) == (s_, f_)):
                res.violate("c03-lookup", f"S{s_}F{f_} of functions.yaml is not found by its numbers", {"s": s_, "f": f_}, f"the class of S{s_}F{f_}", show_found(got))
        seen_entries = {}
        for c in classes:
            seen_entries.setdefault((c._stream, c._function), []).append(c.__name__)
        for k, names_ in sorted(seen_entries.items()):
            if len(names_) > 1:
                res.violate("c03-lookup", f"secs_streams_functions holds S{k[0]}F{k[1]} more than once", {"s": k[0], "f": k[1]}, 1, names_)
        if len(classes) != len(exported) or len(classes) != len(ykeys):
            res.violate("c03-lookup", "the catalogue list, the exported function classes and functions.yaml differ in size",
                        {"list": len(classes), "exported_classes": len(exported), "yaml": len(ykeys)})
        res.exhaustive_parts.append(f"every exported function class ({len(exported)}) and every functions.yaml key ({len(ykeys)}) is found exactly once by its numbers")
        res.evaluations += n_lookup
        res.count(("lookup-all",), sample={"op": "lookup", "pairs": n_lookup})
        res.exhaustive_parts.append(f"StreamsFunctions.function(s, f) for all 0<=s<=20, 0<=f<=255 (+302 others): {n_lookup} lookups")
        hlib.compare_batch(res, drv, "StreamsFunctions.function vs Model.Catalogue.function over Gen.Catalogue.py", cases, lines, answers)

    # ------------------------------------------------------------ values
    with Phase(res, "values"):
        vg = ValueGen(rng, res)
        usable = []
        for cls in classes:
            try:
                cls()
                usable.append(cls)
            except Exception as exc:  # noqa: BLE001
                res.count(("unusable", cls.__name__), nontrivial=False)
                res.violate("c03-structure-unusable", "the class cannot be instantiated from its own _data_format",
                            {"function": cls.__name__, "data_format": cls._data_format}, "an object", f"{type(exc).__name__}: {str(exc)[:200]}")
        # the flags an *instance* carries (what the protocol layers read when they build the header) are the declared ones
        inst_attrs = ["to_host", "to_equipment", "has_reply", "is_reply_required", "is_multi_block"]
        for cls in usable:
            inst = cls()
            res.count(("instance-flags", cls.__name__), nontrivial=False)
            got = [getattr(inst, x, None) for x in inst_attrs]
            want = [getattr(cls, x) for x in flag_attrs]
            if got != want or inst.stream != cls._stream or inst.function != cls._function or inst.data_format != cls._data_format:
                res.violate("c03-instance-flags", "an instance does not carry the flags / numbers its class (and functions.yaml) declares",
                            {"function": cls.__name__, "attributes": inst_attrs}, want, got)
        for cls in usable:
            inst = cls()
            for leaf in leaves_of(inst.data, []):
                for t in vg.alternatives(leaf):
                    vg.todo.add((type(leaf).__name__, t))
        all_pairs = set(vg.todo)
        system = 1000

        def roundtrip(cls, value, mode: str, sizes_tag):
            nonlocal system
            if value is MISSING:
                return
            key = (cls._stream, cls._function)
            case = {"function": cls.__name__, "mode": mode, "value": strip_typed(value)}
            try:
                obj = cls(value)
            except Exception as exc:  # noqa: BLE001
                inst = cls()
                if mode.startswith("plain") and contains_plain_list_for_array_item(value, inst.data):
                    res.bump("constructor", "plain list for a list-capable dynamic item: " + type(exc).__name__)
                    if sum(1 for v in res.violations if v["class"] == PLAIN_LIST_CLASS) < 3:
                        res.violate(PLAIN_LIST_CLASS, "a plain Python list given to a dynamic item that also allows L raises " + type(exc).__name__,
                                    case, "the value read back", f"{type(exc).__name__}: {str(exc)[:120]}")
                    return
                res.violate("c03-constructor-rejects", "a structure-conforming value is rejected by the constructor", case, "accepted", f"{type(exc).__name__}: {str(exc)[:160]}")
                return
            res.bump("constructor", "ok")
            # plain values read back unchanged (typed values: their own get())
            if mode.startswith("plain"):
                got = obj.get()
                ref = norm_plain(value, obj.data)
                if not py_equal(got, ref):
                    if only_rounded_ints(ref, got):
                        res.bump("plain_readback", "int list stored as float, rounded")
                        if sum(1 for v in res.violations if v["class"] == PLAIN_ROUND_CLASS) < 3:
                            res.violate(PLAIN_ROUND_CLASS, "a plain list of integers is stored in a float type that precedes the integer type and read back rounded", case, canon(ref), canon(got))
                    else:
                        res.violate("c03-plain-readback", "plain Python values given to the constructor are not read back unchanged", case, canon(ref), canon(got))
                else:
                    res.bump("plain_readback", "unchanged")
            try:
                body = obj.encode()
            except Exception as exc:  # noqa: BLE001
                res.violate("c03-encode", "encode of a constructed function raises", case, "bytes", f"{type(exc).__name__}: {str(exc)[:160]}")
                return
            system += 1
            w = bool(cls._is_reply_required) if rng.chance(3, 4) else rng.chance(1, 2)
            msg = secsgem.hsms.HsmsMessage(secsgem.hsms.HsmsStreamFunctionHeader(system, key[0], key[1], w, 0), body)
            res.count((cls.__name__, body, mode), nontrivial=cls._data_format is not None,
                      sample={"op": "roundtrip", "function": cls.__name__, "mode": mode, "body_len": len(body)} if len(res.samples) < 6 and len(body) > 8 else None)
            res.bump("mode", mode)
            res.bump("body_len", "0" if len(body) == 0 else ("<=16" if len(body) <= 16 else ("<=256" if len(body) <= 256 else ">256")))
            try:
                back = sf.decode(msg)
            except Exception as exc:  # noqa: BLE001
                res.violate("c03-decode", "the body produced from a conforming value does not decode", {**case, "body": body.hex()[:400]}, "decoded object", f"{type(exc).__name__}: {str(exc)[:160]}")
                return
            if type(back) is not cls:
                res.violate("c03-decode-class", "decode by stream/function numbers gives an object of another class", case, cls.__name__, type(back).__name__)
                return
            want = expected_after_wire(obj.data) if obj.data is not None else None
            got = back.get()
            if not same(got, want):
                res.violate("c03-roundtrip", "decoded value differs from the value encoded", {**case, "body": body.hex()[:400]}, canon(want), canon(got))
            elif back.encode() != body:
                res.violate("c03-roundtrip", "re-encoding the decoded object gives other bytes", {**case, "body": body.hex()[:400]}, body.hex()[:200], back.encode().hex()[:200])

        def norm_plain(value, node):
            """the library's own reading of a plain value: one-element numeric/boolean lists and one-byte binaries read back as the scalar"""
            if isinstance(node, V.List):
                if isinstance(value, dict):
                    return {k: norm_plain(value[k], x) for k, x in node.data.items()}
                return {k: norm_plain(v, x) for (k, x), v in zip(node.data.items(), value)}
            if isinstance(node, V.Array):
                el = vfunctions.generate(node.item_decriptor)
                return [norm_plain(v, el) for v in value]
            if isinstance(value, list) and len(value) == 1 and not isinstance(value[0], (list, dict)):
                return value[0]
            if isinstance(value, (bytes, bytearray)) and len(value) == 1:
                return value[0]
            return value

        MISSING = object()

        def make_value(cls, inst, mode, sizes, what="a structure-conforming value"):
            """build the value; the variable classes are library code too: a raise while wrapping a conforming value is a finding"""
            try:
                return vg.node(inst.data, mode, sizes)
            except Exception as exc:  # noqa: BLE001
                res.violate("c03-value-rejected", f"{what} cannot be built from the library's own variable classes",
                            {"function": cls.__name__, "mode": mode, "sizes": sizes, "nested_depth": vg.force_depth or None}, "a value",
                            f"{type(exc).__name__}: {str(exc)[:200]}")
                return MISSING

        reps = 12 if big else 3
        for cls in usable:
            inst = cls()
            if inst.data is None:
                roundtrip(cls, None, "header-only", None)
                # a header-only function given a value ignores it and still encodes to nothing
                continue
            leaves = leaves_of(inst.data, [])
            n_alt = max([len(vg.alternatives(x)) for x in leaves] + [1])
            # typed: until every alternative of every dynamic leaf of this function was used
            rounds = 0
            while rounds < n_alt + reps:
                rounds += 1
                sizes = ([0], [1], [2], [1, 2, 3], [5, 9] if big else [4])[rounds % 5]
                roundtrip(cls, make_value(cls, inst, "typed", sizes), "typed", sizes)
            for mode in ("plain-dict", "plain-positional"):
                for sizes in ([0], [1], [2], [1, 2, 3, 6]):
                    for _ in range(reps):
                        roundtrip(cls, make_value(cls, inst, mode, sizes), mode, sizes)
            # nested lists (depth 2 and 3) inside every L-capable dynamic item of this function
            if any(type(x).__type__ is V.Dynamic and V.Array in type(x).__allowedtypes__ for x in leaves):
                for depth in (2, 3):
                    vg.force_depth = depth
                    try:
                        for sizes in ([1], [2]):
                            res.bump("nested_list_depth", depth)
                            roundtrip(cls, make_value(cls, inst, "typed", sizes, f"a list value nested {depth} deep for the L alternative"), f"typed-nested-{depth}", sizes)
                    finally:
                        vg.force_depth = 0
        uncovered = sorted(p for p in all_pairs if p not in vg.covered)
        if uncovered:
            res.notes.append(f"alternative types never generated: {uncovered[:10]}")
        res.bump("alternative_pairs", "covered", len(all_pairs) - len(uncovered))
        res.bump("alternative_pairs", "total", len(all_pairs))
        res.exhaustive_parts.append(f"every (data item, alternative type) pair of every catalogued function used at least once: {len(all_pairs) - len(uncovered)}/{len(all_pairs)}")

        # the plain-list pattern, fixed witnesses (one violation entry per run is enough for the listing)
        for cname, val in (("SecsS01F04", [[1, 2]]), ("SecsS06F11", {"DATAID": 1, "CEID": 2, "RPT": [{"RPTID": 3, "V": [[4, 5]]}]})):
            cls = getattr(fmod, cname)
            if cls not in usable:
                continue
            res.count(("plain-list-witness", cname), sample={"op": "plain list witness", "function": cname, "value": val})
            try:
                got = cls(val).get()
                res.bump("plain_list_witness", "accepted")
                want = val
                if not py_equal(got, want):
                    res.violate("c03-plain-readback", "plain Python values given to the constructor are not read back unchanged", {"function": cname, "value": val}, canon(want), canon(got))
            except Exception as exc:  # noqa: BLE001
                res.bump("plain_list_witness", type(exc).__name__)
                if not any(v["class"] == PLAIN_LIST_CLASS and v["case"].get("function") == cname for v in res.violations):
                    res.violate(PLAIN_LIST_CLASS, "a plain Python list given to a dynamic item that also allows L raises " + type(exc).__name__,
                                {"function": cname, "mode": "plain", "value": val}, "the value read back", f"{type(exc).__name__}: {str(exc)[:120]}")

        wv = [{"ECID": 1, "ECNAME": "n", "ECMIN": 0, "ECMAX": 1, "ECDEF": [18446744073709551614, 1], "UNITS": "u"}]
        res.count(("round-witness",), sample={"op": "plain int list witness", "function": "SecsS02F30", "value": wv})
        try:
            got = fmod.SecsS02F30(wv).get()
            if not py_equal(got, wv):
                res.bump("plain_round_witness", "rounded")
                if not any(v["class"] == PLAIN_ROUND_CLASS and v["case"].get("witness") for v in res.violations):
                    res.violate(PLAIN_ROUND_CLASS, "a plain list of integers is stored in a float type that precedes the integer type and read back rounded",
                                {"function": "SecsS02F30", "mode": "plain", "value": wv, "witness": True}, canon(wv), canon(got))
            else:
                res.bump("plain_round_witness", "unchanged")
        except Exception as exc:  # noqa: BLE001
            res.violate("c03-constructor-rejects", "a structure-conforming value is rejected by the constructor", {"function": "SecsS02F30", "value": wv}, "accepted", repr(exc)[:160])

    # ------------------------------------------------------------ pairing / flags / YAML
    with Phase(res, "pairing / flags / YAML"):
        live = {k: {"to_host": v["flags"][0], "to_equipment": v["flags"][1], "reply": v["flags"][2], "reply_required": v["flags"][3], "multi_block": v["flags"][4]}
                for k, v in live_rows.items()}
        for key, what in pairing_problems(live):
            res.count(("pairing", key), nontrivial=False)
            klass = S2F49_CLASS if key == (2, 49) else "c03-pairing"
            res.violate(klass, f"S{key[0]}F{key[1]}: {what}", {"source": "classes", "stream": key[0], "function": key[1], **live[key]})
        import yaml  # noqa: PLC0415
        ypath = os.path.join(hlib.REPO, "secsgem", "secs", "functions.yaml")
        ydata = yaml.safe_load(open(ypath, encoding="utf-8"))
        yrows = {}
        for name, row in ydata.items():
            s, f = int(name[1:3]), int(name[4:6])
            yrows[(s, f)] = row
        yflags = {k: {"to_host": r.get("to_host"), "to_equipment": r.get("to_equipment"), "reply": r.get("reply"), "reply_required": r.get("reply_required"),
                      "multi_block": r.get("multi_block")} for k, r in yrows.items()}
        for key, what in pairing_problems(yflags):
            klass = S2F49_CLASS if key == (2, 49) else "c03-pairing"
            if not (klass == S2F49_CLASS and any(v["class"] == S2F49_CLASS for v in res.violations)):
                res.violate(klass, f"functions.yaml S{key[0]}F{key[1]}: {what}", {"source": "yaml", "stream": key[0], "function": key[1], **yflags[key]})
        res.evaluations += len(live) + len(yflags)
        if set(yrows) != set(live):
            res.violate("c03-yaml-mismatch", "functions.yaml and the classes do not list the same functions",
                        {"only_yaml": sorted(set(yrows) - set(live)), "only_classes": sorted(set(live) - set(yrows))})
        from secsgem.secs.functions.sfdl_tokenizer import SFDLTokenizer  # noqa: PLC0415

        def toks(text):
            return None if text is None else [t.value for t in SFDLTokenizer(text).tokens._tokens]
        for key in sorted(set(yrows) & set(live)):
            res.count(("yaml", key), nontrivial=False)
            if yflags[key] != live[key]:
                res.violate("c03-yaml-mismatch", f"S{key[0]}F{key[1]}: flags in functions.yaml differ from the class", {"stream": key[0], "function": key[1]}, live[key], yflags[key])
            try:
                ty, tc = toks(yrows[key].get("structure")), toks(live_rows[key]["data_format"])
            except Exception as exc:  # noqa: BLE001
                res.violate("c03-yaml-mismatch", f"S{key[0]}F{key[1]}: a structure text does not tokenize", {"stream": key[0], "function": key[1]}, None, repr(exc)[:200])
                continue
            if ty != tc:
                res.violate("c03-yaml-mismatch", f"S{key[0]}F{key[1]}: structure in functions.yaml differs from the class", {"stream": key[0], "function": key[1]}, tc, ty)
            gy = gen_yaml.get(key)
            if gy is None or gy["flags"] != [yflags[key][x] for x in ("to_host", "to_equipment", "reply", "reply_required", "multi_block")] or gy["data_format"] != yrows[key].get("structure"):
                res.disagree("Gen.Catalogue.yaml row vs functions.yaml read by PyYAML in the harness", {"key": key}, gy, yflags[key])
        res.exhaustive_parts.append(f"pairing / reply flags / directions / YAML agreement on all {len(live)} classes and {len(yrows)} YAML rows")

    # ------------------------------------------------------------ configurations: containers are independent of each other
    with Phase(res, "configurations: containers are independent of each other"):
        # container A registers harness-defined classes for catalogued (s, f) pairs through the public `update()`; a fresh default
        # container B, a container created afterwards, and a default settings object must still resolve ALL pairs to the catalogue
        # classes and decode with them; the module-level catalogue list must be untouched.
        import secsgem.secs.functions._all as allmod  # noqa: PLC0415
        from secsgem.secs.functions.base import SecsStreamFunction  # noqa: PLC0415
        snapshot = list(allmod.secs_streams_functions)
        try:
            cont_a = StreamsFunctions()
            cont_b = StreamsFunctions()                     # exists before A is changed
            picks = []
            cand = [c for c in usable if c._data_format is not None]
            for _ in range(3):
                c = rng.choice(cand)
                if c not in picks:
                    picks.append(c)
            picks.append(fmod.SecsS01F01)                   # a header-only one as well
            foreign = {}
            for c in picks:
                sub = type("Harness" + c.__name__, (SecsStreamFunction,), {
                    "_stream": c._stream, "_function": c._function, "_data_format": "< L < MDLN > < SOFTREV > >",
                    "_to_host": True, "_to_equipment": True, "_has_reply": False, "_is_reply_required": False, "_is_multi_block": False})
                foreign[(c._stream, c._function)] = sub
                cont_a.update(sub)
            extra = type("HarnessS99F1", (SecsStreamFunction,), {"_stream": 99, "_function": 1, "_data_format": None})
            cont_a.update(extra)                            # and a function the catalogue does not have
            cont_c = StreamsFunctions()                     # created after A was changed
            cont_s = secsgem.hsms.HsmsSettings().streams_functions
            case = {"registered_in_A": sorted(f"S{k[0]}F{k[1]}" for k in foreign) + ["S99F1"]}
            res.count(("containers", tuple(sorted(foreign))), sample={"op": "two containers, update() on one", **case})
            # A really took the registrations (otherwise the oracle would be vacuous)
            for k, sub in foreign.items():
                if safe_lookup(cont_a, *k) is not sub:
                    res.violate("c03-container-update", "update() of a container does not register the class", {**case, "key": k})
            for cname, cont in (("default container created before the update", cont_b), ("default container created after the update", cont_c),
                                ("streams_functions of a default HsmsSettings()", cont_s)):
                for cls in classes:
                    k = (cls._stream, cls._function)
                    res.evaluations += 1
                    try:
                        got = cont.function(*k)
                    except Exception as exc:  # noqa: BLE001
                        got = exc
                    if got is not cls:
                        res.violate("c03-container-shared", f"after update() on ANOTHER container, the {cname} no longer resolves S{k[0]}F{k[1]} to the catalogue class",
                                    {**case, "container": cname, "stream": k[0], "function": k[1]}, cls.__name__, getattr(got, "__name__", repr(got))[:120])
                try:
                    leaked = cont.function(99, 1)
                except Exception as exc:  # noqa: BLE001
                    leaked = exc
                if leaked is not None:
                    res.violate("c03-container-shared", f"a function registered in another container is found in the {cname}", {**case, "container": cname, "stream": 99, "function": 1},
                                None, getattr(leaked, "__name__", repr(leaked))[:120])
                # decode a body built with the catalogue class through that container
                for c in picks:
                    if c not in usable:
                        continue
                    try:
                        val = vg.node(c().data, "typed", [1, 2]) if c._data_format is not None else None
                        obj = c(val)
                        msg = secsgem.hsms.HsmsMessage(secsgem.hsms.HsmsStreamFunctionHeader(77, c._stream, c._function, False, 0), obj.encode())
                        back = cont.decode(msg)
                        ok = type(back) is c and same(back.get(), expected_after_wire(obj.data) if obj.data is not None else None)
                        detail = type(back).__name__
                    except Exception as exc:  # noqa: BLE001
                        ok, detail = False, f"{type(exc).__name__}: {str(exc)[:120]}"
                    res.evaluations += 1
                    if not ok:
                        res.violate("c03-container-shared", f"after update() on ANOTHER container, the {cname} decodes S{c._stream}F{c._function} with a foreign class",
                                    {**case, "container": cname, "stream": c._stream, "function": c._function}, c.__name__, detail)
            now = allmod.secs_streams_functions
            if len(now) != len(snapshot) or any(x is not y for x, y in zip(now, snapshot)):
                res.violate("c03-container-shared", "update() on a container changed the module-level catalogue list secs_streams_functions",
                            case, [c.__name__ for c in snapshot][:3] + ["…", len(snapshot)], [getattr(c, "__name__", "?") for c in now][-3:] + [len(now)])
            res.exhaustive_parts.append("container isolation: after update() on one container, all 134 (s, f) in three other default containers + the module-level list")

            # the SAME container, used before and after `update()`: what was resolved/decoded earlier must not stick
            allmod.secs_streams_functions[:] = snapshot      # start from the catalogue even if the containers above turned out to share it
            cont_d = StreamsFunctions()
            bodies = {}
            for cls in classes:                                  # every pair resolved once before anything is registered
                safe_lookup(cont_d, cls._stream, cls._function)
            for c in picks:
                if c in usable:
                    obj = c(vg.node(c().data, "typed", [1]) if c._data_format is not None else None)
                    bodies[c] = obj.encode()
                    try:
                        cont_d.decode(secsgem.hsms.HsmsMessage(secsgem.hsms.HsmsStreamFunctionHeader(78, c._stream, c._function, False, 0), bodies[c]))
                    except Exception:  # noqa: BLE001 - judged by the round-trip oracle above, here it only warms the container
                        pass
            safe_lookup(cont_d, 99, 1)
            for sub in list(foreign.values()) + [extra]:
                cont_d.update(sub)
            case_d = {"container": "one container: lookup/decode, then update(), then lookup/decode again", **case}
            res.count(("same-container", tuple(sorted(foreign))), sample={"op": "lookup, update(), lookup on one container", **case})
            new_body = foreign[next(iter(foreign))](["mdln", "rev"]).encode()
            for k, sub in list(foreign.items()) + [((99, 1), extra)]:
                res.evaluations += 1
                try:
                    got = cont_d.function(*k)
                except Exception as exc:  # noqa: BLE001
                    got = exc
                if got is not sub:
                    res.violate("c03-container-stale", f"after update() the container still resolves S{k[0]}F{k[1]} to what it resolved before",
                                {**case_d, "stream": k[0], "function": k[1]}, sub.__name__, getattr(got, "__name__", repr(got))[:120])
                if k != (99, 1):
                    try:
                        back = cont_d.decode(secsgem.hsms.HsmsMessage(secsgem.hsms.HsmsStreamFunctionHeader(79, k[0], k[1], False, 0), new_body))
                        ok, detail = type(back) is sub and back.get() == {"MDLN": "mdln", "SOFTREV": "rev"}, type(back).__name__
                    except Exception as exc:  # noqa: BLE001
                        ok, detail = False, f"{type(exc).__name__}: {str(exc)[:100]}"
                    if not ok:
                        res.violate("c03-container-stale", f"after update() a body of the registered S{k[0]}F{k[1]} is decoded with the class resolved before",
                                    {**case_d, "stream": k[0], "function": k[1]}, sub.__name__, detail)
            for cls in classes:                                  # the rest is still the catalogue
                k = (cls._stream, cls._function)
                res.evaluations += 1
                try:
                    still = cont_d.function(*k)
                except Exception as exc:  # noqa: BLE001
                    still = exc
                if k not in foreign and still is not cls:
                    res.violate("c03-container-stale", f"update() of other functions changed what S{k[0]}F{k[1]} resolves to", {**case_d, "stream": k[0], "function": k[1]})
            for c in picks:                                      # registering the catalogue class again brings it back
                cont_d.update(c)
                res.evaluations += 1
                try:
                    got = cont_d.function(c._stream, c._function)
                    back = cont_d.decode(secsgem.hsms.HsmsMessage(secsgem.hsms.HsmsStreamFunctionHeader(80, c._stream, c._function, False, 0), bodies[c])) if c in bodies else None
                    ok = got is c and (back is None or type(back) is c)
                except Exception as exc:  # noqa: BLE001
                    ok, got = False, exc
                if not ok:
                    res.violate("c03-container-stale", f"re-registering the catalogue class of S{c._stream}F{c._function} does not bring it back",
                                {**case_d, "stream": c._stream, "function": c._function}, c.__name__, getattr(got, "__name__", repr(got))[:120])
            res.exhaustive_parts.append("one container before/after update(): all 134 (s, f) resolved first, replacements for 4 of them + S99F1, lookup and decode again, re-registration")
        finally:
            allmod.secs_streams_functions[:] = snapshot   # whatever happened, leave the catalogue as it was for what follows

    # ------------------------------------------------------------ order of use must not matter (fresh interpreter per order)
    with Phase(res, "order of use must not matter (fresh interpreter per order)"):
        import subprocess  # noqa: PLC0415
        import tempfile  # noqa: PLC0415
        values = {}
        restrict = {}
        for cls in usable:
            if cls._data_format is None:
                continue
            inst = cls()
            values[cls.__name__] = [[v, enc_json(boundary_value(inst.data, v, cls.__name__))] for v in (0, 1, 2, 3)]
            lims = [x for x in (limited_text_count(leaf) for leaf in leaves_of(inst.data, [])) if x is not None]
            restrict[cls.__name__] = min(lims) if lims else 10 ** 9
        names = list(values)
        orders = {"catalogue order": names, "reverse catalogue order": names[::-1],
                  "tightest length limit first": sorted(names, key=lambda n: restrict[n]),
                  "loosest length limit first": sorted(names, key=lambda n: -restrict[n]),
                  "seeded shuffle 1": rng.shuffle(names), "seeded shuffle 2": rng.shuffle(names),
                  # first actions: every public property / read-only method of every function, variable and data item object
                  "all property reads first, then catalogue order": names, "all property reads first, then a seeded shuffle": rng.shuffle(names),
                  "property reads of each function right before its values": names}
        prelude_of = {"all property reads first, then catalogue order": "reads first", "all property reads first, then a seeded shuffle": "reads first",
                      "property reads of each function right before its values": "reads interleaved"}
        scratch = os.environ.get("VERIF_SCRATCH") or tempfile.mkdtemp(prefix="verif-c03-")
        procs = []
        for i, (oname, order) in enumerate(orders.items()):
            jf, of = os.path.join(scratch, f"order{i}.job.json"), os.path.join(scratch, f"order{i}.out.json")
            json.dump({"order": order, "values": values, "prelude": prelude_of.get(oname, "none")}, open(jf, "w"))
            procs.append((oname, of, subprocess.Popen([sys.executable, os.path.abspath(__file__), "--order-worker", jf, of],
                                                      stdout=subprocess.PIPE, stderr=subprocess.STDOUT)))
        outcomes = {}
        for oname, of, pr in procs:
            try:
                out, _ = pr.communicate(timeout=300)
            except subprocess.TimeoutExpired:
                pr.kill()
                out = b"timeout"
            if pr.returncode != 0 or not os.path.exists(of):
                raise RuntimeError(f"order worker '{oname}' failed: {out[-400:]!r}")
            for name, variant, st in json.load(open(of)):
                outcomes.setdefault((name, variant), {})[oname] = st
        vdesc = {0: "length-limited items at their limit", 1: "one below the limit", 2: "one above the limit (not conforming)",
                 3: "digits-only text ('0', '42', '255', '-1', '65536') for items that take text and numbers"}
        state = outcomes.pop(("<class-level tables>", 9), {})
        for oname, st in sorted(state.items()):
            res.evaluations += 1
            if st != "unchanged":
                res.violate("c03-class-state-mutated", "using the catalogue changed a class-level table of the variable / data item / function classes",
                            {"order": oname}, "unchanged", st)
        for (name, variant), by_order in sorted(outcomes.items()):
            res.count(("order", name, variant), nontrivial=True, sample={"op": "order experiment", "function": name, "variant": vdesc[variant]} if len(res.samples) < 9 and variant == 0 else None)
            res.evaluations += len(by_order) - 1
            value = dec_json(dict((v, e) for v, e in values[name])[variant])
            distinct = sorted(set(by_order.values()))
            res.bump("order_experiment", vdesc[variant] + " -> " + ("same in all orders" if len(distinct) == 1 else "ORDER DEPENDENT"))
            if len(distinct) > 1:
                res.violate("c03-order-dependent", "the same value of the same function is treated differently depending on which functions were used before",
                            {"function": name, "value": canon(value), "variant": vdesc[variant], "outcome_by_order": by_order}, distinct[0], distinct[1])
            elif variant != 2 and not distinct[0].startswith("read back unchanged; wire ok"):
                res.violate("c03-plain-readback" if distinct[0].startswith("read back") else "c03-constructor-rejects",
                            "a structure-conforming value with length-limited items at (or one below) their limit is not read back unchanged / does not round-trip",
                            {"function": name, "value": canon(value), "variant": vdesc[variant]}, "read back unchanged; wire ok", distinct[0])
        res.exhaustive_parts.append(f"order experiment: {len(values)} functions x 4 value variants in {len(orders)} global orders / first actions, each in a fresh interpreter")

    if a.replay:
        # verdict of a replay: only what the recorded run reported (its finding classes; its broken correspondence)
        classes = {v["class"] for v in rp.get("violations", [])}
        res.violations = [v for v in res.violations if v["class"] in classes]
        if any(b.get("stage") == "C" for b in rp.get("breaks", [])) and res.disagreements and not res.violations:
            d = res.disagreements[0]
            res.violate("correspondence", "model and implementation still disagree: " + d["what"], d["case"], d["model"], d["impl"])
    with Phase(res, "codec value oracle (c03_fn)"):
        import c03_fn  # noqa: E402
        c03_fn.run(res, rng.fork("fn"), drv, a.tier)
    # ------------------------------------------------------------ operation sequences on one function object
    # random sequences of {encode, change through the function API, change through a member object handed out earlier, decode into the
    # same object}: after every step the body `encode()` gives must carry what the object holds now — it decodes (by S/F) to a value
    # equal to `get()`, and equals the encoding of the variable tree.
    with Phase(res, "operation sequences on function objects"):
        seq_rng = rng.fork("sequences")
        svg = ValueGen(seq_rng, hlib.Result("C03", a.tier, a.seed))       # own generator: no coverage bookkeeping, no histogram noise
        sfc = StreamsFunctions()

        def sub_value(node, mode="typed", sizes=(1, 2)):
            return svg.node(node, mode, list(sizes))

        def members_of(f):
            """member objects the function hands out: f[key] / f.KEY of a record, f[i] of an open list, and their members one level down"""
            out = []
            d = f.data
            if isinstance(d, V.List):
                for k in list(d.data):
                    for how, get in ((f"f[{k!r}]", lambda k=k: f[k]), (f"f.{k}", lambda k=k: getattr(f, k))):
                        try:
                            out.append((how, get()))
                        except Exception:  # noqa: BLE001
                            pass
            elif isinstance(d, V.Array):
                for i in range(len(d.data)):
                    out.append((f"f[{i}]", f[i]))
            else:
                out.append(("f.data", d))
            more = []
            for how, m in out:
                if isinstance(m, V.Array):
                    more += [(f"{how}[{i}]", m[i]) for i in range(len(m.data))]
                elif isinstance(m, V.List):
                    more += [(f"{how}[{k!r}]", m[k]) for k in list(m.data)]
            return out + more

        def mutate_member(how, m):
            """one change through the member object; returns a description or None when nothing applicable / the value was refused"""
            r = seq_rng
            try:
                if isinstance(m, V.Array):
                    el = vfunctions.generate(m.item_decriptor)
                    op = r.choice(["append", "set", "setitem"] if m.data else ["append", "set"])
                    if op == "append":
                        m.append(sub_value(el))
                        return f"{how}.append(v)"
                    if op == "set":
                        m.set([sub_value(el) for _ in range(r.choice([0, 1, 2, 3]))])
                        return f"{how}.set([...])"
                    i = r.below(len(m.data))
                    m[i] = sub_value(el)
                    return f"{how}[{i}] = v"
                if isinstance(m, V.List):
                    if r.chance(1, 2):
                        m.set(sub_value(m))
                        return f"{how}.set(dict)"
                    k = r.choice(list(m.data))
                    m[k] = sub_value(m.data[k])
                    return f"{how}[{k!r}] = v"
                m.set(sub_value(m, r.choice(["typed", "plain"])))
                return f"{how}.set(v)"
            except Exception:  # noqa: BLE001 - a refused value is not this oracle's business (judged by the value oracles)
                return None

        def mutate_function(f, cls):
            r = seq_rng
            d = f.data
            try:
                op = r.choice(["set", "item", "attr", "append"])
                if op == "set" or not isinstance(d, (V.List, V.Array)):
                    f.set(sub_value(d))
                    return "f.set(v)"
                if isinstance(d, V.List):
                    k = r.choice(list(d.data))
                    if op == "attr":
                        setattr(f, k, sub_value(d.data[k]))
                        return f"f.{k} = v"
                    f[k] = sub_value(d.data[k])
                    return f"f[{k!r}] = v"
                el = vfunctions.generate(d.item_decriptor)
                if op == "append" or not d.data:
                    f.append(sub_value(el))
                    return "f.append(v)"
                i = r.below(len(d.data))
                f[i] = sub_value(el)
                return f"f[{i}] = v"
            except Exception:  # noqa: BLE001
                return None

        n_seq = (4 if big else 2)
        for cls in usable:
            if cls._data_format is None:
                continue
            for q in range(n_seq):
                try:
                    f = cls(sub_value(cls().data))
                except Exception:  # noqa: BLE001
                    continue
                steps = []
                handed_out = members_of(f) if q % 2 == 0 else []       # members obtained BEFORE the first encode ...
                for step in range(8 if big else 6):
                    kind = seq_rng.choice(["member", "member", "function", "decode", "encode"]) if step else "encode"
                    if kind == "member":
                        if not handed_out or seq_rng.chance(1, 3):
                            handed_out = members_of(f)                 # ... or between two encodes
                        if not handed_out:
                            continue
                        how, m = seq_rng.choice(handed_out)
                        done = mutate_member(how, m)
                    elif kind == "function":
                        done = mutate_function(f, cls)
                    elif kind == "decode":
                        try:
                            f.decode(cls(sub_value(cls().data)).encode())
                            done = "f.decode(body of another value)"
                        except Exception:  # noqa: BLE001
                            done = None
                    else:
                        done = "f.encode()"
                    if done is None:
                        continue
                    steps.append(done)
                    opname = "append" if ".append(" in done else ("assign" if done.endswith("= v") else ("set" if ".set(" in done else done.split("(")[0].split(".")[-1]))
                    res.bump("sequence_step", ("handed-out member: " if kind == "member" else "function: ") + opname)
                    case = {"function": cls.__name__, "steps": list(steps), "value_now": canon(f.get())}
                    try:
                        body = f.encode()
                        tree = f.data.encode()
                        back = sfc.decode(secsgem.hsms.HsmsMessage(secsgem.hsms.HsmsStreamFunctionHeader(81, cls._stream, cls._function, False, 0), body))
                        now = expected_after_wire(f.data)
                        ok = type(back) is cls and same(back.get(), now) and body == tree
                        detail = {"decoded": canon(back.get()), "body": body.hex()[:200], "encoding_of_the_content": tree.hex()[:200]}
                    except Exception as exc:  # noqa: BLE001
                        ok, now, detail = False, None, f"{type(exc).__name__}: {str(exc)[:160]}"
                    res.evaluations += 1
                    if not ok:
                        res.violate("c03-stale-encoding", "after a sequence of operations on one function object, encode() does not carry what the object holds",
                                    case, canon(now), detail)
                        break
                res.count(("sequence", cls.__name__, tuple(steps)), nontrivial=len(steps) > 1,
                          sample={"op": "operation sequence", "function": cls.__name__, "steps": steps} if len(res.samples) < 12 and len(steps) > 3 else None)
        res.exhaustive_parts.append(f"operation sequences (encode / function API / handed-out member / decode) on every function with a body: {n_seq} sequences each, body checked after every step")

    with Phase(res, "class-level tables after the whole harness"):
        log = []
        n_reads = sum(read_all_of(cls, log) for cls in list(secs_streams_functions))
        res.evaluations += n_reads
        res.count(("class-state",), sample={"op": "class-level tables vs snapshot at import", "tables": len(CLASS_STATE_AT_IMPORT), "property_reads": n_reads})
        diff = class_state_diff()
        if diff:
            first = next(iter(diff))
            res.violate("c03-class-state-mutated", "after the harness (constructors, encode/decode, lookups, every public property read) a class-level table differs from its state at import",
                        {"table": first, "others": list(diff)[1:6]}, diff[first]["at_import"], diff[first]["now"])
        res.exhaustive_parts.append(f"{len(CLASS_STATE_AT_IMPORT)} class-level lists/dicts of the variable, data item and function classes compared with their state at import")
    # shortest failing case first (it becomes the "first failing input" of the verdict and of the replay file)
    res.violations.sort(key=lambda v: len(json.dumps(v["case"], default=repr)))
    res.disagreements.sort(key=lambda v: len(json.dumps(v["case"], default=repr)))
    res.dump(a.out)


if __name__ == "__main__":
    if len(sys.argv) == 4 and sys.argv[1] == "--order-worker":
        order_worker(sys.argv[2], sys.argv[3])
    else:
        main()
