"""C01 — SECS-II values round-trip and are encoded exactly as SEMI E5 prescribes (variables API).

Correspondence (C): the real `secsgem.secs.variables` classes against the Lean model through the driver domain `codec`
  (`hdr`, `enc`, `dec`, `set`, `get`, `r32`, `wid`, `fint`, `trunc`).
Direct oracle (O), on the real classes only:
  * `encode()` equals the *Spec* encoder's bytes (`codec spec`, Lean `Spec.E5.encode`) and the harness's own E5 encoder;
  * `decode(encode(v))` gives an equal value (F4: equal after rounding to binary32) and returns exactly the position after the item;
  * the same when the decoding object already holds another value (as `List.decode` / a reused function object do), several times in a row;
  * every value `set()` accepts — whatever the model says about it — has an E5 encoding, is encoded to it and decodes back;
  * a value given as CONSTRUCTOR argument (every leaf class, Dynamic, ANYVALUE, every data item class, Array, List; zero / empty
    values in particular) gives the same object as construction followed by `set()`, and is held and encoded;
  * at every length limit (count-1, count, count+1; bytes, bytearray, str, lists/tuples of codes, ints by digit count, bools) each class's
    `supports_value` agrees with its `set()`, and a limited Dynamic (text type before / after Binary, the limited data items) stores the
    value in the first declared type that takes it;
  * after every step of a random sequence of public mutations (set, decode into the object, item assignment, `.value =`, Array.append,
    element / field assignment, also on nested members and through a Dynamic) `encode()` is the E5 encoding of what the object holds;
  * a variable built / set from a python list keeps its own copy (caller edits the list; `var[i] = x` does not reach the list; rows from one
    scratch list), and two objects generated from one structure definition never share state (index assignment on unset members included);
  * NaN is treated alike on every path (scalar, list, tuple, constructor, Dynamic, Array, decode) and an accepted NaN decodes again;
  * `set()` replaces: a second `set()` (also field-wise through item / attribute assignment on a List, also with an empty array) leaves
    exactly the second value; a Dynamic / ANYVALUE / data item given two plain values of different kinds ends like a fresh object;
  * `encode_item_header` is format byte + minimal big-endian length bytes for every length 0..0xFFFFFF and refuses the rest.
"""
from __future__ import annotations

import json
import os
import struct
import sys

sys.path.insert(0, os.path.dirname(os.path.abspath(__file__)))
import codeclib as K  # noqa: E402
from codeclib import hlib, V  # noqa: E402

PROP = "C01"


# ---------------------------------------------------------------------------------------------- oracle on one (struct, val, prefix)
def js(x):
    """tuples -> lists for JSON"""
    if isinstance(x, tuple):
        return [js(y) for y in x]
    if isinstance(x, list):
        return [js(y) for y in x]
    return x


def unjs(x):
    if isinstance(x, list):
        if x and isinstance(x[0], str) and (x[0] in K.LEAVES or x[0] in ("L", "leaf", "dyn", "arr", "rec", "any")):
            if x[0] in K.LEAVES or x[0] == "L":
                return (x[0], [unjs(y) if isinstance(y, list) else y for y in x[1]])
            if x[0] == "leaf":
                return ("leaf", x[1], x[2])
            if x[0] == "dyn":
                return ("dyn", list(x[1]), x[2])
            if x[0] == "arr":
                return ("arr", unjs(x[1]), x[2])
            if x[0] == "rec":
                return ("rec", [unjs(y) for y in x[1]])
            return ("any",)
        return [unjs(y) for y in x]
    return x


def oracle_roundtrip(res, s, v, prefix: bytes, spec_hex=None):
    """the property's own statement on the real classes; returns the encoded bytes (or None)"""
    case = {"kind": "roundtrip", "struct": js(s), "val": js(v), "prefix": prefix.hex()}
    try:
        obj = K.build_var(s, v)
        enc = obj.encode()
    except Exception as exc:  # noqa: BLE001
        res.violate("encode-raises", f"encode() of an accepted value raised {type(exc).__name__}: {exc}", case)
        return None
    own = K.own_encode(v)
    if enc != own:
        res.violate("encode-not-E5", "encode() differs from the E5 byte string (harness's own encoder)", case, own.hex()[:200], enc.hex()[:200])
    if spec_hex is not None and spec_hex != "ok " + hlib.hexs(enc):
        res.violate("encode-not-E5", "encode() differs from Spec.E5.encode (Lean, via the driver)", case, spec_hex[:200], enc.hex()[:200])
    if K.has_nan(v):
        return enc
    try:
        fresh = K.fresh_var(s)
        pos = fresh.decode(prefix + enc, len(prefix))
    except Exception as exc:  # noqa: BLE001
        res.violate("decode-raises", f"decode(encode(v)) raised {type(exc).__name__}: {exc}", case)
        return enc
    back = K.val_of_var(fresh)
    want = K.norm_val(v)
    if back != want:
        res.violate("roundtrip-value", "decode(encode(v)) is not v", case, K.show_val(want)[:200], K.show_any(back)[:200])
    if pos != len(prefix) + len(enc):
        res.violate("roundtrip-position", "decode() did not consume exactly the encoded bytes", case, len(prefix) + len(enc), pos)
    return enc


TEXT_POOL = list(range(0x100)) + [0xA5, 0x203E] + list(range(0xFF61, 0xFFA0)) + [0xFF60, 0xFFA0, 0x100, 0x17F, 0x20AC, 0x3042, 0xFFFD, 0x1F600, 0x10FFFF, 0xD800]


def empty_of(v):
    t, xs = v
    return ("L", [empty_of(x) for x in xs]) if t == "L" else (t, [])


def refill(rng, v):
    """same shape, other elements (never more of them: count limits of the structure stay satisfied)"""
    t, xs = v
    if t == "L":
        return ("L", [refill(rng, x) for x in xs])
    n = rng.choice([0, len(xs), len(xs)]) if xs else 0
    return (t, K.gen_elems(rng, t, n))


def refill_for(rng, s, v):
    """like refill, but a leaf may also hold MORE elements than v has where the structure's count limit allows (so that an empty
    item is decoded into an object that holds something)"""
    t, xs = v
    k = s[0]
    if t == "L":
        if k == "arr":
            return ("L", [refill_for(rng, s[1], x) for x in xs])
        if k == "rec":
            return ("L", [refill_for(rng, f, x) for f, x in zip(s[1], xs)])
        return ("L", [refill_for(rng, ("any",), x) for x in xs])
    c = s[2] if k in ("leaf", "dyn") else -1
    top = max(len(xs), 3) if c == -1 else len(xs)
    n = rng.choice([0, len(xs), top, rng.range(0, top)])
    return (t, K.gen_elems(rng, t, n))


def oracle_reuse(res, s, start, seq):
    """decode into an object that ALREADY HOLDS a value (List.decode decodes into its existing field objects; a function object
    may be decoded into twice): after each decode the object holds exactly the decoded value and the position is the item's end.
    start: value the object holds at first (None = fresh); seq: values decoded one after the other (harness's own E5 bytes)."""
    case = {"kind": "reuse", "struct": js(s), "start": js(start) if start is not None else None, "seq": js(list(seq))}
    try:
        obj = K.build_var(s, start) if start is not None else K.fresh_var(s)
    except Exception as exc:  # noqa: BLE001
        res.notes.append(f"reuse oracle: could not build {K.show_struct(s)}: {type(exc).__name__}")
        return
    for k, v in enumerate(seq):
        enc = K.own_encode(v)
        try:
            pos = obj.decode(enc, 0)
        except Exception as exc:  # noqa: BLE001
            res.violate("reuse-decode-raises", f"decode #{k + 1} into an object already holding a value raised {type(exc).__name__}: {exc}", case)
            return
        want = K.norm_val(v)
        back = K.val_of_var(obj)
        if back != want:
            res.violate("reuse-stale-value", f"after decode #{k + 1} into an object that already held a value the object does not hold the decoded value",
                        case, K.show_val(want)[:200], K.show_any(back)[:200])
            return
        if pos != len(enc):
            res.violate("roundtrip-position", f"decode #{k + 1} into a used object did not consume exactly the item", case, len(enc), pos)
            return


def _set_obj(t, count, p):
    obj = K.VARCLS[t](count=count)
    obj.set(K.py_real(p))
    return obj


def reshape(rng, s, v):
    """another value of structure s: arrays get a different number of elements (also none), leaves other elements"""
    k = s[0]
    t, xs = v
    if k == "arr" and t == "L":
        n = rng.choice([0, 0, 1, 2, len(xs) + 1])
        proto = xs[0] if xs else None
        if proto is None:
            return ("L", [])
        return ("L", [reshape(rng, s[1], proto) for _ in range(n)])
    if k == "rec" and t == "L":
        return ("L", [reshape(rng, f, x) for f, x in zip(s[1], xs)])
    if t == "L":
        return v
    n = rng.choice([0, len(xs), len(xs)]) if xs else 0
    return (t, K.gen_elems(rng, t, n, "finite"))


def oracle_set_twice(res, s, v1, v2):
    """set() replaces: v1 then v2 on ONE object (and field by field through item / attribute assignment on a List) leaves exactly v2,
    encoded as the E5 bytes of v2"""
    case = {"kind": "settwice", "struct": js(s), "v1": js(v1), "v2": js(v2)}
    want = K.own_encode(v2)

    def check(obj, how):
        try:
            held = K.val_of_var(obj)
            enc = obj.encode()
        except Exception as exc:  # noqa: BLE001
            res.violate("set-twice-stale", f"after {how} the object cannot be read / encoded: {type(exc).__name__}: {exc}", dict(case, how=how))
            return
        if held != v2 or enc != want:
            res.violate("set-twice-stale", f"after {how} the object does not hold / encode the second value", dict(case, how=how),
                        K.show_val(v2)[:200], K.show_any(held)[:200])
    try:
        obj = K.fresh_var(s)
        obj.set(K.plain_for(s, v1))
    except Exception:  # noqa: BLE001
        return          # v1 not settable this way: nothing to compare
    try:
        obj.set(K.plain_for(s, v2))
    except Exception as exc:  # noqa: BLE001
        res.violate("set-twice-stale", f"the second set() on the same object raised {type(exc).__name__}: {exc}", case)
        return
    check(obj, "set(v1); set(v2)")
    if s[0] == "rec" and s[1]:
        for mode in ("item", "attr"):
            try:
                lst = K.fresh_var(s)
                lst.set(K.plain_for(s, v1))
                keys = list(lst.data.keys())
                for i, (f, x) in enumerate(zip(s[1], v2[1])):
                    if f[0] in ("dyn", "any"):
                        lst.data[keys[i]].set(K.plain_for(f, x))      # a typed object cannot be item-assigned into a Dynamic field
                    elif mode == "item":
                        lst[i] = K.plain_for(f, x)
                    else:
                        setattr(lst, keys[i], K.plain_for(f, x))
            except Exception as exc:  # noqa: BLE001
                res.violate("set-twice-stale", f"{mode} assignment of the second value raised {type(exc).__name__}: {exc}", dict(case, how=mode))
                continue
            check(lst, f"set(v1); field-wise {mode} assignment of v2")


PLAIN_SEQ = [("str", [97, 98, 99]), ("int", 5), ("bool", 1), ("int", 1), ("float", 0x3FF8000000000000), ("int", 300), ("bytes", [1, 2]), ("str", [55]),
             ("int", -7), ("bool", 0), ("int", 0), ("str", [73, 68, 76, 69]), ("int", 17), ("int", 70000), ("float", 0x4000000000000000)]


def oracle_dynamic_resets(res, make, label, p1, p2):
    """a Dynamic / ANYVALUE / data item object given p1 then p2 ends exactly like a FRESH one given p2 (type and bytes)"""
    case = {"kind": "dynseq", "obj": label, "p1": js(p1), "p2": js(p2)}

    def outcome(ps):
        try:
            d = make()
            for p in ps:
                d.set(K.py_real(p))
            return "ok " + K.show_obj(d) + " " + d.encode().hex()
        except Exception as exc:  # noqa: BLE001
            return "err " + hlib.errkind(exc)
    try:
        d0 = make()
        d0.set(K.py_real(p1))
    except Exception:  # noqa: BLE001
        return
    fresh, used = outcome([p2]), outcome([p1, p2])
    if fresh != used:
        res.violate("set-twice-differs-from-fresh", f"{label}: set({K.show_py(p1)}) then set({K.show_py(p2)}) differs from a fresh object given the second value",
                    case, fresh[:200], used[:200])


def dynamic_makers():
    import secsgem.secs.data_items as D
    from secsgem.secs.variables.dynamic import ANYVALUE
    out = [("ANYVALUE", ANYVALUE), ("Dynamic([])", lambda: V.Dynamic([])), ("Dynamic([String,U1,U2,Boolean])", lambda: V.Dynamic([V.String, V.U1, V.U2, V.Boolean])),
           ("Dynamic([Boolean,U1,I2,F4,String,Binary])", lambda: V.Dynamic([V.Boolean, V.U1, V.I2, V.F4, V.String, V.Binary])),
           ("Dynamic([U1,String],count=3)", lambda: V.Dynamic([V.U1, V.String], count=3))]
    for name in ("SV", "SVID", "ECV", "CPVAL", "MID", "CEID"):
        c = getattr(D, name, None)
        if c is not None:
            out.append((name, c))
    return out


def oracle_ctor_path(res, s, v):
    """the value handed to the CONSTRUCTOR (of a leaf, Dynamic, ANYVALUE, Array, List) is held and encoded, empty / zero values included"""
    case = {"kind": "ctorpath", "struct": js(s), "val": js(v)}
    try:
        ref = K.fresh_var(s)
        ref.set(K.plain_for(s, v))
    except Exception:  # noqa: BLE001
        return          # not settable this way
    try:
        obj = K.ctor_var(s, K.plain_for(s, v))
        held = K.val_of_var(obj)
        enc = obj.encode()
    except Exception as exc:  # noqa: BLE001
        res.violate("ctor-drops-value", f"an object built with the value as constructor argument cannot be read / encoded: {type(exc).__name__}: {exc}", case)
        return
    if held != v or enc != K.own_encode(v):
        res.violate("ctor-drops-value", "an object built with the value as constructor argument does not hold / encode it", case,
                    K.show_val(v)[:200], K.show_any(held)[:200])


FALSY = [("int", 0), ("float", 0), ("float", 0x8000000000000000), ("bool", 0), ("str", []), ("bytes", []), ("list", []), ("ba", []), ("tuple", [])]


def ctor_makers():
    """(label, constructor taking the value, the same object built empty) for Dynamic-like classes and every leaf class"""
    import secsgem.secs.data_items as D
    from secsgem.secs.variables.dynamic import ANYVALUE
    out = [("ANYVALUE", ANYVALUE), ("Dynamic([U1,U2])", lambda *a: V.Dynamic([V.U1, V.U2], *a)), ("Dynamic([])", lambda *a: V.Dynamic([], *a)),
           ("Dynamic([Boolean,U1,F4,String,Binary])", lambda *a: V.Dynamic([V.Boolean, V.U1, V.F4, V.String, V.Binary], *a)),
           ("Dynamic([String,Binary],count=3)", lambda *a: V.Dynamic([V.String, V.Binary], *(a or (None,)), 3))]
    for name in dir(D):
        c = getattr(D, name)
        if isinstance(c, type) and issubclass(c, D.DataItemBase) and c is not D.DataItemBase:
            out.append((name, c))
    for t, c in K.VARCLS.items():
        out.append((t, c))
    return out


def oracle_ctor_plain(res, label, mk, p):
    """`C(p)` ends exactly like `c = C(); c.set(p)` — type, value, bytes (or the same kind of refusal)"""
    case = {"kind": "ctorplain", "obj": label, "py": js(p)}

    def outcome(build):
        try:
            o = build()
            return "ok " + K.show_obj(o) + " " + o.encode().hex()
        except Exception as exc:  # noqa: BLE001
            return "err " + hlib.errkind(exc)

    def via_set():
        o = mk()
        o.set(K.py_real(p))
        return o
    a, b = outcome(via_set), outcome(lambda: mk(K.py_real(p)))
    if p == ("none",) or (a.startswith("err") and b.startswith("err")):
        return
    if a != b:
        res.violate("ctor-drops-value", f"{label}({K.show_py(p)}) differs from {label}() followed by set({K.show_py(p)})", case, a[:200], b[:200])


def consistent_domain(t, count, p):
    """(class, count, value form) combinations on which `supports_value` and `set()` are meant to agree.  Left out, as the code
    behaves on the unchanged tree: Boolean with count 0 (supports_value uses `0 < count`, set `0 <= count`), numeric classes given a
    container (set() converts members with int()/float(), supports_value type-checks them) or a bytearray"""
    k = p[0]
    if t == "BOOLEAN" and count == 0:
        return False
    if t in K.NUMERIC and k in ("list", "tuple", "ba"):
        return all(q[0] == "int" for q in p[1]) if k != "ba" else False
    if t == "BOOLEAN" and k == "ba":
        return False
    return True


def oracle_supports(res, t, count, p):
    """`T(count).supports_value(p)` says what `T(count).set(p)` does (at the length limits in particular)"""
    if not consistent_domain(t, count, p):
        return
    case = {"kind": "supports", "type": t, "count": count, "py": js(p)}
    x = K.py_real(p)
    try:
        sup = bool(K.VARCLS[t](count=count).supports_value(x))
    except Exception as exc:  # noqa: BLE001
        res.violate("supports-value-inconsistent", f"supports_value raised {type(exc).__name__}: {exc}", case)
        return
    acc = K.accepts(K.VARCLS[t], count, x)
    if sup != acc:
        res.violate("supports-value-inconsistent", f"{t}(count={count}).supports_value says {sup} but set() {'accepts' if acc else 'refuses'} the value",
                    case, acc, sup)


def oracle_type_choice(res, tags, count, p):
    """a Dynamic with a length limit stores a plain value in the first declared type that takes it (as the class's own set() decides),
    and the bytes are those of that type"""
    if any(not consistent_domain(g, count, p) for g in tags):
        return
    case = {"kind": "typechoice", "types": list(tags), "count": count, "py": js(p)}
    classes = [K.VARCLS[g] for g in tags]
    x = K.py_real(p)
    want = K.reference_type(classes, count, x)
    try:
        d = V.Dynamic(list(classes), count=count)
        d.set(x)
        got, enc = type(d.value), d.encode()
    except Exception as exc:  # noqa: BLE001
        if want is not None:
            res.violate("dynamic-type-choice", f"Dynamic({'/'.join(tags)}, count={count}) refuses a value its first fitting type {want.__name__} accepts: "
                        f"{type(exc).__name__}", case, want.__name__, hlib.errkind(exc))
        return
    if want is None or got is not want:
        res.violate("dynamic-type-choice", f"Dynamic({'/'.join(tags)}, count={count}) stores the value as {got.__name__}, the first declared type that "
                    f"accepts it is {getattr(want, '__name__', None)}", case, getattr(want, "__name__", None), got.__name__)
        return
    ref = want(count=count)
    ref.set(x)
    if enc != ref.encode():
        res.violate("dynamic-type-choice", "Dynamic encodes the value differently from the chosen type itself", case, ref.encode().hex()[:200], enc.hex()[:200])


TYPE_LISTS = [("A", "B"), ("B", "A"), ("J", "B"), ("A", "U1", "B"), ("U1", "A"), ("A", "U4"), ("BOOLEAN", "U1", "A"), ("I2", "F4", "A", "B"), ("B",), ("A",), ("J", "A")]


def _py_elem(t, e):
    return bool(e) if t == "BOOLEAN" else K.b2f(e) if t in ("F4", "F8") else e


def _nodes(obj, s, out, path=""):
    """(object, structure, public path) of every node of a live variable tree"""
    out.append((obj, s, path))
    k = s[0]
    if k == "arr" and isinstance(obj, V.Array):
        for i, c in enumerate(obj.data):
            _nodes(c, s[1], out, f"{path}[{i}]")
    elif k == "rec" and isinstance(obj, V.List):
        for i, (key, f) in enumerate(zip(list(obj.data.keys()), s[1])):
            _nodes(obj.data[key], f, out, f"{path}[{i}]")


def oracle_opseq(res, s, v, seed, steps=8):
    """a random sequence of PUBLIC mutations on one object — set(), decode() into it, item assignment on numbers / Booleans / through a
    Dynamic, `.value =`, Array.append, element and field assignment on Array / List (item and attribute form), also on nested members —
    with encode() after every step: the bytes are always the E5 encoding of what the object holds at that moment"""
    rng = hlib.Rng(seed)
    case = {"kind": "opseq", "struct": js(s), "val": js(v), "seed": seed, "ops": []}
    try:
        obj = K.ctor_var(s, K.plain_for(s, v))
    except Exception:  # noqa: BLE001
        return

    def consistent(after):
        try:
            held = K.val_of_var(obj)
            if held == "NONE" or "NONE" in K.show_any(held) or K.has_nan(held):
                return True
            want = K.own_encode(held)
        except Exception:  # noqa: BLE001
            return True
        try:
            enc = obj.encode()
        except Exception as exc:  # noqa: BLE001
            res.violate("opseq-encode-stale", f"after {after}: encode() raised {type(exc).__name__}: {exc}", case, K.show_val(held)[:200])
            return False
        if enc != want:
            res.violate("opseq-encode-stale", f"after {after}: encode() is not the encoding of the value the object holds", case,
                        f"{K.show_val(held)[:120]} = {want.hex()[:80]}", enc.hex()[:120])
            return False
        return True
    if not consistent("construction"):
        return
    for _ in range(steps):
        nodes = []
        _nodes(obj, s, nodes)
        node, ns, path = rng.choice(nodes)
        k = ns[0]
        op, fn = None, None
        r = rng.below(10)
        try:
            cur = K.val_of_var(node)
        except Exception:  # noqa: BLE001
            cur = None
        if cur in (None, "NONE") or (isinstance(cur, tuple) and "NONE" in K.show_any(cur)):
            w = None
        else:
            w = reshape(rng, ns if k not in ("dyn", "any") else ("leaf", cur[0], ns[2] if k == "dyn" else -1), cur) if not K.has_list_under_dyn(ns, cur) else None
        if k in ("leaf", "dyn", "any") and cur not in (None, "NONE") and cur[0] in K.NUMERIC + ["BOOLEAN"] and cur[1] and r < 4:
            i = rng.below(len(cur[1]))
            x = _py_elem(cur[0], K.gen_elems(rng, cur[0], 1, "finite")[0])
            op, fn = f"obj{path}[{i}] = {x!r}", (lambda node=node, i=i, x=x: node.__setitem__(i, x))
        elif k == "leaf" and cur is not None and r < 6:
            new = K.gen_elems(rng, cur[0], len(cur[1]), "finite")
            payload = K.leaf_payload(cur[0], new)
            op, fn = f"obj{path}.value = {payload!r}"[:120], (lambda node=node, payload=payload: setattr(node, "value", payload))
        elif k == "arr" and cur is not None and r < 3 and cur[1] and not K.has_list_under_dyn(ns[1], cur[1][0]):
            el = reshape(rng, ns[1], cur[1][0])
            op, fn = f"obj{path}.append(...)", (lambda node=node, ns=ns, el=el: node.append(K.plain_for(ns[1], el)))
        elif k in ("arr", "rec") and cur is not None and cur[1] and r < 6:
            i = rng.below(len(cur[1]))
            fs = ns[1] if k == "arr" else ns[1][i]
            if fs[0] not in ("dyn", "any") and not K.has_list_under_dyn(fs, cur[1][i]):
                el = reshape(rng, fs, cur[1][i])
                if k == "rec" and rng.chance(1, 2):
                    key = list(node.data.keys())[i]
                    op, fn = f"obj{path}.{key} = ...", (lambda node=node, key=key, fs=fs, el=el: setattr(node, key, K.plain_for(fs, el)))
                else:
                    op, fn = f"obj{path}[{i}] = ...", (lambda node=node, i=i, fs=fs, el=el: node.__setitem__(i, K.plain_for(fs, el)))
        if op is None and w is not None:
            if rng.chance(1, 2):
                op, fn = f"obj{path}.set(...)", (lambda node=node, ns=ns, w=w: node.set(K.plain_for(ns, w)))
            else:
                op, fn = f"obj{path}.decode(...)", (lambda node=node, w=w: node.decode(K.own_encode(w), 0))
        if op is None:
            continue
        case["ops"].append(op)
        try:
            fn()
        except Exception:  # noqa: BLE001
            case["ops"][-1] += "  (raised)"
        if not consistent(" ; ".join(case["ops"])[-300:]):
            return


NAN64 = [0x7FF8000000000000, 0xFFF8000000000000, 0x7FF0000000000001, 0xFFF4000000000000, 0x7FFFFFFFFFFFFFFF]
NAN32 = [0x7FC00000, 0xFFC00000, 0x7F800001, 0xFFA00000, 0x7FFFFFFF]


def oracle_nan(res, t, bits):
    """NaN: whatever the type decides, it decides the same on every path (scalar, list, tuple, constructor, typed object in a Dynamic,
    member of an Array, decode) — and a NaN that is accepted encodes to bytes the type decodes again"""
    case = {"kind": "nan", "type": t, "bits": f"{bits:016x}"}
    cls = K.VARCLS[t]
    x = K.b2f(bits)
    wire = struct.pack(">f", x) if t == "F4" else bits.to_bytes(8, "big")
    enc_item = K.own_header(K.CODE[t], len(wire)) + wire

    def arr_set():
        a = V.Array(K.data_format(("leaf", t, -1)))
        a.set([[x]])

    def dyn_plain():
        d = V.Dynamic([cls])
        d.set(x)
    paths = {
        "set(scalar)": lambda: cls().set(x), "set([x])": lambda: cls().set([x]), "set((x,))": lambda: cls().set((x,)),
        "constructor(x)": lambda: cls(x), "constructor([x])": lambda: cls([x]), "Dynamic.set(T(x))": lambda: V.Dynamic([cls]).set(cls(x)),
        "Dynamic.set(x)": dyn_plain, "Array.set([[x]])": arr_set,
        "decode": lambda: cls().decode(enc_item), "ANYVALUE.decode": lambda: K.fresh_var(("any",)).decode(enc_item),
        "Array.decode": lambda: V.Array(K.data_format(("leaf", t, -1))).decode(K.own_header(0, 1) + enc_item),
    }
    outcome = {}
    for name, fn in paths.items():
        try:
            fn()
            outcome[name] = "accepted"
        except Exception as exc:  # noqa: BLE001
            outcome[name] = "refused:" + hlib.errkind(exc)
    kinds = {o.split(":")[0] for o in outcome.values()}
    if len(kinds) > 1:
        res.violate("nan-inconsistent", f"{t}: NaN {bits:016x} is accepted on some paths and refused on others", dict(case, paths=outcome),
                    None, ", ".join(f"{k}={o}" for k, o in outcome.items())[:400])
        return
    if kinds == {"accepted"}:
        try:
            obj = cls(x)
            enc = obj.encode()
            fresh = cls()
            pos = fresh.decode(enc)
            back = K.val_of_var(fresh)
            ok = pos == len(enc) and len(back[1]) == 1 and K.is_nan(back[1][0]) and enc == enc_item[:2] + enc[2:]
        except Exception as exc:  # noqa: BLE001
            res.violate("nan-not-roundtrip", f"{t}: an accepted NaN does not encode / decode: {type(exc).__name__}: {exc}", case)
            return
        if not ok:
            res.violate("nan-not-roundtrip", f"{t}: an accepted NaN does not come back as a NaN at the right position", case, len(enc), pos)


def oracle_var_alias(res, t, elems, alt):
    """a numeric / Boolean variable keeps its own copy of a python list it is built or set from: editing the list afterwards (append,
    item assignment, clear, refilling one scratch list for several rows) does not change the variable, and `var[i] = x` does not write
    into the caller's list.  (Binary given a *bytearray* is left out: it adopts the caller's bytearray on the unchanged tree.)"""
    cls = K.VARCLS[t]
    case = {"kind": "varalias", "type": t, "elems": list(elems), "alt": alt}
    py = [_py_elem(t, e) for e in elems]
    x = _py_elem(t, alt)
    builders = {"constructor": lambda src: cls(src), "set": lambda src: _after_set(cls(), src),
                "Dynamic.set": lambda src: _after_set(V.Dynamic([cls]), src),
                "Array.set": lambda src: _after_set(V.Array(K.data_format(("leaf", t, -1))), [src])}
    for how, build in builders.items():
        for edit in ("append", "setitem", "clear", "var[i]=x"):
            src = list(py)
            try:
                obj = build(src)
                held, enc = K.val_of_var(obj), obj.encode()
            except Exception:  # noqa: BLE001
                break
            keep = list(src)
            try:
                if edit == "append":
                    src.append(x)
                elif edit == "setitem":
                    if not src:
                        continue
                    src[0] = x
                elif edit == "clear":
                    src.clear()
                else:
                    if not src or how == "Array.set":
                        continue
                    obj[0] = x
                    if src != keep:
                        res.violate("variable-aliases-argument", f"{t}: `var[0] = x` on a variable built by {how} from a list changed the caller's list",
                                    dict(case, how=how, edit=edit), repr(keep)[:120], repr(src)[:120])
                        return
                    continue
                now, enc2 = K.val_of_var(obj), obj.encode()
            except Exception as exc:  # noqa: BLE001
                res.violate("variable-aliases-argument", f"{t}: after the caller edited its list ({edit}) the variable built by {how} fails: {type(exc).__name__}: {exc}",
                            dict(case, how=how, edit=edit))
                return
            if now != held or enc2 != enc:
                res.violate("variable-aliases-argument", f"{t}: the variable built by {how} from a list changed when the caller edited the list ({edit})",
                            dict(case, how=how, edit=edit), K.show_any(held)[:160], K.show_any(now)[:160])
                return
    # rows built from one scratch list
    rows = [[_py_elem(t, e) for e in K.gen_elems(hlib.Rng(alt & 0xFFFF), t, len(py) or 1, "finite")] for _ in range(3)]
    scratch, objs = [], []
    try:
        for r in rows:
            scratch[:] = r
            objs.append(cls(scratch))
        encs = [o.encode() for o in objs]
        want = [cls(list(r)).encode() for r in rows]
    except Exception:  # noqa: BLE001
        return
    if encs != want:
        res.violate("variable-aliases-argument", f"{t}: variables built one after the other from one refilled scratch list do not keep their own rows",
                    dict(case, how="scratch rows"), [w.hex() for w in want][:3], [e.hex() for e in encs][:3])


def _after_set(obj, value):
    obj.set(value)
    return obj


TWIN_STRUCTS = [("leaf", "B", 1), ("leaf", "B", 3), ("rec", [("leaf", "B", 1), ("leaf", "U1", -1), ("leaf", "B", 3)]), ("arr", ("rec", [("leaf", "B", 2), ("leaf", "A", -1)]), -1),
                ("rec", [("dyn", ["U1", "A"], -1), ("leaf", "BOOLEAN", 1), ("arr", ("leaf", "B", 1), -1)]), ("leaf", "U2", -1), ("leaf", "A", 5), ("dyn", ["B", "U1"], 2)]


def oracle_twins(res, s, seed):
    """isolation: two objects the library generates from ONE structure definition are independent — whatever is done to the first through
    public paths (index assignment on still unset members included), the second stays as it was, and a third one generated afterwards is fresh"""
    from secsgem.secs.variables import functions as vfunctions
    rng = hlib.Rng(seed)
    case = {"kind": "twins", "struct": js(s), "seed": seed, "ops": []}
    try:
        fmt = K.data_format(s)
        a, b = vfunctions.generate(fmt), vfunctions.generate(fmt)
        fresh0 = K.show_obj(b)
    except Exception:  # noqa: BLE001
        return

    def check(after):
        try:
            nb = K.show_obj(b)
            c = K.show_obj(vfunctions.generate(fmt))
        except Exception as exc:  # noqa: BLE001
            res.violate("objects-share-state", f"after {after}: a sibling object cannot be read: {type(exc).__name__}", case)
            return False
        if nb != fresh0 or c != fresh0:
            res.violate("objects-share-state", f"after {after} on ONE object, {'a second object generated earlier' if nb != fresh0 else 'an object generated afterwards'} "
                        "from the same structure is no longer in its fresh state", case, fresh0[:200], (nb if nb != fresh0 else c)[:200])
            return False
        return True
    for _ in range(10):
        nodes = []
        _nodes(a, s, nodes)
        node, ns, path = rng.choice(nodes)
        k = ns[0]
        op = fn = None
        r = rng.below(6)
        t = ns[1] if k == "leaf" else (rng.choice(ns[1]) if k == "dyn" and ns[1] else None)
        if k == "leaf" and t in ("B",) + tuple(K.NUMERIC) + ("BOOLEAN",) and r < 3:
            i = rng.below(max(ns[2], 1))
            x = _py_elem(t, K.gen_elems(rng, t, 1, "finite")[0] or 1)
            op, fn = f"obj{path}[{i}] = {x!r}", (lambda node=node, i=i, x=x: node.__setitem__(i, x))
        elif k == "arr" and r < 3:
            v = c03_value(rng, ns[1])
            op, fn = f"obj{path}.append(...)", (lambda node=node, ns=ns, v=v: node.append(K.plain_for(ns[1], v)))
        else:
            v = c03_value(rng, ns)
            if rng.chance(1, 2):
                op, fn = f"obj{path}.set(...)", (lambda node=node, ns=ns, v=v: node.set(K.plain_for(ns, v)))
            else:
                op, fn = f"obj{path}.decode(...)", (lambda node=node, v=v: node.decode(K.own_encode(v), 0))
        case["ops"].append(op)
        try:
            fn()
        except Exception:  # noqa: BLE001
            case["ops"][-1] += "  (raised)"
        if not check(" ; ".join(case["ops"])[-300:]):
            return


def c03_value(rng, s):
    import c03_fn
    return c03_fn.gen_for(rng, s)


def oracle_accepted(res, t, count, p):
    """the property on ANY value the implementation accepts: T(count).set(p) succeeded -> the held value has an E5 encoding,
    encode() is that encoding, and it decodes back to the held value at the right position"""
    case = {"kind": "accepted", "type": t, "count": count, "py": js(p)}
    try:
        obj = K.VARCLS[t](count=count)
        obj.set(K.py_real(p))
    except Exception:  # noqa: BLE001
        return          # not accepted: outside the quantifier
    held = K.val_of_var(obj)
    if K.has_nan(held):
        return
    # character codes / bytes given to a text class stand for the encoded bytes: the text held is their E5 reading
    if t in ("A", "J") and p[0] in ("list", "tuple", "bytes", "ba"):
        codes = [int(q[1]) for q in p[1]] if p[0] in ("list", "tuple") else list(p[1])
        want = [K.jis_char(b) if t == "J" else b for b in codes]
        if held[1] != want:
            res.violate("set-changes-value", "a text variable set from character codes / bytes does not hold the text these bytes stand for",
                        case, K.show_val((t, want))[:200], K.show_val(held)[:200])
            return
    try:
        own = K.own_encode(held)
    except Exception:  # noqa: BLE001
        own = None
    try:
        enc = obj.encode()
    except Exception as exc:  # noqa: BLE001
        res.violate("encode-raises", f"encode() of an accepted value raised {type(exc).__name__}: {exc}", case, K.show_val(held)[:200])
        return
    if own is None:
        res.violate("accepts-value-without-E5-encoding", "set() accepted a value the item format cannot represent, and encode() sent bytes for it",
                    case, K.show_val(held)[:200], enc.hex()[:200])
    elif enc != own:
        res.violate("encode-not-E5", "encode() differs from the E5 byte string", case, own.hex()[:200], enc.hex()[:200])
    dcount = count
    if not K.count_ok(t, count, len(held[1])):
        # quirk kept as is: the scalar branch of set() does not look at `count` (only count=0 can be exceeded that way);
        # the count limit is instance configuration, not part of the value: decode without it
        dcount = -1
        res.bump("quirks", "scalar set() ignores count")
    try:
        fresh = K.VARCLS[t](count=dcount)
        pos = fresh.decode(enc)
        back = K.val_of_var(fresh)
    except Exception as exc:  # noqa: BLE001
        res.violate("decode-raises", f"decode(encode(v)) raised {type(exc).__name__}: {exc}", case, K.show_val(held)[:200])
        return
    if back != K.norm_val(held):
        res.violate("roundtrip-value", "decode(encode(v)) is not v", case, K.show_val(K.norm_val(held))[:200], K.show_any(back)[:200])
    elif pos != len(enc):
        res.violate("roundtrip-position", "decode() did not consume exactly the encoded bytes", case, len(enc), pos)


def unjs_py(x):
    if isinstance(x, list) and x and isinstance(x[0], str):
        if x[0] in ("list", "tuple"):
            return (x[0], [unjs_py(y) for y in x[1]])
        if x[0] == "obj":
            return ("obj", unjs(x[1]))
        return tuple(x)
    return x


def replay_case(res, case):
    k = case.get("kind")
    if k == "reuse":
        oracle_reuse(res, unjs(case["struct"]), unjs(case["start"]) if case["start"] is not None else None, [unjs(x) for x in case["seq"]])
    elif k == "accepted":
        oracle_accepted(res, case["type"], case["count"], unjs_py(case["py"]))
    elif k == "ctorpath":
        oracle_ctor_path(res, unjs(case["struct"]), unjs(case["val"]))
    elif k == "ctorplain":
        mk = dict(ctor_makers()).get(case["obj"])
        if mk is not None:
            oracle_ctor_plain(res, case["obj"], mk, unjs_py(case["py"]))
    elif k == "supports":
        oracle_supports(res, case["type"], case["count"], unjs_py(case["py"]))
    elif k == "typechoice":
        oracle_type_choice(res, case["types"], case["count"], unjs_py(case["py"]))
    elif k == "opseq":
        oracle_opseq(res, unjs(case["struct"]), unjs(case["val"]), case["seed"])
    elif k == "nan":
        oracle_nan(res, case["type"], int(case["bits"], 16))
    elif k == "varalias":
        oracle_var_alias(res, case["type"], case["elems"], case["alt"])
    elif k == "twins":
        oracle_twins(res, unjs(case["struct"]), case["seed"])
    elif k == "settwice":
        oracle_set_twice(res, unjs(case["struct"]), unjs(case["v1"]), unjs(case["v2"]))
    elif k == "dynseq":
        mk = dict(dynamic_makers()).get(case["obj"])
        if mk is not None:
            oracle_dynamic_resets(res, mk, case["obj"], unjs_py(case["p1"]), unjs_py(case["p2"]))
    elif k == "roundtrip":
        oracle_roundtrip(res, unjs(case["struct"]), unjs(case["val"]), bytes.fromhex(case["prefix"]))
    elif k == "header":
        oracle_header(res, case["code"], case["length"])
    elif k == "big":
        oracle_big(res, case["type"], case["n"], case["fill"])
    elif k == "set":
        oracle_set(res, case["type"], unjs(case["elems"]))


def oracle_header(res, code, length):
    obj = V.U1()
    obj.format_code = code
    case = {"kind": "header", "code": code, "length": length}
    try:
        got = obj.encode_item_header(length)
    except ValueError:
        got = None
    except Exception as exc:  # noqa: BLE001
        res.violate("header", f"encode_item_header raised {type(exc).__name__}", case)
        return
    want = K.own_header(code, length) if 0 <= length <= 0xFFFFFF else None
    if got != want:
        res.violate("header", "item header is not format byte + minimal big-endian length", case,
                    None if want is None else want.hex(), None if got is None else got.hex())


def oracle_big(res, t, n, fill):
    """one long payload through encode/decode on the real classes"""
    case = {"kind": "big", "type": t, "n": n, "fill": fill}
    es = bytes([fill]) * n if fill >= 0 else bytes((i * 7 + 3) % 256 for i in range(n))
    if t == "BOOLEAN":
        es = bytes(b & 1 for b in es)
    v = (t, list(es))
    want = K.own_header(K.CODE[t], n * K.WIDTH[t]) + es
    try:
        obj = K.build_leaf(t, v[1])
        enc = obj.encode()
    except Exception as exc:  # noqa: BLE001
        res.violate("encode-raises", f"{t} with {n} elements: encode() raised {type(exc).__name__}: {exc}", case)
        return v, want
    if enc != want:
        res.violate("encode-not-E5", f"{t} with {n} elements: encode() differs from the E5 byte string", case, want[:8].hex(), enc[:8].hex())
    try:
        fresh = K.VARCLS[t]()
        pos = fresh.decode(enc)
    except Exception as exc:  # noqa: BLE001
        res.violate("decode-raises", f"{t} with {n} elements: decode(encode(v)) raised {type(exc).__name__}: {exc}", case)
        return v, enc
    if K.val_of_var(fresh) != v or pos != len(enc):
        res.violate("roundtrip-value", f"{t} with {n} elements does not round-trip", case, len(enc), pos)
    return v, enc


def oracle_set(res, t, elems):
    """a value handed to the constructor is held, encoded as E5 says and decoded back"""
    case = {"kind": "set", "type": t, "elems": js(elems)}
    try:
        obj = K.VARCLS[t](K.leaf_payload(t, elems))
    except Exception:  # noqa: BLE001
        return          # not an accepted value: outside the property's quantifier
    v = (t, elems)
    if K.has_nan(v):
        return
    held = K.val_of_var(obj)
    if held != v:
        res.violate("set-changes-value", "constructor holds a different value than it was given", case, K.show_val(v)[:200], K.show_any(held)[:200])
        return
    try:
        enc = obj.encode()
    except Exception as exc:  # noqa: BLE001
        res.violate("encode-raises", f"encode() of an accepted value raised {type(exc).__name__}: {exc}", case)
        return
    if enc != K.own_encode(v):
        res.violate("encode-not-E5", "encode() differs from the E5 byte string", case, K.own_encode(v).hex()[:200], enc.hex()[:200])
    try:
        fresh = K.VARCLS[t]()
        pos = fresh.decode(enc)
        back = K.val_of_var(fresh)
    except Exception as exc:  # noqa: BLE001
        res.violate("decode-raises", f"decode(encode(v)) raised {type(exc).__name__}: {exc}", case)
        return
    if back != K.norm_val(v) or pos != len(enc):
        res.violate("roundtrip-value", "decode(encode(v)) is not v", case, K.show_val(K.norm_val(v))[:200], K.show_any(back)[:200])


# ---------------------------------------------------------------------------------------------- generators of pyval terms for set()
def gen_pyval(rng, t):
    """a constructor / set() argument for leaf class t (inside the modelled part of set())"""
    lo, hi = K.int_range(t) if t in K.INTS else (0, 255)
    isf = t in ("F4", "F8")

    def scalar():
        r = rng.below(12)
        if r < 5:
            pool = [lo, hi, lo - 1, hi + 1, 0, 1, -1, 255, 256, 2, 48]
            return ("int", rng.choice(pool) if rng.chance(2, 3) else rng.range(lo - 2, hi + 2))
        if r < 6:
            return ("bool", rng.below(2))
        if r < 8:
            pool = K.F64_SPECIAL + K.f4_accepted_pool()[:30] + K.f4_rejected_pool() + K.NANS + [0x4004000000000000, 0xC004000000000000, 0x433FFFFFFFFFFFFF, 0x43E0000000000000, 0xC3E0000000000001, 0x43F0000000000000]
            return ("float", rng.choice(pool))
        if r < 10 and not isf:
            pool = ["0", "1", "-1", "+7", "255", "256", "-129", "abc", "", "1.5", "--1", "TRUE", "yes", "No", "false", "12a", str(hi), str(hi + 1), str(lo - 1)]
            s = rng.choice(pool)
            return ("str", [ord(c) for c in s]) if rng.chance(2, 3) else ("bytes", list(s.encode()))
        if r < 11:
            return ("none",)
        return ("int", rng.range(-(2 ** 70), 2 ** 70) if not isf else rng.range(-(2 ** 60), 2 ** 60))
    if t in ("A", "J", "B"):
        r = rng.below(10)
        n = rng.choice([0, 1, 2, 3, 5, 8])
        if r < 3:
            pool = TEXT_POOL if rng.chance(2, 3) else [0x5C, 0x7E, 0xA5, 0x203E, 0xFF61, 0xFF9F, 0xA1, 0xDF, 0xE0, 0x7F, 0x80, 0xA0, 0xFF, 65, 97]
            return ("str", [rng.choice(pool) for _ in range(n)])
        if r < 5:
            return (rng.choice(["bytes", "ba"]), list(rng.bytes(n)) if rng.chance(1, 2) else [rng.below(128) for _ in range(n)])
        if r < 7:
            items = []
            for _ in range(n):
                q = rng.below(8)
                items.append(("int", rng.choice([0, 1, 65, 127, 128, 255, 256, -1])) if q < 6 else ("bool", rng.below(2)) if q < 7 else ("str", [65]))
            return (rng.choice(["list", "tuple"]), items)
        if r < 8:
            return ("int", rng.choice([0, 5, 255, 256, -1, -125, 1234567]))
        if r < 9:
            return ("bool", rng.below(2))
        return ("none",) if rng.chance(1, 2) else (("float", 0x3FF8000000000000) if t == "B" else ("int", 42))
    if t == "BOOLEAN":
        r = rng.below(10)
        if r < 4:
            items = []
            for _ in range(rng.choice([0, 1, 2, 3, 5])):
                q = rng.below(8)
                items.append(("bool", rng.below(2)) if q < 3 else ("int", rng.choice([0, 1, 2, -1])) if q < 6 else ("str", [ord(c) for c in rng.choice(["TRUE", "yes", "No", "false", "maybe", ""])]))
            return (rng.choice(["list", "tuple"]), items)
        if r < 5:
            return ("ba", [rng.choice([0, 1, 1, 0, 2]) for _ in range(rng.below(5))])
        return scalar()
    r = rng.below(10)
    if r < 5:
        return (rng.choice(["list", "tuple"]), [scalar() for _ in range(rng.choice([0, 1, 2, 3, 5]))])
    if r < 6:
        return ("ba", list(rng.bytes(rng.below(5))))
    return scalar()


def modelled(t, p):
    isf = t in ("F4", "F8")
    k = p[0]
    if k in ("str", "bytes"):
        return not isf
    if k == "float":
        return t not in ("A", "J")
    if k in ("list", "tuple"):
        return all(not (q[0] in ("str", "bytes", "ba") and isf) for q in p[1])
    return k != "obj"


def main():
    a = hlib.std_args()
    replay_cases = []
    if a.replay:
        body = json.load(open(a.replay))
        a.seed, a.tier = body.get("seed", a.seed), body.get("tier", a.tier)
        replay_cases = [v["case"] for v in body.get("violations", []) if isinstance(v.get("case"), dict)]
    res = hlib.Result(PROP, a.tier, a.seed)
    rng = hlib.Rng(a.seed ^ 0xC01)
    drv = K.BigDriver()
    big = a.tier == "thorough" or a.search
    res.rule = ("type-directed: every item type x element counts 0,1,2,3,254..257 and random; numeric boundaries of each width (min, min+1, -1, 0, 1, max-1, max); "
                "F4/F8: +-0, min/max subnormal, min normal, +-FLT_MAX/DBL_MAX, binary32 rounding ties +-1ulp(64), NaN payloads (correspondence only); "
                "text/binary: all 256 byte values; nesting depth <= 6 (and one chain of depth 40), <= 40 nodes; typed structures (leaf/Dynamic/Array/List/ANYVALUE) "
                "derived from the value; decode of canonical bytes at offsets 0..5, of every truncation and of header mutations; constructor input forms; "
                "payloads of 65535/65536 bytes in quick, 16777215/16777216 in thorough. distinct = distinct (structure, value / bytes); "
                "non-trivial = not an input-syntax error")

    for case in replay_cases:
        replay_case(res, case)
        res.count(("replay", json.dumps(case, sort_keys=True)))

    # ------------------------------------------------------------------ A. item header: Gen.ItemHeaderVar vs Base.encode_item_header
    lens = [-2, -1, 0, 1, 2, 127, 128, 254, 255, 256, 257, 511, 512, 65534, 65535, 65536, 65537, 16777214, 16777215, 16777216, 16777217, 2 ** 31, 2 ** 32 + 5]
    try:
        facts = json.load(open(os.path.join(hlib.ROOT, "gen", "facts.json")))
        for n in facts.get("ItemHeaderVar", {}).get("literals", []):
            lens += [n - 1, n, n + 1]
    except Exception:  # noqa: BLE001
        pass
    lens = sorted(set(lens))
    cases, lines, answers = [], [], []
    codes = sorted(set(K.CODE.values())) + [1, 63, 64, -1]
    for code in codes:
        for ln in lens + [rng.range(0, 0xFFFFFF) for _ in range(6 if big else 2)]:
            obj = V.U1()
            obj.format_code = code
            cases.append({"code": code, "len": ln})
            lines.append(f"codec hdr {code} {ln}")
            answers.append(K.impl(lambda: hlib.hexs(obj.encode_item_header(ln))))
            res.count(("hdr", code, ln), sample={"op": "item header", "code": code, "length": ln} if len(cases) < 3 else None)
            res.bump("header_len_bytes", answers[-1][3:5] if answers[-1].startswith("ok") else answers[-1])
            if 0 <= code < 64:
                oracle_header(res, code, ln)
    hlib.compare_batch(res, drv, "Base.encode_item_header vs Gen.ItemHeaderVar.encode", cases, lines, answers)
    res.exhaustive_parts.append(f"item header: every E5 format code x {len(lens)} boundary lengths (each threshold literal of the source -1/0/+1)")

    # ------------------------------------------------------------------ B/C. encode + decode of generated (structure, value) pairs
    vals = []
    for t in K.LEAVES:                                   # every type x every small length boundary
        for n in K.LEN_BOUNDARY:
            vals.append((t, K.gen_elems(rng, t, n)))
        vals.append((t, K.gen_elems(rng, t, rng.range(4, 60), "nan")))
    for t in K.INTS:                                     # numeric boundaries of each width
        lo, hi = K.int_range(t)
        vals.append((t, [lo, lo + 1, 0, 1, hi - 1, hi] + ([-1] if lo < 0 else [])))
    vals.append(("F4", K.f4_accepted_pool()))
    vals.append(("F8", K.F64_SPECIAL))
    vals.append(("F8", K.NANS))
    vals.append(("F4", K.NANS))
    vals.append(("B", list(range(256))))
    vals.append(("A", list(range(256))))
    vals.append(("J", sorted(set(K.gen_elems(hlib.Rng(5), "J", 4000)))))
    for n in (255, 256):                                 # list length-byte boundary
        vals.append(("L", [("U1", [i % 256]) for i in range(n)]))
    for cps in K.NUL_TEXTS:                               # text ending in / made of NUL characters
        vals.append(("A", cps))
        vals.append(("J", cps))
    vals.append(("L", [("A", [65, 0, 0]), ("U1", [1]), ("J", [0])]))
    vals.append(K.deep_val(rng, 6))
    vals.append(K.deep_val(rng, 40, "A"))
    vals.append(("L", [("L", []), ("L", [("L", [])]), ("B", []), ("L", [("A", [65]), ("L", [("U2", [1, 2]), ("F4", [0x3FF0000000000000])])])]))
    n_rand = 900 if big else 260
    for i in range(n_rand):
        vals.append(K.gen_val(rng, flavour="nan" if i % 9 == 0 else "accepted"))

    pairs = []
    for v in vals:
        for k in range(2 if K.size_of(v) < 30 else 1):
            try:
                s = K.struct_for(rng, v, loose=(k == 1))
                if not K.conforms(s, v) or not K.buildable(s):
                    continue
                K.fresh_var(s)
            except KeyError:
                continue
            pairs.append((s, v))
    cases, lines, answers = [], [], []
    spec_lines = []
    for s, v in pairs:
        spec_lines.append("codec spec " + K.send_val(v))
    spec_out = drv.run(spec_lines) if drv.available else [None] * len(pairs)
    if drv.available:
        res.driver_used = True
    encs = []
    for i, ((s, v), sp) in enumerate(zip(pairs, spec_out)):
        prefix = rng.bytes(rng.below(6)) if rng.chance(1, 2) else b""
        nviol = len(res.violations)
        enc = oracle_roundtrip(res, s, v, prefix, sp)
        if len(res.violations) > nviol and (K.size_of(v) > 1 or len(v[1]) > 1):
            # shrink the failing value for the report
            def fails(w, s=s):
                r2 = hlib.Result(PROP, a.tier, a.seed)
                if not K.conforms(s, w):
                    return False
                oracle_roundtrip(r2, s, w, b"")
                return bool(r2.violations)
            try:
                small = K.shrink_val(v, fails)
                if small != v:
                    del res.violations[nviol:]
                    oracle_roundtrip(res, s, small, b"")
            except Exception:  # noqa: BLE001
                pass
        if not K.has_nan(v):
            oracle_reuse(res, s, refill_for(rng, s, v), [v])                    # pre-filled with another conforming value
            oracle_reuse(res, s, v, [empty_of(v)])                       # holds v, then an item of the same shape with empty leaves
            if i % 3 == 0:
                oracle_reuse(res, s, None, [v, empty_of(v), v])          # decode several times in a row into one object
            res.evaluations += 2
            if not K.has_list_under_dyn(s, v):
                if i % 2 == 0 or K.size_of(v) < 6:
                    sd = (rng.next() & 0xFFFFFFFF)
                    oracle_opseq(res, s, v, sd)                          # random public mutations interleaved with encode()
                    res.evaluations += 8
                oracle_ctor_path(res, s, v)                              # the value as constructor argument
                oracle_ctor_path(res, s, empty_of(v))
                w = reshape(rng, s, v)
                oracle_set_twice(res, s, v, w)                           # set() twice on one object, also field by field
                oracle_set_twice(res, s, w, v)
                res.evaluations += 2
        t = v[0]
        res.count(("pair", K.show_struct(s), K.show_val(v)), sample={"op": "encode/decode", "struct": K.show_struct(s), "val": K.show_val(v)[:120]} if i % 97 == 0 else None)
        res.bump("top_type", t)
        res.bump("struct_kind", s[0])
        res.bump("depth", K.depth_of(v))
        if t != "L":
            n = len(v[1])
            res.bump("leaf_len", n if n in K.LEN_BOUNDARY else ("2..253" if n < 254 else ">257"))
        if enc is None:
            continue
        encs.append((s, v, enc, prefix))
        cases.append({"struct": K.show_struct(s), "val": K.show_val(v)[:300]})
        lines.append("codec enc " + K.send_val(v))
        answers.append("ok " + hlib.hexs(enc))
    hlib.compare_batch(res, drv, "encode() vs Model.Var.encode", cases, lines, answers)

    def real_decode(s, data, start):
        def f():
            obj = K.fresh_var(s)
            pos = obj.decode(data, start)
            return f"{K.show_obj(obj)} pos={pos}"
        return K.impl(f)

    cases, lines, answers = [], [], []
    for i, (s, v, enc, prefix) in enumerate(encs):
        data = prefix + enc + (rng.bytes(rng.below(4)) if rng.chance(1, 3) else b"")
        cases.append({"struct": K.show_struct(s), "data": data.hex()[:200], "start": len(prefix)})
        lines.append(f"codec dec {K.show_struct(s)} {len(prefix)} {K.data_tokens(data)}")
        answers.append(real_decode(s, data, len(prefix)))
        res.count(("dec", K.show_struct(s), data, len(prefix)))
        res.bump("decode_outcome", answers[-1].split()[0] if answers[-1].startswith("ok") else answers[-1])
    hlib.compare_batch(res, drv, "decode(canonical bytes) vs Model.Var.decodeAs", cases, lines, answers)

    # ------------------------------------------------------------------ D. malformed / mutated input (correspondence only)
    cases, lines, answers = [], [], []
    structs_pool = [("any",), ("leaf", "U1", -1), ("leaf", "U2", 2), ("leaf", "A", 3), ("leaf", "B", -1), ("leaf", "BOOLEAN", 1), ("leaf", "F4", -1),
                    ("leaf", "J", -1), ("dyn", ["U1", "A", "ARR"], -1), ("dyn", [], 2), ("arr", ("leaf", "U1", -1), -1), ("arr", ("any",), 2),
                    ("rec", [("leaf", "U1", -1), ("any",), ("leaf", "A", -1)]), ("rec", []), ("arr", ("rec", [("leaf", "B", -1), ("leaf", "I2", -1)]), -1)]
    muts = []
    sample_encs = [e for e in encs if len(e[2]) <= 64]
    for s, v, enc, prefix in rng.shuffle(sample_encs)[: (400 if big else 120)]:
        for cut in range(len(enc)) if len(enc) <= 12 else [0, 1, 2, len(enc) // 2, len(enc) - 1]:
            muts.append((s, enc[:cut], 0))
        fb = enc[0]
        for nlb in range(4):
            muts.append((s, bytes([(fb & 0xFC) | nlb]) + enc[1:], 0))
        muts.append((s, bytes([fb ^ (4 << rng.below(6))]) + enc[1:], 0))
        if len(enc) > 1:
            muts.append((s, enc[:1] + bytes([enc[1] ^ (1 << rng.below(8))]) + enc[2:], 0))
        muts.append((rng.choice(structs_pool), enc, 0))
        muts.append((s, enc, rng.choice([1, len(enc), len(enc) + 3])))
        pos = rng.below(len(enc))
        muts.append((s, enc[:pos] + bytes([rng.below(256)]) + enc[pos + 1:], 0))
    for _ in range(300 if big else 80):
        muts.append((rng.choice(structs_pool), rng.bytes(rng.choice([0, 1, 2, 3, 5, 9])), rng.choice([0, 0, 0, 1, 4])))
    for t in K.LEAVES:                                   # body length not a multiple of the width, all format codes under every leaf
        w = K.WIDTH[t]
        muts.append((("leaf", t, -1), K.own_header(K.CODE[t], w + 1) + bytes(range(w + 1)), 0))
        muts.append((("any",), K.own_header(K.CODE[t], w + 1) + bytes(range(w + 1)), 0))
        for t2 in ("U1", "A", "L"):
            muts.append((("leaf", t, -1), K.own_header(K.CODE[t2], 0), 0))
    for code in range(64):
        muts.append((("any",), bytes([(code << 2) | 1, 0]), 0))
    for f in K.F32_SPECIAL + [0x7F800000, 0xFF800000, 0x7FC00000, 0x7F800001, 0xFFC12345]:
        muts.append((("leaf", "F4", -1), K.own_header(K.CODE["F4"], 4) + f.to_bytes(4, "big"), 0))
    for b in K.F64_SPECIAL + K.NANS + K.INFS:
        muts.append((("leaf", "F8", -1), K.own_header(K.CODE["F8"], 8) + b.to_bytes(8, "big"), 0))
    for s, data, start in muts:
        try:
            K.fresh_var(s)
        except KeyError:
            continue
        cases.append({"struct": K.show_struct(s), "data": data.hex()[:200], "start": start})
        lines.append(f"codec dec {K.show_struct(s)} {start} {K.data_tokens(data)}")
        answers.append(real_decode(s, data, start))
        res.count(("dec", K.show_struct(s), data, start), nontrivial=len(data) > 0)
        res.bump("malformed_outcome", answers[-1].split()[0] if answers[-1].startswith("ok") else answers[-1])
    hlib.compare_batch(res, drv, "decode(malformed / mutated bytes) vs Model.Var.decodeAs", cases, lines, answers)

    # ------------------------------------------------------------------ E. constructor / set() input forms, get()
    cases, lines, answers = [], [], []
    for i in range(2500 if big else 700):
        t = rng.choice(K.LEAVES)
        p = gen_pyval(rng, t)
        if not modelled(t, p):
            continue
        count = rng.choice([-1, -1, -1, 0, 1, 2, 3])

        def f(t=t, p=p, count=count):
            obj = K.VARCLS[t](count=count)
            obj.set(K.py_real(p))
            return K.show_obj(obj)
        ans = K.impl(f)
        cases.append({"type": t, "count": count, "value": K.show_py(p)[:200]})
        lines.append(f"codec set {t} {count} {K.show_py(p)}")
        answers.append(ans)
        res.count(("set", t, count, K.show_py(p)), sample={"op": "set", "type": t, "count": count, "value": K.show_py(p)[:80]} if i % 211 == 0 else None)
        res.bump("set_input_form", p[0])
        res.bump("set_outcome", "ok" if ans.startswith("ok") else ans)
        if ans.startswith("ok"):
            oracle_accepted(res, t, count, p)        # whatever the implementation accepts must round-trip (whatever the model says)
    # text codecs: every code point of the pool alone and between two letters, for String and JIS8
    for t in ("A", "J"):
        for c in TEXT_POOL:
            for p in (("str", [c]), ("str", [97, c, 98])):
                ans = K.impl(lambda t=t, p=p: K.show_obj(K.VARCLS[t](K.py_real(p))))
                cases.append({"type": t, "count": -1, "value": K.show_py(p)})
                lines.append(f"codec set {t} -1 {K.show_py(p)}")
                answers.append(ans)
                res.count(("set", t, -1, K.show_py(p)))
                res.bump("text_codepoint_outcome", f"{t} {'ok' if ans.startswith('ok') else ans}")
                if ans.startswith("ok"):
                    oracle_accepted(res, t, -1, p)
    # text classes from lists / tuples of character codes: every code alone, in runs, and out-of-range codes
    code_inputs = []
    for c in range(256):
        code_inputs.append(("list" if c % 2 else "tuple", [("int", c)]))
    for start in range(0, 256, 16):
        code_inputs.append(("list", [("int", c) for c in range(start, start + 16)]))
    code_inputs.append(("tuple", [("int", c) for c in range(256)]))
    code_inputs += [("list", [("int", 0x41), ("int", 0x5C), ("int", 0x7E), ("int", 0xA1), ("int", 0xDF), ("int", 0xE0)]),
                    ("list", [("int", 256)]), ("list", [("int", -1)]), ("tuple", [("int", 65), ("int", 300)]), ("list", [("bool", 1), ("int", 0x5C)]),
                    ("list", []), ("tuple", [])]
    for _ in range(60 if big else 20):
        code_inputs.append((rng.choice(["list", "tuple"]), [("int", rng.choice([0x5C, 0x7E, 0xA5, rng.below(256), rng.range(0xA1, 0xDF)])) for _ in range(rng.range(1, 6))]))
    for t in ("A", "J"):
        for p in code_inputs:
            count = -1 if rng.chance(3, 4) else rng.choice([0, 1, 3])
            ans = K.impl(lambda t=t, p=p, count=count: K.show_obj(_set_obj(t, count, p)))
            cases.append({"type": t, "count": count, "value": K.show_py(p)[:200]})
            lines.append(f"codec set {t} {count} {K.show_py(p)}")
            answers.append(ans)
            res.count(("set", t, count, K.show_py(p)))
            res.bump("text_from_codes_outcome", f"{t} {'ok' if ans.startswith('ok') else ans}")
            if ans.startswith("ok"):
                oracle_accepted(res, t, count, p)
    hlib.compare_batch(res, drv, "T(count).set(python value) vs Model.Var.setLeaf", cases, lines, answers)

    cases, lines, answers = [], [], []
    for t in K.LEAVES:
        for n in (0, 1, 2, 5):
            v = (t, K.gen_elems(rng, t, n))
            obj = K.build_leaf(t, v[1])
            cases.append(K.show_val(v))
            lines.append("codec get " + K.show_val(v))
            answers.append("ok " + K.show_py(K.py_of_real(obj.get())))
            res.count(("get", K.show_val(v)))
    hlib.compare_batch(res, drv, "get() vs Model.Var.getLeaf", cases, lines, answers)

    for t in K.LEAVES:                                   # oracle through the real constructor (not through harness-built objects)
        for _ in range(30 if big else 8):
            n = rng.choice([0, 1, 2, 3, 7])
            es = K.gen_elems(rng, t, n)
            oracle_set(res, t, es)
            res.count(("ctor", t, tuple(es)))
    oracle_set(res, "F4", K.f4_accepted_pool())
    oracle_set(res, "F8", [b for b in K.F64_SPECIAL])
    for b in K.f4_accepted_pool() + [K.FLT_MAX64, K.SIGN | K.FLT_MAX64]:
        oracle_set(res, "F4", [b])
    for b in [K.DBL_MAX64, K.SIGN | K.DBL_MAX64, 1, 0x0010000000000000]:
        oracle_set(res, "F8", [b])

    # aliasing of a python list given to a numeric / Boolean variable, both directions
    for t in K.NUMERIC + ["BOOLEAN"]:
        for n in (0, 1, 3):
            es = K.gen_elems(rng, t, n, "finite")
            oracle_var_alias(res, t, es, K.gen_elems(rng, t, 1, "finite")[0])
            res.count(("varalias", t, tuple(es)))
    # isolation of objects generated from one structure definition
    for st in TWIN_STRUCTS:
        for _ in range(3 if big else 2):
            oracle_twins(res, st, rng.next() & 0xFFFFFFFF)
            res.count(("twins", K.show_struct(st)))
    for st, _v in rng.shuffle([q for q in pairs if q[0][0] in ("rec", "arr")])[: (60 if big else 20)]:
        oracle_twins(res, st, rng.next() & 0xFFFFFFFF)

    # NaN (quiet / signalling, both signs) on every path of F4 and F8
    for t in ("F4", "F8"):
        for bits in NAN64 + [K.f32_to_b64(f) for f in NAN32]:
            oracle_nan(res, t, bits)
            res.count(("nan", t, bits))
    # operation sequences on plain leaf objects of every numeric / Boolean type (item assignment after encode)
    for t in K.NUMERIC + ["BOOLEAN", "B", "A"]:
        for n in (1, 2, 5):
            for _ in range(4 if big else 2):
                oracle_opseq(res, ("leaf", t, -1), (t, K.gen_elems(rng, t, n, "finite")), rng.next() & 0xFFFFFFFF)
        oracle_opseq(res, ("dyn", [t], -1), (t, K.gen_elems(rng, t, 3, "finite")), rng.next() & 0xFFFFFFFF)
        oracle_opseq(res, ("arr", ("leaf", t, -1), -1), ("L", [(t, K.gen_elems(rng, t, 2, "finite")), (t, K.gen_elems(rng, t, 1, "finite"))]), rng.next() & 0xFFFFFFFF)

    # length limits: every supports_value helper against set(), and the type a limited Dynamic picks, at count-1 / count / count+1
    import secsgem.secs.data_items as D
    limits = sorted({1, 2, 3, 5} | {c.__count__ for n, c in vars(D).items() if isinstance(c, type) and issubclass(c, D.DataItemBase)
                                   and c is not D.DataItemBase and getattr(c, "__type__", None) is V.Dynamic and c.__count__ > 0})
    item_lists = sorted({(tuple(K.NAME_OF_VARCLS[t] for t in c.__allowedtypes__), c.__count__) for n, c in vars(D).items()
                         if isinstance(c, type) and issubclass(c, D.DataItemBase) and c is not D.DataItemBase and getattr(c, "__type__", None) is V.Dynamic
                         and c.__count__ > 0 and all(t in K.NAME_OF_VARCLS for t in (c.__allowedtypes__ or []))})
    for count in limits + [0, -1]:
        vals_b = K.boundary_values(max(count, 1))
        for t in K.LEAVES:
            for p in vals_b:
                oracle_supports(res, t, count, p)
                res.count(("supports", t, count, K.show_py(p)))
        if count > 0:
            for tags in TYPE_LISTS:
                for p in vals_b:
                    oracle_type_choice(res, tags, count, p)
                    res.count(("typechoice", tags, count, K.show_py(p)))
    for tags, count in item_lists:
        for p in K.boundary_values(count):
            oracle_type_choice(res, tags, count, p)
            res.count(("typechoice", tags, count, K.show_py(p)))
    res.bump("length_limits_probed", ",".join(str(c) for c in limits))

    # plain values (the falsy ones in particular) as CONSTRUCTOR argument of every leaf class, Dynamic, ANYVALUE and every data item class
    for label, mk in ctor_makers():
        for p in FALSY + (PLAIN_SEQ if big else [rng.choice(PLAIN_SEQ), rng.choice(PLAIN_SEQ)]):
            oracle_ctor_plain(res, label, mk, p)
            res.count(("ctorplain", label, K.show_py(p)))
            res.bump("ctor_plain", p[0])

    # Dynamic objects given plain values of different kinds one after the other: like a fresh object each time
    for label, mk in dynamic_makers():
        for i, p1 in enumerate(PLAIN_SEQ):
            for p2 in (PLAIN_SEQ if big else [PLAIN_SEQ[(i + 1) % len(PLAIN_SEQ)], PLAIN_SEQ[(i + 4) % len(PLAIN_SEQ)], rng.choice(PLAIN_SEQ)]):
                oracle_dynamic_resets(res, mk, label, p1, p2)
                res.count(("dynseq", label, K.show_py(p1), K.show_py(p2)))

    # ------------------------------------------------------------------ F. IEEE helpers of the model against struct / float() / int()
    cases, lines, answers = [], [], []
    pool64 = K.f4_accepted_pool() + K.f4_rejected_pool() + K.F64_SPECIAL + K.NANS + K.INFS
    for e in range(0x367, 0x382):
        for m in (0, 1, 0x8000000000000, 0xFFFFFFFFFFFFF, 0x0000010000000, 0x0000008000000):
            pool64.append((e << 52) | m)
    for _ in range(20000 if big else 3000):
        r = rng.below(4)
        if r == 0:
            pool64.append(rng.next())
        elif r == 1:
            pool64.append((rng.below(2) << 63) | (rng.range(0x360, 0x480) << 52) | (rng.next() & 0xFFFFFFFFFFFFF))
        elif r == 2:
            f = rng.next() & 0x7FFFFFFF
            w = K.f32_to_b64(f) if (f >> 23) != 0xFF else 0
            pool64.append(w + rng.choice([0, 1 << 28, (1 << 28) + 1, (1 << 28) - 1, 1 << 27]))
        else:
            pool64.append((rng.below(2) << 63) | (rng.range(0x36F, 0x382) << 52) | ((rng.next() & 0xFFFFFF) << 28))
    for b in pool64:
        b &= 0xFFFFFFFFFFFFFFFF
        cases.append(f"{b:016x}")
        lines.append(f"codec r32 {b:016x}")
        answers.append(K.impl(lambda b=b: struct.pack(">f", K.b2f(b)).hex()))
        res.count(("r32", b))
    pool32 = K.F32_SPECIAL + [0x7F800000, 0xFF800000, 0x7FC00000, 0x7F800001, 0xFFC12345, 0x7FFFFFFF] + [rng.next() & 0xFFFFFFFF for _ in range(5000 if big else 800)] \
        + [rng.next() & 0x807FFFFF for _ in range(300)]
    for f in pool32:
        cases.append(f"{f:08x}")
        lines.append(f"codec wid {f:08x}")
        answers.append("ok " + f"{K.f32_to_b64(f):016x}")
        res.count(("wid", f))
    for _ in range(1500 if big else 300):
        n = rng.choice([0, 1, -1, 2 ** 53, 2 ** 53 + 1, 2 ** 53 + 2, 2 ** 53 + 3, -(2 ** 53) - 1, 2 ** 64, 2 ** 1023, 2 ** 1024, 2 ** 1024 - 2 ** 970, 2 ** 1024 - 2 ** 970 - 1, 10 ** 400]) \
            if rng.chance(1, 4) else rng.range(-(2 ** rng.range(1, 80)), 2 ** rng.range(1, 80))
        cases.append(str(n)[:40])
        lines.append(f"codec fint {n}")
        answers.append(K.impl(lambda n=n: f"{K.f2b(float(n)):016x}"))
        res.count(("fint", n))
    for b in pool64[:1500]:
        b &= 0xFFFFFFFFFFFFFFFF
        cases.append(f"{b:016x}")
        lines.append(f"codec trunc {b:016x}")
        answers.append(K.impl(lambda b=b: str(int(K.b2f(b)))))
        res.count(("trunc", b))
    hlib.compare_batch(res, drv, "IEEE.round32/widen, floatOfInt, truncToInt vs struct.pack('>f')/unpack, float(), int()", cases, lines, answers)

    # ------------------------------------------------------------------ G. long payloads (every length-byte boundary)
    sizes = [(t, n) for t in ("B", "A") for n in (65535, 65536)] + [("U1", 65536), ("BOOLEAN", 65535), ("U2", 32768), ("I8", 8192)]
    if big:
        sizes += [("B", 16777215), ("A", 16777215), ("U1", 65535), ("BOOLEAN", 65536), ("U2", 32767)]
    cases, lines, answers = [], [], []
    for t, n in sizes:
        if t in ("U2", "I8"):
            es = K.gen_elems(rng, t, n)
            v = (t, es)
            enc = oracle_roundtrip(res, ("leaf", t, -1), v, b"")
            if enc is None:
                continue
        else:
            v, enc = oracle_big(res, t, n, -1)
        import zlib
        res.count(("big", t, n), sample={"op": "long payload", "type": t, "elements": n, "encoded_bytes": len(enc)})
        res.bump("long_payload_len_bytes", enc[0] & 3)
        if n <= 70000:
            cases.append({"type": t, "n": n})
            lines.append("codec encsum " + K.send_val(v))
            answers.append(f"ok len={len(enc)} adler={zlib.adler32(enc)}")
            cases.append({"type": t, "n": n, "op": "spec"})
            lines.append("codec specsum " + K.send_val(v))
            answers.append(f"ok len={len(enc)} adler={zlib.adler32(enc)}")
            cases.append({"type": t, "n": n, "op": "dec"})
            lines.append(f"codec decsum (leaf {t} -1) 0 {K.data_tokens(enc)}")
            answers.append(f"ok {K.val_digest(v)} pos={len(enc)}")
    # beyond the last boundary: 16777216 bytes cannot be encoded
    for t in ("B", "A"):
        n = 16777216
        if big:
            obj = K.build_leaf(t, [])
            obj.value = bytearray(n) if t == "B" else "\x00" * n
            try:
                obj.encode()
                res.violate("header", f"{t} with 16777216 bytes was encoded", {"kind": "big", "type": t, "n": n, "fill": 0})
            except ValueError:
                pass
            res.count(("big", t, n))
        cases.append({"type": t, "n": n, "op": "too long"})
        lines.append(f"codec encsum ({t} *{n}:00)")
        answers.append("err ValueError")
    if big:
        import zlib
        # the Lean model recurses over payload lists (no tail calls): 1 000 000 elements is what the native driver handles comfortably;
        # at 16 777 215 the implementation is checked by the oracle above and the model through its header function
        for t in ("B", "A"):
            n = 1000000
            body = bytes([0x41]) * n
            enc = K.own_header(K.CODE[t], n) + body
            cases.append({"type": t, "n": n, "op": "enc"})
            lines.append(f"codec encsum ({t} *{n}:41)")

            def big_enc(t=t, body=body):
                obj = K.build_leaf(t, [])
                obj.value = bytearray(body) if t == "B" else body.decode("latin-1")
                real = obj.encode()
                return f"len={len(real)} adler={zlib.adler32(real)}"
            answers.append(K.impl(big_enc))
            cases.append({"type": t, "n": n, "op": "dec"})
            lines.append(f"codec decsum (leaf {t} -1) 0 x{enc[:4].hex()} *{n}:41")

            def big_dec(t=t, enc=enc):
                fresh = K.VARCLS[t]()
                pos = fresh.decode(enc)
                return f"({t} n={len(fresh.value)} adler={zlib.adler32(bytes(fresh.value) if t == 'B' else fresh.value.encode('latin-1'))}) pos={pos}"
            answers.append(K.impl(big_dec))
        for code in sorted(set(K.CODE.values())):
            for ln in (16777215, 16777216):
                obj = V.U1()
                obj.format_code = code
                cases.append({"code": code, "len": ln})
                lines.append(f"codec hdr {code} {ln}")
                answers.append(K.impl(lambda obj=obj, ln=ln: hlib.hexs(obj.encode_item_header(ln))))
    hlib.compare_batch(res, drv, "long payloads (digests) vs Model.Var / Spec.E5", cases, lines, answers)
    res.exhaustive_parts.append("all 256 byte values as B, A payload and as the 191 JIS-8 mapped characters; every length-byte boundary of the header for every format code")

    res.dump(a.out)


if __name__ == "__main__":
    main()
