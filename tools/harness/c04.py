"""C04 — HSMS frames and reassembly independent of TCP segmentation.

C (correspondence): real `HsmsHeader/HsmsBlock/HsmsMessage` codec vs the generated/hand model (`hsms` driver domain); the real
`_process_received_data` on the real `ByteQueue` (no threads, blocks captured at `queue_block`) vs `Model.Rx.feed` (`rx` domain),
including malformed length fields and undefined STypes.
O (direct oracle): encode = E37 frame written out independently, decode(encode) = identity; a real `HsmsProtocol` with its real threads
on an in-memory `Connection`: scripted segmentations through `on_data`, blocks captured at `_dispatch_block`: delivered == sent,
same order, none lost / duplicated / merged.
"""
from __future__ import annotations

import os
import sys
import time

sys.path.insert(0, os.path.dirname(os.path.abspath(__file__)))
import _hsmsmem as M  # noqa: E402
from _hsmsmem import hlib, HsmsHeader, HsmsBlock, HsmsMessage, HsmsSType  # noqa: E402
from hlib import hexs  # noqa: E402

import secsgem.hsms  # noqa: E402


# ---------------------------------------------------------------------------------------------- A/B: codec
def codec_part(res, rng, drv, big):
    # ---- header encode: boundary pool per field incl. out-of-range, every valid SType
    cases, lines, answers = [], [], []
    n_enc = 4000 if big else 1500
    for i in range(n_enc):
        vals = M.gen_fields(rng, out_of_range=True, stype=M.VALID_STYPES[i % len(M.VALID_STYPES)] if i < 90 else None)
        h = M.mk_header(vals)
        cases.append({"kind": "henc", "fields": vals})
        lines.append("hsms henc " + " ".join(str(v) for v in vals))
        ans = M.impl(lambda: hexs(h.encode()))
        answers.append(ans)
        res.count(("henc", tuple(vals)), nontrivial=True, sample={"op": "header.encode", "fields": vals} if i < 2 else None)
        res.bump("henc_outcome", "ok" if ans.startswith("ok") else ans)
        res.bump("henc_stype", vals[6])
        if M.in_range(vals):
            want = M.ref_frame(*vals, b"")[4:]
            if ans != "ok " + hexs(want):
                res.violate("header-layout", "HsmsHeader.encode differs from the E37 header bytes", {"kind": "henc", "fields": vals},
                            want.hex(), ans)
            else:
                back = HsmsHeader.decode(want)
                if M.hdr_fields(back) != [int(v) for v in vals]:
                    res.violate("header-roundtrip", "decode(encode(header)) differs from the header", {"kind": "henc", "fields": vals},
                                vals, M.hdr_fields(back))
    hlib.compare_batch(res, drv, "HsmsHeader.encode vs Gen.HsmsHeader.encode", cases, lines, answers)

    # ---- header decode: all 256 values of the SType byte (exhaustive) on several headers, random 10-byte strings, wrong lengths
    cases, lines, answers = [], [], []
    raws = []
    bases = [bytes(10), bytes([0xFF] * 10), M.ref_frame(0x01020304, 0x7FFF, 1, 13, True, 0, 0, b"")[4:], rng.bytes(10)]
    for base in bases:
        for ty in range(256):
            raws.append(base[:5] + bytes([ty]) + base[6:])
    res.exhaustive_parts.append(f"HsmsHeader.decode over all 256 SType byte values on {len(bases)} headers (incl. invalid 8, 10..255)")
    for _ in range(3000 if big else 1000):
        n = 10 if rng.chance(5, 6) else rng.choice([0, 1, 9, 11, 14, 20])
        raw = rng.bytes(n)
        if n == 10 and rng.chance(3, 4):
            raw = raw[:5] + bytes([rng.choice(M.VALID_STYPES)]) + raw[6:]
        if n == 10 and rng.chance(1, 4):
            raw = bytes(rng.choice([0, 0x7F, 0x80, 0xFF]) for _ in range(5)) + raw[5:6] + bytes(rng.choice([0, 0x7F, 0x80, 0xFF]) for _ in range(4))
        raws.append(raw)
    for i, raw in enumerate(raws):
        cases.append({"kind": "hdec", "raw": raw.hex()})
        lines.append("hsms hdec " + hexs(raw))
        ans = M.impl(lambda: M.show_header(HsmsHeader.decode(raw)))
        answers.append(ans)
        res.count(("hdec", raw), nontrivial=(len(raw) == 10), sample={"op": "header.decode", "raw": raw.hex()} if i == 300 else None)
        res.bump("hdec_outcome", "ok" if ans.startswith("ok") else ans)
        if len(raw) == 10:
            valid = raw[5] in M.VALID_STYPES
            if valid != ans.startswith("ok"):
                res.violate("header-stype", "decode accepts an undefined SType or refuses a defined one", {"kind": "hdec", "raw": raw.hex()},
                            "ok" if valid else "ValueError", ans)
            if ans.startswith("ok"):
                back = HsmsHeader.decode(raw).encode()
                if back != raw:
                    res.violate("header-not-bijective", "decode then encode changes the header bytes", {"kind": "hdec", "raw": raw.hex()},
                                raw.hex(), back.hex())
    hlib.compare_batch(res, drv, "HsmsHeader.decode vs Gen.HsmsHeader.decode", cases, lines, answers)

    # ---- block / message encode, decode
    cases, lines, answers = [], [], []
    spec_cases, spec_lines, spec_answers = [], [], []
    blens = [0, 1, 2, 10, 243, 244, 245, 255, 256, 257, 4095, 65535, 65536]
    encoded = []
    for i in range(1200 if big else 400):
        vals = M.gen_fields(rng, out_of_range=rng.chance(1, 8))
        n = rng.choice(blens) if rng.chance(1, 3) else rng.range(0, 300)
        if big and i % 200 == 7:
            n = 1024 * 1024 + 1
        body = rng.bytes(n) if rng.chance(3, 4) else bytes([rng.choice([0, 255])]) * n
        use_msg = rng.chance(1, 2)

        def enc(vals=vals, body=body, use_msg=use_msg):
            h = M.mk_header(vals)
            if use_msg:
                m = HsmsMessage(h, body)
                assert len(m.blocks) == 1 and m.complete and m.data == body
                return hexs(m.blocks[0].encode())
            return hexs(HsmsBlock(h, body).encode())
        ans = M.impl(enc)
        case = {"kind": "benc", "fields": vals, "body_len": n, "body": body.hex() if n <= 64 else None}
        cases.append(case)
        lines.append("hsms benc " + " ".join(str(v) for v in vals) + " " + hexs(body))
        answers.append(ans)
        res.count(("benc", tuple(vals), body), nontrivial=ans.startswith("ok"),
                  sample={"op": "block.encode", "fields": vals, "body_len": n} if i < 2 else None)
        res.bump("block_body_len", n if n in blens else ("<=300" if n <= 300 else "big"))
        res.bump("benc_outcome", "ok" if ans.startswith("ok") else ans)
        if M.in_range(vals):
            want = M.ref_frame(*vals, body)
            if ans != "ok " + hexs(want):
                res.violate("frame-layout", "HsmsBlock.encode differs from the E37 frame (length, header, body)", case, want.hex()[:80], ans[:80])
                continue
            spec_cases.append(case)
            spec_lines.append("hsms spec " + " ".join(str(v) for v in vals) + " " + hexs(body))
            spec_answers.append("ok " + hexs(want))
            encoded.append((vals, body, want))
            d = HsmsBlock.decode(want)
            if d is None or bytes(d.data) != body or M.hdr_fields(d.header) != [int(v) for v in vals]:
                res.violate("frame-roundtrip", "decode(encode(block)) differs from the block", case, vals, None if d is None else M.show_block(d)[:80])
    hlib.compare_batch(res, drv, "HsmsBlock/HsmsMessage encode vs Model.Rx.Block.encode", cases, lines, answers)
    hlib.compare_batch(res, drv, "implementation's frame bytes vs Spec.E37.frame", spec_cases, spec_lines, spec_answers)

    cases, lines, answers = [], [], []
    for vals, body, raw in encoded[: (400 if big else 120)]:
        if len(raw) > 400:
            continue
        variants = [raw, raw[:-1], raw + b"\x00", raw[1:], raw[:4], raw[:3], b"", raw[:13]]
        for lf in (0, 1, 9, 10, len(body) + 9, len(body) + 11, 2**32 - 1):
            variants.append(lf.to_bytes(4, "big") + raw[4:])
        for ty in (8, 10, 128, 255):
            variants.append(raw[:9] + bytes([ty]) + raw[10:])
        for v in variants:
            cases.append({"kind": "bdec", "raw": v.hex()})
            lines.append("hsms bdec " + hexs(v))

            def f(v=v):
                b = HsmsBlock.decode(v)
                return "none" if b is None else M.show_block(b)
            answers.append(M.impl(f))
            res.count(("bdec", v), nontrivial=len(v) >= 14)
            res.bump("bdec_outcome", "ok" if answers[-1].startswith("ok") else answers[-1])
    hlib.compare_batch(res, drv, "HsmsBlock.decode vs Model.Rx.Block.decode", cases, lines, answers)
    return encoded


# ---------------------------------------------------------------------------------------------- C: the receive loop, no threads
class CaptureThread:
    """stands in for `ProtocolDispatcher` in the correspondence run: records what `_process_received_data` queues"""

    def __init__(self):
        self.blocks = []

    def queue_block(self, source, block):
        self.blocks.append(block)

    def trigger_receiver(self):
        pass


def run_feed_impl(chunks):
    """the loop must return by itself: it runs in a helper thread with a 2 s bound (a loop that blocks on an incomplete frame is reported,
    not waited for)"""
    import threading
    s, p, c = M.new_protocol()
    cap = CaptureThread()
    p._thread = cap
    state = {"aborts": 0}
    done = threading.Event()

    def body():
        for ch in chunks:
            p._on_connection_data_received({"source": c, "data": ch})
            try:
                p._process_received_data()
            except Exception:  # noqa: BLE001  (the receiver thread logs and ignores it)
                state["aborts"] += 1
        done.set()
    threading.Thread(target=body, daemon=True).start()
    if not M.wait_event(done, 2.0):
        return "err Blocked delivered=" + str(len(cap.blocks))
    return ("ok delivered=[" + ";".join(M.show_block(b) for b in cap.blocks) + "] buf=" + hexs(bytes(p._receive_buffer._buffer))
            + f" aborts={state['aborts']}")


def gen_stream(rng, nframes, malformed=False):
    frames = []
    for _ in range(nframes):
        vals = M.gen_fields(rng)
        n = rng.choice([0, 0, 1, 2, 5, 10, 40]) if rng.chance(3, 4) else rng.range(0, 120)
        fr = M.ref_frame(*vals, rng.bytes(n))
        if malformed and rng.chance(1, 3):
            k = rng.below(5)
            if k == 0:
                fr = rng.choice([0, 1, 5, 9]).to_bytes(4, "big") + fr[4:4 + rng.choice([0, 1, 5, 9, 10])]   # length field below 10
            elif k == 1:
                fr = fr[:9] + bytes([rng.choice([8, 10, 11, 127, 128, 255])]) + fr[10:]                       # undefined SType
            elif k == 2:
                fr = (len(fr) - 4 + rng.range(1, 50)).to_bytes(4, "big") + fr[4:]                              # announces more than follows
            elif k == 3:
                fr = bytes(4)                                                                                 # length 0: a 4-byte "frame"
            else:
                fr = rng.bytes(rng.range(1, 20))
        frames.append(fr)
    return frames


def feed_part(res, rng, drv, big):
    cases, lines, answers = [], [], []
    scripted = [
        [bytes(4)], [bytes(3), bytes(1)], [bytes(4), bytes(4)], [bytes(5)], [bytes(8)],
        [(9).to_bytes(4, "big") + bytes(9)], [(9).to_bytes(4, "big"), bytes(9)],
        [M.ref_frame(1, 2, 3, 4, True, 0, 0, b"ab")[:7], b""], [b"", b"", M.ref_frame(1, 2, 3, 4, True, 0, 5, b"")],
        [M.ref_frame(1, 0xFFFF, 0, 0, False, 0, 8, b"")], [M.ref_frame(1, 0xFFFF, 0, 0, False, 0, 8, b"") + M.ref_frame(1, 0xFFFF, 0, 0, False, 0, 5, b""), b""],
        [(2**32 - 1).to_bytes(4, "big") + bytes(30)],
    ]
    for chunks in scripted:
        cases.append({"kind": "feed", "chunks": [c.hex() for c in chunks]})
    for i in range(1500 if big else 500):
        malformed = rng.chance(1, 3)
        frames = gen_stream(rng, rng.range(1, 5), malformed)
        stream = b"".join(frames)
        if rng.chance(1, 6) and len(stream) > 1:
            stream = stream[: rng.range(1, len(stream) - 1)]           # ends inside a frame
        mode = rng.below(4)
        if mode == 0:
            chunks = [stream[j:j + 1] for j in range(len(stream))]
        elif mode == 1:
            chunks = [stream]
        else:
            chunks = M.cut(stream, M.partitions_random(rng, len(stream), rng.range(1, 8)))
        if rng.chance(1, 4):
            chunks.append(b"")                                          # a bare trigger
        cases.append({"kind": "feed", "chunks": [c.hex() for c in chunks]})
        res.bump("feed_stream", "malformed" if malformed else "valid")
    for i, case in enumerate(cases):
        chunks = [bytes.fromhex(c) for c in case["chunks"]]
        lines.append("rx feed " + " ".join(hexs(c) for c in chunks))
        ans = run_feed_impl(chunks)
        answers.append(ans)
        res.count(("feed", tuple(chunks)), nontrivial=sum(map(len, chunks)) >= 4,
                  sample={"op": "feed (no threads)", "chunks": case["chunks"][:6]} if i in (0, 20) else None)
        res.bump("feed_aborts", ans.rsplit("aborts=", 1)[1] if "aborts=" in ans else "blocked")
        if ans.startswith("err Blocked"):
            res.violate("receive-loop-blocks", "_process_received_data did not return within 2 s on a stream that ends inside a frame "
                        "(the receiver thread cannot send or be stopped meanwhile)", case, "returns", ans)
            if sum(1 for x in answers if x.startswith("err Blocked")) >= 5:
                res.notes.append("receive loop blocks: remaining no-thread feed cases skipped")
                cases, lines = cases[: len(answers)], lines
                break
    hlib.compare_batch(res, drv, "_process_received_data on the real ByteQueue vs Model.Rx.feed", cases[: len(answers)], lines[: len(answers)], answers)


# ---------------------------------------------------------------------------------------------- O: real threads
class Endpoint:
    """a connected real `HsmsProtocol` on the in-memory connection; blocks captured at `_dispatch_block`"""

    def __init__(self):
        self.s, self.p, self.c = M.new_protocol()
        self.got = []
        orig = self.p._thread._dispatcher_target

        def wrapped(source, block):
            self.got.append(block)
            return orig(source, block)
        self.p._thread._dispatcher_target = wrapped
        # … and what reaches the message handler behind `_dispatch_block` (`_on_connection_message_received`): the whole dispatch path
        self.at_handler = []
        real_handler = self.p._on_connection_message_received

        def handler(source, message):
            self.at_handler.append(message)
            return real_handler(source, message)
        self.p._on_connection_message_received = handler
        self.c.on_connected({"source": self.c})

    def feed(self, segments):
        for seg in segments:
            self.c.on_data({"source": self.c, "data": seg})

    def settle(self, expect: int, timeout=5.0) -> bool:
        return M.wait_until(lambda: len(self.got) >= expect and len(self.p._receive_buffer) == 0
                            and self.p._thread._dispatch_queue.qsize() == 0, timeout)

    def close(self, bound=3.0):
        """bounded: an endpoint whose threads have stopped each other must not hang the harness (that it hangs is C09's subject)"""
        import threading
        done = threading.Event()

        def closer():
            self.c.on_disconnecting({"source": self.c})
            self.c.on_disconnected({"source": self.c})
            done.set()
        threading.Thread(target=closer, daemon=True).start()
        return M.wait_event(done, bound)


SECSII_BODIES = [bytes.fromhex(x) for x in (
    "a501ff", "a90201f4", "b104fffffffe", "a108ffffffffffffffff", "9104bf800000", "8108bff0000000000000", "210380ff90",
    "0102a501c8b10400000080", "4103e9fc80")]          # U1 U2 U4 U8 F4 F8 B, a list of them, an "A" with latin-1 bytes: none is UTF-8


def gen_valid_frames(rng, n, big_body=False):
    out = []
    for _ in range(n):
        if rng.chance(1, 4):
            vals = M.gen_fields(rng, stype=0)
            body = rng.choice(SECSII_BODIES)
            out.append((vals, body, M.ref_frame(*vals, body)))
            continue
        ty = rng.choice([0, 0, 0, 1, 2, 3, 4, 5, 6, 6, 7, 9])
        vals = M.gen_fields(rng, stype=ty)
        if ty != 0:
            vals[1] = 0xFFFF
        nb = rng.choice([0, 0, 1, 3, 10, 60, 250]) if not (big_body and rng.chance(1, 6)) else rng.range(1000, 6000)
        body = rng.bytes(nb)
        out.append((vals, body, M.ref_frame(*vals, body)))
    return out


def _is_utf8(b: bytes) -> bool:
    try:
        b.decode("utf-8")
        return True
    except UnicodeDecodeError:
        return False


class TooManyFailures(Exception):
    pass


def check_delivery(res, ep, frames, segments, label, case):
    if res.hist.get("segmentation_failures", {}).get("n", 0) >= 5:
        raise TooManyFailures
    before = len(ep.got)
    before_h = len(getattr(ep, "at_handler", []))
    ep.feed(segments)
    ok = ep.settle(before + len(frames))
    got = ep.got[before:]
    want = [(list(map(int, v)), b) for v, b, _ in frames]
    have = [(M.hdr_fields(g.header), bytes(g.data)) for g in got]
    res.bump("segmentation_kind", label)
    if ok and have == want and hasattr(ep, "at_handler"):
        # every complete frame also has to get THROUGH `_dispatch_block` to the message handler (whatever bytes its body holds)
        okh = M.wait_until(lambda: len(ep.at_handler) >= before_h + len(frames), 3.0)
        hv = [(M.hdr_fields(m.header), bytes(m.data)) for m in ep.at_handler[before_h:]]
        if not okh or hv != want:
            missing = [w for w in want if w not in hv]
            res.bump("segmentation_failures", "n")
            res.violate("dispatch-drops-frame", "a completely received frame was queued for dispatch but did not reach the message handler "
                        "(_on_connection_message_received): dropped inside _dispatch_block",
                        dict(case, frames=[f[2].hex() for f in frames] if sum(len(f[2]) for f in frames) < 3000 else None),
                        len(want), {"reached_handler": len(hv), "first_missing": None if not missing else
                                    {"header": missing[0][0], "body": missing[0][1].hex()[:80], "body_is_utf8": _is_utf8(missing[0][1])}})
            return False
    if not ok or have != want:
        what = "delivered blocks differ from the frames sent (lost / duplicated / merged / reordered)" if ok else \
            "not all frames were delivered within 5 s or bytes were left in the receive buffer"
        res.bump("segmentation_failures", "n")
        res.violate("segmentation", what, case, [" ".join(map(str, v)) + " " + hexs(b)[:40] for v, b in want][:6],
                    [" ".join(map(str, h)) + " " + hexs(b)[:40] for h, b in have][:6])
        return False
    return True


def threads_part(res, rng, big):
    try:
        threads_part_body(res, rng, big)
    except TooManyFailures:
        res.notes.append("5 threaded deliveries failed: the rest of the threaded part is skipped (each failure costs the 5 s bound)")


def threads_part_body(res, rng, big):
    ep = Endpoint()
    n_scen = 0
    # every single cut position of a two-frame stream (exhaustive), several frame pairs
    pairs = [gen_valid_frames(rng, 2) for _ in range(10 if big else 5)]
    pairs.append([([7, 0xFFFF, 0, 0, 0, 0, 5], b"", M.ref_frame(7, 0xFFFF, 0, 0, False, 0, 5, b"")),
                  ([0x01020304, 0, 1, 13, 1, 0, 0], b"\x01\x02\x03", M.ref_frame(0x01020304, 0, 1, 13, True, 0, 0, b"\x01\x02\x03"))])
    n_cut = 0
    for frames in pairs:
        frames = [f if len(f[2]) < 120 else (f[0], f[1][:20], M.ref_frame(*f[0], f[1][:20])) for f in frames]
        stream = b"".join(f[2] for f in frames)
        for pos in range(len(stream) + 1):
            case = {"kind": "seg", "frames": [f[2].hex() for f in frames], "cuts": [pos]}
            check_delivery(res, ep, frames, M.cut(stream, [pos]), "one cut (exhaustive)", case)
            res.count(("cut", stream, pos), sample={"op": "two frames, one cut", "stream_len": len(stream), "cut": pos} if n_cut == 5 else None)
            n_cut += 1
        # every pair of cuts for the fixed pair (exhaustive) in the thorough tier
        if big and frames is pairs[-1]:
            for p1 in range(len(stream) + 1):
                for p2 in range(p1, len(stream) + 1):
                    case = {"kind": "seg", "frames": [f[2].hex() for f in frames], "cuts": [p1, p2]}
                    check_delivery(res, ep, frames, M.cut(stream, [p1, p2]), "two cuts (exhaustive)", case)
                    res.count(("cut2", stream, p1, p2))
            res.exhaustive_parts.append(f"every pair of cut positions of a {len(stream)}-byte two-frame stream")
        n_scen += 1
    res.exhaustive_parts.append(f"every single cut position of {len(pairs)} two-frame streams through the real threads: {n_cut} runs")

    # all single bytes, random partitions, many frames per segment
    for i in range(80 if big else 24):
        frames = gen_valid_frames(rng, rng.range(1, 12 if big else 8), big_body=True)
        stream = b"".join(f[2] for f in frames)
        if len(stream) <= 600:
            offs = list(range(1, len(stream)))
            case = {"kind": "seg", "frames": [f[2].hex() for f in frames], "cuts": "all"}
            check_delivery(res, ep, frames, M.cut(stream, offs), "single bytes", case)
            res.count(("bytes", stream), sample={"op": "all single bytes", "frames": len(frames), "stream_len": len(stream)} if i == 0 else None)
        for _ in range(4 if big else 3):
            offs = M.partitions_random(rng, len(stream), rng.range(1, 12))
            case = {"kind": "seg", "frames": [f[2].hex() for f in frames] if len(stream) < 3000 else None, "seed_case": i, "cuts": offs}
            check_delivery(res, ep, frames, M.cut(stream, offs), "random partition", case)
            res.count(("part", stream, tuple(offs)), sample={"op": "random partition", "frames": len(frames), "cuts": offs} if i == 1 else None)
        case = {"kind": "seg", "frames": [f[2].hex() for f in frames] if len(stream) < 3000 else None, "seed_case": i, "cuts": []}
        check_delivery(res, ep, frames, [stream], "all frames in one segment", case)
        res.count(("one", stream))
        res.bump("frames_per_stream", len(frames))
    # segments aligned to 1024 bytes (what TcpConnection's recv(1024) produces)
    for i in range(10 if big else 3):
        frames = gen_valid_frames(rng, rng.range(3, 9), big_body=True)
        stream = b"".join(f[2] for f in frames)
        segs = [stream[j:j + 1024] for j in range(0, len(stream), 1024)]
        check_delivery(res, ep, frames, segs, "1024-byte reads", {"kind": "seg", "frames": None, "seed_case": i, "cuts": "1024"})
        res.count(("1024", stream))
    # link lost in the MIDDLE of a frame (its length field already received), then the same protocol object is connected again: the stream
    # of the new connection has to be framed from its first byte, nothing of the unfinished frame of the old connection may survive
    # (receive buffer, or anything the framing loop remembered about the frame it was waiting for)
    for i in range(12 if big else 5):
        ep2 = Endpoint()
        part = M.ref_frame(rng.range(1, 2**32 - 1), 0, 1, 1, True, 0, 0, rng.bytes(rng.choice([20, 50, 300, 2000])))
        keep = rng.range(4, len(part) - 1)
        pre = M.cut(part[:keep], M.partitions_random(rng, keep, rng.range(0, 3)))
        ep2.feed(pre)
        M.wait_until(lambda: not ep2.p._thread._receiver_thread_trigger.is_set(), 1.0, must=False)   # the receiver had its look at the part
        time.sleep(0.01)
        ep2.close()
        ep2.c.on_connected({"source": ep2.c})
        frames = gen_valid_frames(rng, rng.range(2, 5))
        stream = b"".join(f[2] for f in frames)
        offs = list(range(1, len(stream))) if (i % 2 == 0 and len(stream) <= 600) else M.partitions_random(rng, len(stream), rng.range(1, 8))
        case = {"kind": "relink", "partial_frame": part.hex() if len(part) < 400 else None, "partial_len": len(part), "received_of_it": keep,
                "then": "disconnect, connect", "frames": [f[2].hex() for f in frames] if len(stream) < 3000 else None,
                "cuts": "all" if len(offs) == len(stream) - 1 else offs}
        check_delivery(res, ep2, frames, M.cut(stream, offs), "new connection after link loss inside a frame", case)
        res.count(("relink", part[:keep], stream), sample={"op": "partial frame, link loss, reconnect, new stream", "received_of_partial": keep,
                                                           "frames": len(frames)} if i == 0 else None)
        ep2.close()
    # long bursts reassembled back to back, every frame needing an answer written by the receiver thread (Linktest.req → Linktest.rsp, data
    # while not selected → Reject.req): receiver thread (framing + sending) and dispatcher (handling + waiting for its send) must not stop
    # each other however many frames one segment carries
    if getattr(ep.p.connection_state.current, "name", "") == "CONNECTED_SELECTED":
        ep.feed([M.ref_frame(1, 0xFFFF, 0, 0, False, 0, 3, b"")])            # Deselect.req: data messages are answered by Reject.req again
        ep.settle(len(ep.got) + 1)
    for nfr in ((200, 500, 1000, 2000) if big else (200, 500, 1000)):
        frames = []
        for k in range(nfr):
            if k % 3 == 2:
                vals = [rng.range(1, 2**32 - 1), 0, rng.range(1, 127), rng.range(1, 255), 1, 0, 0]
                body = rng.choice(SECSII_BODIES)
            else:
                vals = [rng.range(1, 2**32 - 1), 0xFFFF, 0, 0, 0, 0, 5]
                body = b""
            frames.append((vals, body, M.ref_frame(*vals, body)))
        stream = b"".join(f[2] for f in frames)
        segs = [stream] if nfr != 500 else [stream[: len(stream) // 2 + 3], stream[len(stream) // 2 + 3:]]
        before_sent = len(ep.c.sent)
        t0 = time.monotonic()
        okb = check_delivery(res, ep, frames, segs, f"burst of {nfr} answer-requiring frames", {"kind": "burst", "frames": None, "count": nfr, "segments": len(segs)})
        res.count(("burst", nfr, stream[:64]), sample={"op": "burst in one segment, every frame answered", "frames": nfr, "bytes": len(stream),
                                                         "seconds": round(time.monotonic() - t0, 2)} if nfr == 1000 else None)
        if okb:
            answered = M.wait_until(lambda: len(ep.c.sent) - before_sent >= nfr, 10.0)
            if not answered:
                res.violate("segmentation", f"burst of {nfr} frames: not every frame was answered within 10 s (receiver / dispatcher stopped?)",
                            {"kind": "burst", "count": nfr}, nfr, len(ep.c.sent) - before_sent)
        else:
            break
    ep.c.take()
    # one frame with a body beyond every SECS-I size (8 MB; E37 allows up to 2^32-11) between two small ones: encoded as the E37 frame by the
    # real classes (no driver round for 16 MB of hex: the independent reference frame is the oracle) and delivered with its neighbours
    big_body = bytes(8_000_000 + rng.range(0, 999))
    bvals = [rng.range(1, 2**32 - 1), 0, 6, 11, 0, 0, 0]
    big_frame = M.ref_frame(*bvals, big_body)
    enc = M.impl(lambda: hlib.hashlib.sha256(HsmsMessage(M.mk_header(bvals), big_body).blocks[0].encode()).hexdigest())
    res.count(("big-encode", len(big_body)), sample={"op": "HsmsMessage.encode of an 8 MB body", "body_len": len(big_body), "result": enc[:24]})
    if enc != "ok " + hlib.hashlib.sha256(big_frame).hexdigest():
        res.violate("frame-layout", "an HSMS message with an 8 MB body (E37 allows 2^32-11 bytes) is not encoded as the E37 frame",
                    {"kind": "big-frame", "body_len": len(big_body), "fields": bvals}, "sha256 of the reference frame", enc[:80])
    small = gen_valid_frames(rng, 2)
    bframes = [small[0], (bvals, big_body, big_frame), small[1]]
    stream = b"".join(f[2] for f in bframes)
    segs = [stream[i:i + 1024 * 1024] for i in range(0, len(stream), 1024 * 1024)]
    check_delivery(res, ep, bframes, segs, "8 MB frame between two small ones", {"kind": "big-frame", "frames": None, "body_len": len(big_body), "segments": len(segs)})
    res.count(("big-frame", len(big_body)), sample={"op": "8 MB frame in the stream", "body_len": len(big_body), "segments": len(segs)})
    ep.c.take()
    # nothing extra may show up afterwards (duplicates delivered late)
    total = len(ep.got)
    time.sleep(0.1)
    if len(ep.got) != total or len(ep.p._receive_buffer) != 0:
        res.violate("segmentation", "blocks delivered after the stream was complete (duplicates) or bytes left in the buffer",
                    {"kind": "late"}, total, len(ep.got))
    res.bump("blocks_delivered_through_threads", "total", total)
    ep.close()


def handover_part(res, rng, big):
    """The connection thread is descheduled inside `_on_connection_data_received` (modelled by a `ByteQueue.append` that first waits until
    the receiver thread has had ample time to run, then appends).  Every frame is the LAST segment of its burst: nothing arrives after it,
    so it has to be delivered by the wake-up that belongs to it."""
    ep = Endpoint()
    buf = ep.p._receive_buffer
    real_append = buf.append

    def slow_append(data):
        time.sleep(0.04)
        return real_append(data)
    buf.append = slow_append
    n = 12 if big else 5
    for i in range(n):
        frames = gen_valid_frames(rng, 1)
        vals, body, raw = frames[0]
        before = len(ep.got)
        segs = [raw] if i % 2 == 0 else [raw[:7], raw[7:]]
        t0 = time.monotonic()
        ep.feed(segs)
        ok = M.wait_until(lambda: len(ep.got) >= before + 1 and len(ep.p._receive_buffer) == 0, 1.5)
        res.count(("handover", raw, len(segs)), sample={"op": "last segment of a burst, connection thread delayed inside the handler", "segments": len(segs)} if i == 0 else None)
        res.bump("handover", "delivered" if ok else "not delivered")
        if not ok:
            res.violate("lost-wakeup", "a completely received frame (last segment of its burst) is not delivered within 1.5 s when the "
                        "connection thread is delayed inside _on_connection_data_received: the receiver thread was woken before the bytes were "
                        "in the buffer", {"kind": "handover", "frame": raw.hex(), "segments": [x.hex() for x in segs]},
                        "delivered", {"delivered": len(ep.got) - before, "buffered": len(ep.p._receive_buffer), "waited_s": round(time.monotonic() - t0, 2)})
            break
    buf.append = real_append
    ep.close()


class HookedCondition:
    """the queue's Condition with a hook that runs right before the lock is taken (a thread switch at that point)"""

    def __init__(self, real, hook):
        self._real, self._hook = real, hook

    def __enter__(self):
        self._hook()
        return self._real.__enter__()

    def __exit__(self, *a):
        return self._real.__exit__(*a)

    def __getattr__(self, name):
        return getattr(self._real, name)


def pop_race_part(res, rng, big):
    """The connection's thread appends the next segment at the moment the receiver thread is about to take the lock inside `ByteQueue.pop`
    for the last complete frame.  `pop(size)` has to hand out exactly that frame; the appended bytes stay for the next look."""
    ep = Endpoint()
    buf = ep.p._receive_buffer
    real = buf._buffer_lock
    state = {"seg": None}

    def hook():
        seg = state["seg"]
        if seg is not None and sys._getframe(2).f_code.co_name == "pop":
            state["seg"] = None
            with real:
                buf._buffer.extend(seg)          # what `ByteQueue.append` does, landing between pop's entry and its lock
    buf._buffer_lock = HookedCondition(real, hook)
    for i in range(8 if big else 4):
        fa, fb = gen_valid_frames(rng, 2)
        split = len(fb[2]) if i % 2 == 0 else rng.range(1, len(fb[2]) - 1)
        before = len(ep.got)
        state["seg"] = fb[2][:split]
        ep.feed([fa[2]])
        M.wait_until(lambda: state["seg"] is None, 1.0)
        if split < len(fb[2]):
            ep.feed([fb[2][split:]])
        ok = M.wait_until(lambda: len(ep.got) >= before + 2 and len(ep.p._receive_buffer) == 0, 1.5)
        got = [(M.hdr_fields(g.header), bytes(g.data)) for g in ep.got[before:]]
        want = [(list(map(int, f[0])), f[1]) for f in (fa, fb)]
        res.count(("pop-race", fa[2], fb[2], split), sample={"op": "append lands right before pop takes the lock", "second_segment_bytes": split} if i == 0 else None)
        res.bump("pop_race", "both delivered" if ok and got == want else "lost")
        if not ok or got != want:
            res.violate("pop-append-race", "a segment appended while the receiver thread enters ByteQueue.pop for the last complete frame: the frames "
                        "are not both delivered (pop handed out more than the requested bytes / frames lost)",
                        {"kind": "pop-race", "frames": [fa[2].hex(), fb[2].hex()], "appended_before_lock": split}, 2, len(got))
            break
    buf._buffer_lock = real
    ep.close()


def dispatch_handover_part(res, rng, big):
    """The dispatcher thread is at its `trigger.clear()` when the next block is queued (`queue_block`: put, set).  Wherever `clear()` stands in
    the loop, the block queued at that moment is the last of its burst and has to be dispatched without a later frame arriving."""
    import threading
    ep = Endpoint.__new__(Endpoint)
    ep.s, ep.p, ep.c = M.new_protocol()
    ep.got = []
    orig = ep.p._thread._dispatcher_target
    ep.p._thread._dispatcher_target = lambda source, block: (ep.got.append(block), orig(source, block))[1]
    disp = ep.p._thread
    state = {"frame": None, "queued": 0}
    real_queue_block = disp.queue_block

    def counting_queue_block(source, block):
        real_queue_block(source, block)
        state["queued"] += 1
    disp.queue_block = counting_queue_block

    class GateEvent(threading.Event):
        def clear(self):
            fr = state["frame"]
            if fr is not None:
                state["frame"] = None
                n = state["queued"]
                ep.c.on_data({"source": ep.c, "data": fr})          # the next frame arrives now …
                M.wait_until(lambda: state["queued"] > n, 1.0)       # … and is queued for dispatch before clear() goes on
            super().clear()
    disp._dispatcher_thread_trigger = GateEvent()
    ep.c.on_connected({"source": ep.c})
    for i in range(8 if big else 4):
        fa, fb = gen_valid_frames(rng, 2)
        before = len(ep.got)
        state["frame"] = fb[2]
        ep.feed([fa[2]])
        ok = M.wait_until(lambda: len(ep.got) >= before + 2, 1.5)
        got = [(M.hdr_fields(g.header), bytes(g.data)) for g in ep.got[before:]]
        want = [(list(map(int, f[0])), f[1]) for f in (fa, fb)]
        res.count(("dispatch-handover", fa[2], fb[2]), sample={"op": "block queued while the dispatcher thread is at trigger.clear()"} if i == 0 else None)
        res.bump("dispatch_handover", "both dispatched" if ok and got == want else "last block not dispatched")
        if not ok or got != want:
            res.violate("dispatch-lost-wakeup", "a block queued while the dispatcher thread is at its trigger.clear() (last block of its burst) is "
                        "not dispatched within 1.5 s: it sits in the dispatch queue until a later frame arrives",
                        {"kind": "dispatch-handover", "frames": [fa[2].hex(), fb[2].hex()]}, 2,
                        {"dispatched": len(got), "left_in_dispatch_queue": disp._dispatch_queue.qsize()})
            break
    ep.close()


def real_tcp_part(res, rng, big):
    """The same statement through the REAL transport: a passive `HsmsProtocol` with its `TcpServerConnection` on loopback, a raw peer that
    writes the frame stream in scripted segments (TCP_NODELAY, a pause after each write so that each write is one readable chunk for the
    endpoint's `recv(1024)` loop) — segment sizes around and exactly at the read size: 1023, 1024, 1025, 2048, 3072 bytes, frames that span
    reads, several frames per read.  Every frame has to reach the message handler, in order."""
    import socket
    s0 = socket.socket()
    s0.bind(("127.0.0.1", 0))
    port = s0.getsockname()[1]
    s0.close()
    p = secsgem.hsms.HsmsProtocol(secsgem.hsms.HsmsSettings(address="127.0.0.1", port=port, connect_mode=secsgem.hsms.HsmsConnectMode.PASSIVE))
    at_handler = []
    real_handler = p._on_connection_message_received
    p._on_connection_message_received = lambda source, message: (at_handler.append(message), real_handler(source, message))[1]
    p.enable()
    peer = None
    end = time.monotonic() + M.bound(3.0)
    while peer is None and time.monotonic() < end:
        try:
            peer = socket.create_connection(("127.0.0.1", port), timeout=5)
        except OSError:
            time.sleep(0.05)
    consumed = [0]
    real_append = p._receive_buffer.append

    def counting_append(d):
        consumed[0] += len(d)
        return real_append(d)
    p._receive_buffer.append = counting_append
    if peer is None:
        res.violate("tcp-listen", "passive endpoint does not accept a connection within 3 s of enable()", {"kind": "real-tcp"})
        return
    peer.setsockopt(socket.IPPROTO_TCP, socket.TCP_NODELAY, 1)

    def drain():                       # the endpoint answers data messages while not selected with Reject.req: keep its send path free
        peer.settimeout(0.001)
        try:
            while peer.recv(65536):
                pass
        except OSError:
            pass

    def data_frame(total_len):
        vals = [rng.range(1, 2**32 - 1), 0, rng.range(1, 127), rng.range(1, 255), rng.below(2), 0, 0]
        body = rng.bytes(total_len - 14)
        return (vals, body, M.ref_frame(*vals, body))
    plans = []
    for n in (1024, 2048, 1023, 1025, 3072, 1024):            # one frame = one segment of exactly that size
        f = data_frame(n)
        plans.append(([f], [f[2]], f"one frame of {n} bytes in its own segment"))
    fs = [data_frame(400), data_frame(624)]                     # two frames filling one 1024-byte read exactly
    plans.append((fs, [fs[0][2] + fs[1][2]], "two frames, together 1024 bytes, one segment"))
    f = data_frame(3000)                                         # a frame cut at the read size
    plans.append(([f], [f[2][:1024], f[2][1024:2048], f[2][2048:]], "one 3000-byte frame in segments 1024+1024+952"))
    fs = [data_frame(rng.choice([14, 20, 100, 510, 1010, 1024, 1500])) for _ in range(6)]
    st = b"".join(x[2] for x in fs)
    plans.append((fs, [st[i:i + 1024] for i in range(0, len(st), 1024)], "six frames, stream cut every 1024 bytes"))
    if big:
        for _ in range(10):
            fs = [data_frame(rng.range(14, 2600)) for _ in range(rng.range(1, 6))]
            st = b"".join(x[2] for x in fs)
            k = rng.choice([512, 1024, 2048])
            plans.append((fs, [st[i:i + k] for i in range(0, len(st), k)], f"random frames, stream cut every {k} bytes"))
    for frames, segments, label in plans:
        before = len(at_handler)
        for seg in segments:
            target = consumed[0] + len(seg)
            peer.sendall(seg)
            # each write is to be one readable chunk: go on when the endpoint has taken it (or, if it does not, after a moment — then the
            # delivery check below says what is missing)
            M.wait_until(lambda: consumed[0] >= target, 0.5, must=False)
            drain()
        ok = M.wait_until(lambda: len(at_handler) >= before + len(frames), 3.0)
        want = [(list(map(int, v)), b) for v, b, _ in frames]
        have = [(M.hdr_fields(m.header), bytes(m.data)) for m in at_handler[before:]]
        res.count(("real-tcp", label, tuple(len(x) for x in segments)), sample={"op": "real TCP reader", "what": label, "segment_sizes": [len(x) for x in segments]} if "1024 bytes in its own" in label else None)
        res.bump("real_tcp", "delivered" if ok and have == want else "NOT delivered")
        if not ok or have != want:
            res.violate("tcp-reader-loses-bytes", "frames written to the real TCP connection did not all reach the message handler in order: " + label,
                        {"kind": "real-tcp", "segment_sizes": [len(x) for x in segments], "frames": [x[2].hex() for x in frames] if sum(len(x[2]) for x in frames) < 2500 else None},
                        len(want), {"reached_handler": len(have), "receive_buffer": len(p._receive_buffer)})
            break
    peer.close()
    done = __import__("threading").Event()
    __import__("threading").Thread(target=lambda: (p.disable(), done.set()), daemon=True).start()
    M.wait_event(done, 5)


def replay_cases(res, violations):
    """re-run recorded failing cases that carry their own data"""
    ep = None
    for v in violations:
        case = v.get("case") or {}
        if case.get("kind") == "seg" and case.get("frames"):
            if ep is None:
                ep = Endpoint()
            raws = [bytes.fromhex(x) for x in case["frames"]]
            frames = []
            for r in raws:
                b = HsmsBlock.decode(r)
                frames.append((M.hdr_fields(b.header), bytes(b.data), r))
            stream = b"".join(raws)
            cuts = case["cuts"]
            offs = list(range(1, len(stream))) if cuts == "all" else list(cuts)
            check_delivery(res, ep, frames, M.cut(stream, offs), "replay", case)
            res.count(("replay", stream, tuple(offs)))
    if ep is not None:
        ep.close()


def main():
    a = hlib.std_args()
    recorded = M.apply_replay(a)
    res = hlib.Result("C04", a.tier, a.seed)
    rng = hlib.Rng(a.seed ^ 0xC04)
    drv = M.Driver()
    big = a.tier == "thorough" or a.search
    res.rule = ("header: boundary pool per field (0,1,max-1,max,mid, max+1,-1,2max+1) x every SType, decode over all 256 SType bytes and wrong "
                "lengths; blocks: body lengths 0..300, 243..257, 4095, 65535/6 (thorough 1 MiB+1), truncated/extended/length-field variants; "
                "receive loop without threads: valid and malformed streams (length<10, undefined SType, 4 zero bytes, overlong announcement) "
                "in single bytes / one chunk / random cuts; with threads: every cut position of two-frame streams, single bytes, random "
                "partitions, one segment, 1024-byte reads; hand-over with the connection thread delayed inside the data handler; the real TCP reader on loopback with segments of 1023/1024/1025/2048/3072 bytes. distinct = distinct canonical input; non-trivial = not an input of the wrong size")
    if recorded:
        replay_cases(res, recorded)
    for name, part in (("codec", lambda: codec_part(res, rng.fork("codec"), drv, big)),
                       ("feed", lambda: feed_part(res, rng.fork("feed"), drv, big)),
                       ("threads", lambda: threads_part(res, rng.fork("threads"), big)),
                       ("handover", lambda: handover_part(res, rng.fork("handover"), big)),
                       ("pop race", lambda: pop_race_part(res, rng.fork("poprace"), big)),
                       ("dispatch handover", lambda: dispatch_handover_part(res, rng.fork("disphand"), big)),
                       ("real tcp", lambda: real_tcp_part(res, rng.fork("realtcp"), big))):
        M.guarded(res, name, part)
    res.notes.append("quiescence of the threaded runs = expected number of blocks captured, receive buffer and dispatch queue empty (bound 5 s)")
    res.dump(a.out)
    sys.stdout.flush()
    os._exit(0)


if __name__ == "__main__":
    main()
