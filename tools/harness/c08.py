"""C08 — every primary expecting a reply is answered exactly once, with the same system bytes.

REAL `GemEquipmentHandler` and `GemHostHandler` over a real `HsmsProtocol` on an in-memory connection (tools/harness/gemrig.py),
brought to COMMUNICATING by a real S1F13/S1F14 exchange.  A long stream of inbound data messages goes to each:
  every catalogued (s, f), every pair with a built-in callback, sampled uncatalogued pairs (all 2^15 in thorough)
  x {W, no W} x bodies {well-formed (built with the real function class), empty, truncated, wrong type, random bytes};
  user callbacks (catalogued S/F, built-in overridden, uncatalogued function, uncatalogued stream) with the three outcomes;
  a message whose system bytes belong to an open transaction; messages before the link is selected / before COMMUNICATING.
After each message: bounded wait for the dispatcher, then the data frames written are captured.
  (C) what the callback did (observed at the callback boundary) + the handler's tables go to the Lean model
      (`secshandle handle …`); the frames it predicts are compared with the frames written;
  (O) the property text: exactly one data message with the primary's system bytes — the callback's secondary, SxF0 if it
      raised, S9F5 with the offending header if there is none; none without W when handled without error.
"""
from __future__ import annotations

import json
import os
import sys
import threading
import time

sys.path.insert(0, os.path.dirname(os.path.abspath(__file__)))
import gemrig  # noqa: E402
from gemrig import Rig, Stuck  # noqa: E402
import hlib  # noqa: E402

import secsgem.common  # noqa: E402
import secsgem.secs  # noqa: E402
from secsgem.secs.functions._all import secs_streams_functions  # noqa: E402
from secsgem.secs.functions.base import SecsStreamFunction  # noqa: E402

CATALOGUE = [(c.stream, c.function) for c in secs_streams_functions]
CAT_CLS = {(c.stream, c.function): c for c in secs_streams_functions}

# ---- observer on the callback boundary: what did the callback do?
_inner_call = secsgem.common.CallbackHandler._call  # gemrig's observer (logs ("cb", s, f)), which calls the real one


def _obs_result(self, callback, *args, **kwargs):
    rig = gemrig.RIGS.get(id(self))
    m = gemrig.SF_RE.fullmatch(callback)
    if rig is None or not m:
        return _inner_call(self, callback, *args, **kwargs)
    try:
        result = _inner_call(self, callback, *args, **kwargs)
    except Exception:
        rig.log.append(("cbres", "raised", None))
        raise
    rig.log.append(("cbres", "none", None) if result is None else ("cbres", "fn", (result.stream, result.function)))
    return result


secsgem.common.CallbackHandler._call = _obs_result


_orig_violate = hlib.Result.violate


def _capped_violate(self, klass, what, case, expected=None, actual=None):
    """at most five recorded cases per class (hlib keeps 200 in all: a listed finding must not crowd out a new one)"""
    self.bump("oracle_findings", klass)
    n = self.hist["oracle_findings"][str(klass)]
    if n <= 5:
        _orig_violate(self, klass, what, case, expected, actual)


hlib.Result.violate = _capped_violate


def header_only(s, f):
    return type(f"HarnessS{s:02d}F{f:02d}", (SecsStreamFunction,), {
        "_stream": s, "_function": f, "_data_format": None, "_to_host": True, "_to_equipment": True,
        "_has_reply": False, "_is_reply_required": False, "_is_multi_block": False})


def reply_for(s, f):
    """the secondary (function + 1) a user callback returns (where the format allows it, with a body no built-in produces)"""
    cls = CAT_CLS.get((s, f + 1))
    if (s, f + 1) == (1, 2):
        return cls(["USERCB", "9.9.9"])
    if cls is not None:
        try:
            return cls()
        except Exception:  # noqa: BLE001
            pass
    return header_only(s, f + 1)()


def well_formed(s, f):
    cls = CAT_CLS.get((s, f))
    if cls is None:
        return b""
    special = {(2, 41): {"RCMD": "START", "PARAMS": []}, (1, 3): [1, 2], (2, 13): [1], (5, 1): {"ALCD": 1, "ALID": 1, "ALTX": "x"},
               (10, 1): {"TID": 0, "TEXT": "hello"}, (6, 11): {"DATAID": 1, "CEID": 1, "RPT": []}, (1, 11): [], (2, 29): []}
    try:
        return cls(special[(s, f)]).encode() if (s, f) in special else cls().encode()
    except Exception:  # noqa: BLE001
        try:
            return cls().encode()
        except Exception:  # noqa: BLE001
            return b""


def _sample(leaf):
    """a value the data item class accepts"""
    for c in (1, "A", True, b"\x01", 1.5, [1]):
        try:
            leaf(c)
            return c
        except Exception:  # noqa: BLE001
            continue
    return None


def shape_value(fmt, n):
    """type-directed value for an item descriptor (a data item class, or a list: optional name, then one element = open list
    of it, several elements = fixed structure): every open list gets `n` elements, every leaf a value it accepts"""
    if isinstance(fmt, list):
        items = fmt[1:] if fmt and isinstance(fmt[0], str) else fmt
        if len(items) == 1:
            return [shape_value(items[0], n) for _ in range(n)]
        return [shape_value(it, n) for it in items]
    return _sample(fmt)


def shape_of(var, n):
    """the same, walking the variable tree of a function object (`List` = fixed structure, `Array` = open list)"""
    import secsgem.secs.variables as V
    if isinstance(var, V.List):
        return [shape_of(x, n) for x in var.data.values()]
    if isinstance(var, V.Array):
        return [shape_value(var.item_decriptor, n) for _ in range(n)]
    return _sample(type(var))


def shaped_bodies(s, f):
    """bodies in which every open list of the function's structure is empty / has one element / has several"""
    cls = CAT_CLS.get((s, f))
    out = []
    if cls is None:
        return out
    try:
        probe = cls()
    except Exception:  # noqa: BLE001
        return out
    if probe.data is None:
        return out
    for n in (0, 1, 3):
        try:
            out.append((f"shape-{n}", cls(shape_of(probe.data, n)).encode()))
        except Exception:  # noqa: BLE001
            pass
    return out


class SlowPutQueue(__import__("queue").Queue):
    """send queue whose producer loses the cpu when it is about to enqueue: the protocol thread, if triggered before, runs its
    pass in between"""

    delay = 0.0

    def put(self, item, block=True, timeout=None):
        if self.delay:
            time.sleep(self.delay)
        super().put(item, block, timeout)


def bodies(rng, s, f):
    wf = well_formed(s, f)
    out = [("wellformed", wf), ("empty", b"")]
    if len(wf) > 1:
        out.append(("truncated", wf[:-1]))
    out.append(("wrongtype", b"\x41\x03abc" if not wf.startswith(b"\x41") else b"\xa9\x02\x00\x07"))
    out.append(("random", rng.bytes(rng.range(1, 24))))
    return out


class Stream:
    """one real handler and the stream of messages it is fed"""

    def __init__(self, role, res, flags, stage="communicating"):
        self.role, self.res, self.flags = role, res, flags
        self.rig = Rig(role, 0, t3=0.3)
        self.h = self.rig.h
        self.lines, self.cases, self.answers = [], [], []
        self.user: dict[tuple[int, int], str] = {}
        self.extra: list[tuple[int, int]] = []  # functions the application added to the catalogue at run time
        rig = self.rig
        if stage != "disabled":
            rig.h.enable()
        if stage == "connected":
            rig.connect()
        if stage in ("waitcra", "communicating", "waitdelay"):
            rig.select()
        if stage == "communicating":
            s1f13 = [e[1] for e in rig.frames(rig.log) if e[0] == "frame" and e[1].header.s_type.value == 0 and e[1].header.function == 13]
            rig.feed(rig.data_message(1, 14, False, s1f13[-1].header.system,
                                      secsgem.secs.functions.SecsS01F14({"COMMACK": 0, "MDLN": []}).encode()))
            if rig.comm() != "COMMUNICATING":
                raise RuntimeError("rig did not reach COMMUNICATING")
        if stage == "waitdelay":
            rig.fire(rig.h._communication_state._wait_cra_timer)

    # ---- user callbacks
    def set_user(self, s, f, outcome):
        """outcome: reply | none | raises | None (unregister)"""
        if outcome is None:
            self.h.unregister_stream_function(s, f)
            self.user.pop((s, f), None)
            return
        self.user[(s, f)] = outcome
        if outcome == "reply":
            def answer(h_, m_):
                fn = reply_for(m_.header.stream, m_.header.function)
                self.user_reply_body = fn.encode()
                return fn
            self.rig.user_outcome[(s, f)] = answer
        elif outcome == "reply-cat":
            # the way an application writes it: the secondary's class comes from the handler's own catalogue
            def answer_cat(h_, m_):
                fn = h_.stream_function(m_.header.stream, m_.header.function + 1)()
                self.user_reply_body = fn.encode()
                return fn
            self.rig.user_outcome[(s, f)] = answer_cat
        elif outcome == "none":
            self.rig.user_outcome[(s, f)] = lambda h_, m_: None
        else:
            def boom(h_, m_):
                raise RuntimeError("user callback fails")
            self.rig.user_outcome[(s, f)] = boom
        self.h.register_stream_function(s, f, self.rig._user_cb)

    # ---- one message
    def send(self, s, f, w, body, tag, system=None, oracle=True):
        rig, res = self.rig, self.res
        system = system if system is not None else Rig.INBOUND + rig.fresh()
        msg = rig.data_message(s, f, bool(w), system, body)
        hdr = msg.header.encode()
        name = self.h._generate_sf_callback_name(s, f)
        has_cb = name in self.h.callbacks
        comm = rig.comm()
        selected = rig.p.connection_state.current.name == "CONNECTED_SELECTED"
        waiting = sorted(rig.p._response_queues)
        mark = len(rig.log)
        rig.feed(msg)
        entries = rig.frames(rig.log[mark:])
        # ---- what the callback did
        outcome, inside = None, []
        in_cb = False
        frames = []
        n_cb = n_ucb = 0
        self.user_reply_body = None
        for e in entries:
            if e[0] == "ucb" and (e[1], e[2]) == (s, f):
                n_ucb += 1
            elif e[0] == "cb" and (e[1], e[2]) == (s, f):
                n_cb += 1
                in_cb = True
            elif e[0] == "cbres":
                in_cb = False
                outcome = e
            elif e[0] == "frame":
                hd = e[1].header
                if hd.s_type.value != 0:
                    if hd.s_type.value == 7:
                        frames.append(("R", hd.system))
                    continue
                rec = ("D", hd.stream, hd.function, bool(hd.require_response), hd.system, bytes(e[1].data))
                frames.append(rec)
                if in_cb and hd.system == system:
                    inside.append(rec)
        if outcome is None:
            oc = "none"
        elif outcome[1] == "fn":
            oc = f"reply.{outcome[2][0]}.{outcome[2][1]}"
        elif outcome[1] == "none":
            oc = f"reply.{inside[0][1]}.{inside[0][2]}" if inside else "none"
        else:
            oc = f"rtr.{inside[0][1]}.{inside[0][2]}" if inside else "raises"
        mine = [fr for fr in frames if fr[-1 if fr[0] == "R" else 4] == system]
        foreign = [fr for fr in frames if fr[0] == "D" and fr[4] != system and (fr[4] >= Rig.FOREIGN or not fr[3])]

        def canon(fr):
            if fr[0] == "R":
                return f"R.{fr[1]}"
            _, fs, ff, fw, fsys, data = fr
            if (fs, ff) == (9, 5) and len(data) == 12 and data[:2] == b"\x21\x0a":
                kind = "H" + data[2:].hex()
            elif ff == 0 and data == b"":
                kind = "E"
            else:
                kind = "fn"
            return f"D.{fs}.{ff}.{int(fw)}.{fsys}.{kind}"

        case = {"role": self.role, "s": s, "f": f, "w": int(bool(w)), "body": tag, "body_hex": body.hex()[:60], "user": dict((f"{a}.{b}", o) for (a, b), o in self.user.items()),
                "comm": comm, "callback": has_cb, "outcome": oc}
        res.count((self.role, s, f, w, tag, body if tag != "random" else len(body), tuple(sorted(self.user.items())), comm, selected),
                  sample=case if tag == "random" and len(res.samples) < 6 else None)
        res.bump("body", tag.split("+")[0] if not tag.startswith("sys-") else "boundary-system")
        if "+reused" in tag:
            res.bump("system_bytes", "reused")
        elif tag.startswith("sys-"):
            res.bump("system_bytes", tag[4:])
        res.bump("w", int(bool(w)))
        res.bump("callback_outcome", (oc.split(".")[0] if has_cb else "no-callback"))
        res.bump("catalogued", (s, f) in CAT_CLS)
        res.bump("replies", len([fr for fr in mine if fr[0] == "D"]))
        # ---- correspondence
        cls = "equipment" if self.role == "equipment" else "host"
        dispatched = comm == "COMMUNICATING" and selected and not (f % 2 == 0 and system in waiting)
        if dispatched:
            self.lines.append(f"secshandle which {cls} {','.join(f'{a}.{b}' for a, b in sorted(self.user)) or '-'} {s} {f}")
            self.cases.append(dict(case, what="which callable runs"))
            self.answers.append("ok " + ("user" if n_ucb else ("builtin" if n_cb else "none")))
            # the callback table as the property text has it: a registered callback (or, failing that, an inherited
            # `_on_sXXfYY`) is called exactly once per message, whatever the catalogue says; nothing else is called
            want_ucb = 1 if (s, f) in self.user else 0
            want_cb = 1 if has_cb else 0
            if oracle and (n_ucb, n_cb) != (want_ucb, want_cb):
                res.violate("registered-callback-not-called" if (n_ucb < want_ucb or n_cb < want_cb) else "callback-called-repeatedly",
                            f"S{s}F{f}: user callback registered={bool(want_ucb)} called {n_ucb}x; callback present={has_cb} called {n_cb}x",
                            case, f"user {want_ucb}x, any {want_cb}x", f"user {n_ucb}x, any {n_cb}x")
        if not (comm == "WAIT_CRA" and (s, f) in ((1, 13), (1, 14))):
            self.lines.append(f"secshandle handlex {','.join(f'{a}.{b}' for a, b in self.extra) or '-'} {cls} {self.flags} {int(selected)} {comm} {','.join(map(str, waiting)) or '-'} "
                              f"{','.join(f'{a}.{b}' for a, b in sorted(self.user)) or '-'} {oc} {s} {f} {int(bool(w))} {system} {hdr.hex()}")
            self.cases.append(case)
            self.answers.append("ok " + ";".join(canon(fr) for fr in mine))
        # ---- oracle (the property text; only while established; an even function carrying the system bytes of an open
        #      transaction of ours is the reply to our primary, not a primary — an odd function is always a primary)
        if oracle and comm == "COMMUNICATING" and selected and not (f % 2 == 0 and system in waiting):
            self.judge(case, s, f, w, system, hdr, has_cb, outcome, inside, mine, foreign)
        elif oracle and comm == "WAIT_CRA" and selected and (s, f) == (1, 13) and w:
            # the exchange that establishes communication: the peer's S1F13 arriving while our own S1F13 is outstanding is answered
            # by the handler itself - with exactly one S1F14 carrying its system bytes, not once more by the callback afterwards
            data = [fr for fr in mine if fr[0] == "D"]
            show = [f"S{fr[1]}F{fr[2]} sys={fr[4]} body={fr[5].hex()[:40]}" for fr in data]
            if len(data) != 1 or (data[0][1], data[0][2]) != (1, 14):
                res.violate("multiple-replies" if len(data) > 1 else ("no-reply" if not data else "wrong-reply"),
                            f"S1F13 W received in WAIT_CRA (both sides establish at the same time): expected exactly one S1F14 with system bytes "
                            f"{system}, got {show}; communication state afterwards {rig.comm()}", case, "one S1F14", show)
        return mine

    def judge(self, case, s, f, w, system, hdr, has_cb, outcome, inside, mine, foreign):
        res = self.res
        data = [fr for fr in mine if fr[0] == "D"]
        show = [f"S{fr[1]}F{fr[2]} sys={fr[4]} body={fr[5].hex()[:40]}" for fr in data]
        for fr in foreign:
            res.violate("reply-with-other-system-bytes", f"S{fr[1]}F{fr[2]} written with system bytes {fr[4]} while answering system bytes {system}",
                        case, f"system bytes {system}", fr[4])
        if w:
            if not has_cb:
                want = ("S9F5", (9, 5))
            elif outcome is not None and outcome[1] == "fn":
                want = (f"S{outcome[2][0]}F{outcome[2][1]} (returned by the callback)", tuple(outcome[2]))
            elif outcome is not None and outcome[1] == "raised" and not inside:
                want = (f"S{s}F0", (s, 0))
            elif outcome is not None and outcome[1] == "none" and inside:
                want = ("the reply the callback sent itself", (inside[0][1], inside[0][2]))
            elif outcome is None:
                klass = "registered-callback-not-called"
                res.violate(klass, f"S{s}F{f} W: a callback exists and was not called; written: {show}", case, "the callback's reply", show)
                return
            elif outcome[1] == "none" and (s, f) not in self.user:
                res.violate("builtin-callback-no-reply", f"S{s}F{f} W: the built-in callback returned None and nothing was written",
                            case, "its secondary or SxF0", show)
                return
            else:
                res.bump("outside_statement", "user callback returned None" if outcome[1] == "none" else "callback replied itself, then raised")
                return
            if len(data) == 1 and (data[0][1], data[0][2]) == want[1]:
                if (s, f) in self.user and outcome is not None and outcome[1] == "fn" and self.user_reply_body is not None \
                        and data[0][5] != self.user_reply_body:
                    res.violate("wrong-reply-body", f"S{s}F{f} W: the reply is not the secondary the registered callback returned",
                                case, self.user_reply_body.hex(), data[0][5].hex())
                elif want[1] == (9, 5) and data[0][5] != b"\x21\x0a" + hdr:
                    res.violate("s9f5-wrong-header", "S9F5 does not carry the offending header", case, (b"\x21\x0a" + hdr).hex(), data[0][5].hex())
                elif want[1] == (s, 0) and data[0][5] != b"":
                    res.violate("abort-with-body", "SxF0 carries a body", case, "", data[0][5].hex())
                return
            if not data and has_cb and outcome is not None and outcome[1] == "raised" and (s, 0) not in CAT_CLS and (s, 0) not in self.extra:
                res.violate("c08-abort-uncatalogued-stream",
                            f"the callback for S{s}F{f} W raised and no reply at all was written (S{s}F0 is not in the catalogue: KeyError inside the except block)",
                            case, want[0], show)
                return
            klass = "no-reply" if not data else ("multiple-replies" if len(data) > 1 else "wrong-reply")
            res.violate(klass, f"S{s}F{f} W: expected exactly one reply {want[0]} with system bytes {system}, got {show}", case, want[0], show)
        else:
            errored = outcome is not None and outcome[1] == "raised"
            if errored or not data:
                return
            if has_cb and outcome is not None and len(data) == 1 and (
                    (outcome[1] == "fn" and (data[0][1], data[0][2]) == tuple(outcome[2])) or (outcome[1] == "none" and inside == data)):
                res.violate("c08-reply-without-wbit",
                            f"S{s}F{f} without W-bit was handled without error and S{data[0][1]}F{data[0][2]} was written all the same",
                            case, "no reply", show)
            else:
                res.violate("reply-without-wbit-other", f"S{s}F{f} without W-bit caused {show}", case, "no reply", show)

    def close(self):
        self.rig.close()


def detect_flags():
    """Which variant is the code?  (replays the witnesses of the two recorded findings)"""
    res = hlib.Result("C08", "quick", 0)
    st = Stream("equipment", res, "00")
    w_gate = not [fr for fr in st.send(1, 1, 0, b"", "detect", oracle=False) if fr[0] == "D"]
    st.set_user(99, 1, "raises")
    abort_any = bool([fr for fr in st.send(99, 1, 1, b"", "detect", oracle=False) if fr[0] == "D"])
    st.close()
    return f"{int(w_gate)}{int(abort_any)}"


USER_TARGETS = {"equipment": [(1, 21), (1, 1), (1, 99), (99, 1), (6, 11), (3, 17), (127, 253)],
                "host": [(1, 21), (1, 1), (1, 99), (99, 1), (1, 3), (3, 17), (127, 253)]}


def uncatalogued_pairs(rng, tier, search):
    if tier == "thorough":
        return [(s, f) for s in range(128) for f in range(256) if (s, f) not in CAT_CLS]
    pool = [(0, 1), (1, 5), (1, 19), (1, 255), (2, 1), (9, 2), (9, 6), (127, 0), (127, 255), (3, 0), (3, 1), (4, 1), (8, 1), (11, 1), (13, 1),
            (15, 1), (64, 1), (99, 1), (100, 100), (126, 254), (1, 100), (2, 100), (10, 10), (14, 5), (0, 255)]
    n = 1500 if search else 700
    while len(pool) < n:
        p = (rng.range(0, 127), rng.range(0, 255))
        if p not in CAT_CLS:
            pool.append(p)
    return [p for p in pool if p not in CAT_CLS]


def drive(role, res, rng, flags, tier, search, replay_cases=None):
    st = Stream(role, res, flags)
    try:
        if replay_cases is not None:
            for c in replay_cases:
                for key, o in c.get("user", {}).items():
                    a, b = key.split(".")
                    st.set_user(int(a), int(b), o)
                body = bytes.fromhex(c["body_hex"]) if len(c["body_hex"]) < 60 else well_formed(c["s"], c["f"])
                st.send(c["s"], c["f"], c["w"], body, c["body"])
                for key in list(c.get("user", {})):
                    a, b = key.split(".")
                    st.set_user(int(a), int(b), None)
            return st
        builtin = [p for p in CATALOGUE if st.h._generate_sf_callback_name(*p) in st.h.callbacks]
        # 1. every catalogued pair x W x bodies  (the pairs with a built-in callback come first and once more at the end)
        for (s, f) in builtin + [p for p in CATALOGUE if p not in builtin]:
            for tag, body in bodies(rng, s, f):
                for w in (1, 0):
                    st.send(s, f, w, body, tag)
        # 1a. built-in callbacks: every open list of the body empty / one element / several
        for (s, f) in builtin:
            for tag, body in shaped_bodies(s, f):
                for w in (1, 0):
                    st.send(s, f, w, body, tag)
        # 1b. boundary system bytes (the reply must echo them exactly), then the same system bytes once more (a closed
        #     transaction's system bytes may be used again)
        for system in (0, 1, 0x7FFFFFFF, 0x80000000, 0xFFFFFFFE, 0xFFFFFFFF, 0):
            for (s, f, body) in ((1, 1, b""), (1, 3, b"\xff"), (99, 1, b""), (1, 13, b"\x01\x00"), (2, 17, b"")):
                st.send(s, f, 1, body, f"sys-{system:#x}", system=system)
        # 1c. fault: the transport writes the reply frame and reports an error all the same: still one frame per system bytes
        for (s, f, body) in ((1, 1, b""), (99, 1, b""), (1, 3, b"\xff"), (1, 13, b"\x01\x00")):
            st.rig.c.lie = 1
            st.send(s, f, 1, body, "send-reported-failed")
            st.rig.c.lie = 0
        # 2. uncatalogued pairs
        for (s, f) in uncatalogued_pairs(rng, tier, search):
            w = 1 if tier == "thorough" else rng.below(4) != 0
            tag, body = ("empty", b"") if rng.below(3) else ("random", rng.bytes(rng.range(1, 16)))
            st.send(s, f, w, body, tag)
            if tier == "thorough" and rng.below(8) == 0:
                st.send(s, f, 0, body, tag)
        # 3. user callbacks, three outcomes
        for (s, f) in USER_TARGETS[role]:
            for o in ("reply", "none", "raises"):
                st.set_user(s, f, o)
                for tag, body in bodies(rng, s, f)[: (5 if (tier == "thorough" or search) else 3)]:
                    for w in (1, 0):
                        st.send(s, f, w, body, tag)
            st.set_user(s, f, None)
            st.send(s, f, 1, b"", "empty")  # unregistered again: built-in or S9F5
        # 4. S2F41 (replies itself, returns None), known and unknown command
        if role == "equipment":
            for val in ({"RCMD": "START", "PARAMS": []}, {"RCMD": "NOPE", "PARAMS": []}, {"RCMD": "STOP", "PARAMS": [{"CPNAME": "X", "CPVAL": "1"}]}):
                body = CAT_CLS[(2, 41)](val).encode()
                for w in (1, 0):
                    st.send(2, 41, w, body, "s2f41-" + val["RCMD"])
        # 5. system bytes of an open transaction: an even function is the reply to our primary (consumed by the waiter),
        #    an odd function is a primary of the peer and is answered like any other
        for k in range(5):
            t = threading.Thread(target=lambda: st.h.send_and_waitfor_response(CAT_CLS[(1, 1)]()), daemon=True)
            mark = len(st.rig.log)
            t.start()
            end = time.monotonic() + gemrig.deadline()
            sysb = None
            while sysb is None and time.monotonic() < end:
                for e in st.rig.frames(st.rig.log[mark:]):
                    if e[0] == "frame" and e[1].header.s_type.value == 0 and (e[1].header.stream, e[1].header.function) == (1, 1):
                        sysb = e[1].header.system
                time.sleep(0.001)
            if sysb is None:
                raise Stuck("own S1F1 not written")
            st.send(*[(1, 2), (1, 3), (99, 1), (1, 0), (1, 1)][k], [0, 1, 1, 0, 1][k], b"", "awaited", system=sysb)
            t.join(gemrig.deadline())
        # 5b. the application changes the catalogue and the callback table BETWEEN messages: the reply depends on what is
        #     catalogued and registered at the time of the message (functions first seen while undefined, then added)
        for stream in (64, 3):
            klasses = [type(f"UserS{stream:02d}F{fn:02d}", (SecsStreamFunction,), {
                "_stream": stream, "_function": fn, "_data_format": None, "_to_host": True, "_to_equipment": True,
                "_has_reply": fn == 1, "_is_reply_required": fn == 1, "_is_multi_block": False}) for fn in (0, 1, 2)]
            for (fn, w) in ((1, 1), (2, 0), (0, 0), (1, 0)):
                st.send(stream, fn, w, b"", "before-update")                     # unknown: S9F5 for the W primary, nothing else
            cat = st.h.settings.streams_functions
            for k in klasses:
                if cat.function(k.stream, k.function) is None:                   # politely: only what the catalogue has no class for
                    cat.update(k)
                    st.extra.append((k.stream, k.function))
            st.send(stream, 1, 1, b"", "after-update-no-callback")               # catalogued now, still no callback: S9F5
            for o in ("reply-cat", "raises", "reply-cat", "none", "reply"):
                st.set_user(stream, 1, o)
                for w in (1, 0):
                    st.send(stream, 1, w, b"", "after-update-" + o)
            st.set_user(stream, 1, None)
            st.send(stream, 1, 1, b"", "after-unregister")                       # S9F5 again
            st.set_user(stream, 1, "reply-cat")
            st.send(stream, 1, 1, b"", "after-reregister")
            st.set_user(stream, 1, None)
        # ... and a function the catalogue already has is replaced by a class of the application
        repl = type("UserS01F02", (SecsStreamFunction,), {"_stream": 1, "_function": 2, "_data_format": None, "_to_host": True,
                                                          "_to_equipment": True, "_has_reply": False, "_is_reply_required": False, "_is_multi_block": False})
        st.h.settings.streams_functions.update(repl)
        st.set_user(1, 1, "reply-cat")
        st.send(1, 1, 1, b"", "after-replace")
        st.set_user(1, 1, None)
        st.h.settings.streams_functions.update(CAT_CLS[(1, 2)])
        st.send(1, 1, 1, b"", "after-restore")
        # 6. a long mixed random sequence
        pool = CATALOGUE + uncatalogued_pairs(rng, "quick", False)[:40]
        used = []
        for i in range(3000 if (tier == "thorough" or search) else 1200):
            s, f = rng.choice(pool)
            tag, body = rng.choice(bodies(rng, s, f))
            system = None
            if used and rng.below(4) == 0:
                system, tag = rng.choice(used), tag + "+reused-system"   # system bytes of an earlier, closed transaction
            else:
                system = Rig.INBOUND + st.rig.fresh()
                used.append(system)
            st.send(s, f, rng.below(2), body, tag, system=system)
        return st
    except Exception:
        st.close()
        raise


def quiet_link_cases(role, res, flags):
    """the reply must be written although nothing else happens on the link: the dispatcher is held for a moment just before
    it enqueues the reply block (a legal interleaving with the protocol thread, forced by a slow `put`)"""
    st = Stream(role, res, flags)
    q = SlowPutQueue()
    st.rig.p._send_queue = q
    q.delay = 0.05
    old_wait = gemrig.WAIT
    gemrig.WAIT = 12.0  # far above anything machine load can cause for one 50 ms delayed hand-over; the loop ends at the first stall
    try:
        for (s, f, body) in ((1, 1, b""), (99, 1, b""), (1, 3, b"\xff")):
            try:
                st.send(s, f, 1, body, "quiet-link")
            except Stuck:
                res.violate("reply-not-written-on-quiet-link",
                            f"S{s}F{f} W: the reply was handed to send_message but not written within {gemrig.WAIT} s while the link is quiet "
                            "(the dispatcher is still blocked in BlockSendInfo.wait)",
                            {"role": role, "s": s, "f": f, "w": 1, "body": "quiet-link", "body_hex": body.hex(), "user": {}, "slow_put_s": q.delay})
                break
    finally:
        gemrig.WAIT = old_wait
        q.delay = 0.0
    return st


def gate_cases(role, res, flags):
    """before the link is selected / before COMMUNICATING: Reject.req resp. nothing (correspondence of the gate only)"""
    out = []
    for stage in ("connected", "waitcra", "waitdelay", "disabled"):
        st = Stream(role, res, flags, stage=stage)
        if stage == "disabled":
            st.rig.select()
        for (s, f, w) in ((1, 1, 1), (1, 3, 1), (99, 1, 1), (1, 1, 0), (2, 41, 1)):
            st.send(s, f, w, b"", "gate-" + stage)
        out.append(st)
    # the peer's S1F13 crosses ours: received in WAIT_CRA (after select; after a T3/delay round; after a reconnect), then the
    # handler is COMMUNICATING and a further S1F13 is answered by the callback - each with exactly one S1F14
    for prep in ("select", "retry", "reconnect"):
        st = Stream(role, res, flags, stage="waitcra")
        if prep == "retry":
            st.rig.fire(st.rig.h._communication_state._wait_cra_timer)
            st.rig.fire(st.rig.h._communication_state._comm_delay_timer)
        elif prep == "reconnect":
            st.rig.lose()
            st.rig.select()
            for t in st.rig.timers("_on_wait_cra_timeout")[:1]:
                st.rig.fire(t)
            for t in st.rig.timers("_on_wait_comm_delay_timeout")[:1]:
                st.rig.fire(t)
        for body in (b"\x01\x00", b"", bytes.fromhex("0102410141410142")):
            if st.rig.comm() != "WAIT_CRA" and body == b"\x01\x00":
                raise RuntimeError(f"crossing S1F13: rig is in {st.rig.comm()}, not in WAIT_CRA")
            st.send(1, 13, 1, body, "crossing-s1f13-" + prep)
        out.append(st)
    return out


def main():
    a = hlib.std_args()
    res = hlib.Result("C08", a.tier, a.seed)
    rng = hlib.Rng(a.seed ^ 0xC08)
    drv = hlib.Driver()
    res.rule = ("message streams against an equipment and a host handler in COMMUNICATING: every catalogued (s,f) (built-in callbacks first) x "
                "{W, no W} x bodies {well-formed from the real function class, empty, truncated, wrong type, random}; uncatalogued pairs "
                "(boundary pool + random sample; all 2^15 - catalogued in thorough); user callbacks on 7 targets (catalogued, built-in "
                "overridden, uncatalogued function, uncatalogued streams) x outcomes {returns F+1, returns None, raises}; S2F41 known/unknown "
                "command; messages carrying the system bytes of an open transaction; a random mixed sequence; messages before select / "
                "before COMMUNICATING.  distinct = distinct (role, s, f, W, body, registered user callbacks, state); all are non-trivial")
    flags = detect_flags()
    res.notes.append(f"variant detected on the implementation: wGate={flags[0]} abortAny={flags[1]}")
    streams = []
    try:
        if a.replay:
            body = json.load(open(a.replay))
            cs = [v["case"] for v in body.get("violations", []) if isinstance(v.get("case"), dict) and "s" in v["case"]]
            cs += [b["case"] for b in body.get("breaks", []) if isinstance(b, dict) and isinstance(b.get("case"), dict) and "s" in b["case"]]
            if cs:
                for role in ("equipment", "host"):
                    if any(c["role"] == role and c.get("body") == "quiet-link" for c in cs):
                        streams.append(quiet_link_cases(role, res, flags))
                    mine = [c for c in cs if c["role"] == role and c.get("body") != "quiet-link"]
                    if mine:
                        streams.append(drive(role, res, rng, flags, a.tier, True, replay_cases=mine))
            else:
                a.search = True
        if not streams:
            for role in ("equipment", "host"):
                streams.append(drive(role, res, rng.fork(role), flags, a.tier, a.search))
                streams += gate_cases(role, res, flags)
                streams.append(quiet_link_cases(role, res, flags))
    except Stuck as exc:
        res.violate("wedged", f"bounded wait ran out: {exc}", {"stream": len(streams)})
    # ---- generated facts vs the real classes
    fact_lines = ["secshandle builtin equipment", "secshandle builtin host", "secshandle catalogue", "secshandle f0"]
    import re
    real = []
    for cls in (secsgem.gem.GemEquipmentHandler, secsgem.gem.GemHostHandler):
        names = sorted((int(m.group(1)), int(m.group(2))) for n in dir(cls) for m in [re.fullmatch(r"_on_s(\d+)f(\d+)", n)]
                       if m and callable(getattr(cls, n)))
        real.append("ok " + ",".join(f"{s}.{f}" for s, f in names))
    real.append("ok " + ",".join(f"{s}.{f}" for s, f in CATALOGUE))
    real.append("ok " + ",".join(str(s) for s in sorted({s for s, f in CATALOGUE if f == 0})))
    lines = fact_lines + [ln for st in streams for ln in st.lines]
    cases = [{"fact": ln} for ln in fact_lines] + [c for st in streams for c in st.cases]
    answers = real + [x for st in streams for x in st.answers]
    if drv.available:
        res.driver_used = True
        outs = gemrig.driver_run(lines)
        for case, line, m, i in zip(cases, lines, outs, answers):
            res.traces_validated += 1
            if m != i:
                res.disagree("SecsHandler._handle_stream_function / protocol gate vs Model.SecsHandle.handle", {"case": case, "line": line[:300]}, m[:300], i[:300])
    else:
        res.notes.append("driver unavailable: correspondence skipped")
    res.exhaustive_parts.append(f"every catalogued (s,f) ({len(CATALOGUE)}) x W x 4-5 bodies, both handler classes"
                                + ("; every uncatalogued (s,f) with s < 128, f < 256, W set" if a.tier == "thorough" else ""))
    res.dump(a.out)
    sys.stdout.flush()
    os._exit(0)


if __name__ == "__main__":
    main()
