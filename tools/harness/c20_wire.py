"""C20 (part d) — wire-level agreement on the REAL stack, compared with the composed Lean pipeline of Props/C20d.lean.

HSMS: two real `HsmsProtocol` endpoints joined by tools/pairlib.Pipe (random re-segmentation of the byte stream); SECS-I: two real
`SecsIProtocol` endpoints joined by the in-memory line of tools/harness/c17.py.  The sender hands random SECS-II values (variables
API objects) to `send_stream_function`; the receiver's `message_received` event must deliver one message per send, in order, with the
sender's header, and decoding the body into a fresh object of the receiver's structure must give the sender's value (F4 rounded to
binary32).  The same cases go to the driver domain `wire`, which runs `Model.Var.encode` → framing model → `decodeAs`; the frames the
real sender wrote on the wire and the receiver's decoded values are compared with the model's (correspondence), and the decoded value
is compared with the sent one directly (oracle: the statement of `hsms_end_to_end` / `secsi_end_to_end`).

Entry point for tools/harness/c20.py:   import c20_wire;  c20_wire.run(res, rng, drv, a.tier)
"""
from __future__ import annotations

import os
import sys
import threading
import time

sys.path.insert(0, os.path.dirname(os.path.dirname(os.path.abspath(__file__))))
sys.path.insert(0, os.path.dirname(os.path.abspath(__file__)))
import hlib  # noqa: E402
import pairlib  # noqa: E402
import codeclib as K  # noqa: E402

import secsgem.common  # noqa: E402
import secsgem.hsms  # noqa: E402


class Fn:
    """what `send_stream_function` needs of a function object; the body is a variables-API object tree"""

    def __init__(self, stream, function, w, obj):
        self.stream, self.function, self.is_reply_required, self.obj = stream, function, w, obj

    def encode(self):
        return self.obj.encode()

    def __str__(self):
        return f"S{self.stream}F{self.function}"


def gen_msg(rng, big=False):
    """(value, structure) with a buildable structure; now and then a body of several hundred bytes (several SECS-I blocks)"""
    for _ in range(50):
        if big or rng.chance(1, 4):
            n = rng.choice([244, 245, 300, 489, 700])
            t = rng.choice(["B", "A", "U1", "U2", "F4", "I8"])
            w = {"B": 1, "A": 1, "U1": 1, "U2": 2, "F4": 4, "I8": 8}[t]
            leaf = (t, K.gen_elems(rng, t, max(1, n // w)))
            v = leaf if rng.chance(1, 2) else ("L", [leaf, K.gen_leaf(rng, maxlen=5)])
        else:
            v = K.gen_val(rng, maxdepth=4)
        if K.has_nan(v):
            continue
        s = K.struct_for(rng, v)
        if K.buildable(s) and K.conforms(s, v):
            try:
                K.build_var(s, v)
                K.fresh_var(s)
            except Exception:  # noqa: BLE001 - a structure the library cannot build (name collisions) is not a case
                continue
            return v, s
    return ("U1", [1]), ("leaf", "U1", -1)


def decode_into(s, data):
    obj = K.fresh_var(s)
    pos = obj.decode(bytes(data), 0)
    return f"{K.show_obj(obj)} pos={pos}/{len(data)}"


# ------------------------------------------------------------------------------------------------ HSMS
class HsmsRig:
    def __init__(self, a_active, seg, delays):
        mk = secsgem.hsms.HsmsConnectMode

        class SA(secsgem.hsms.HsmsSettings):
            def create_connection(self):
                self.conn = pairlib.Pipe(self, "a")
                return self.conn

        class SB(secsgem.hsms.HsmsSettings):
            def create_connection(self):
                self.conn = pairlib.Pipe(self, "b")
                return self.conn

        self.a = secsgem.hsms.HsmsProtocol(SA(connect_mode=mk.ACTIVE if a_active else mk.PASSIVE, device_id=0x1234,
                                              device_type=secsgem.common.DeviceType.HOST, t3=20, t6=20))
        self.b = secsgem.hsms.HsmsProtocol(SB(connect_mode=mk.PASSIVE if a_active else mk.ACTIVE, device_id=0x1234,
                                              device_type=secsgem.common.DeviceType.EQUIPMENT, t3=20, t6=20))
        self.ca, self.cb = self.a._connection, self.b._connection  # pylint: disable=protected-access
        self.ca.peer, self.cb.peer = self.cb, self.ca
        self.sent = {"a": [], "b": []}
        for c in (self.ca, self.cb):
            c.seg_sizes, c.delays = list(seg), list(delays)
            orig = c.send_data

            def send_data(data, c=c, orig=orig):
                self.sent[c.name].append(bytes(data))
                return orig(data)

            c.send_data = send_data
        for p in (self.a, self.b):
            p._linktest_timeout = 10 ** 6  # pylint: disable=protected-access
        self.got = {"a": [], "b": []}
        self.a.events.message_received += lambda d: self.got["a"].append(d["message"])
        self.b.events.message_received += lambda d: self.got["b"].append(d["message"])

    def up(self):
        self.a.enable()
        self.b.enable()
        sel = secsgem.hsms.connection_state_machine.ConnectionState.CONNECTED_SELECTED
        t_end = time.time() + 40
        while time.time() < t_end:
            if self.a.connection_state.current == sel and self.b.connection_state.current == sel:
                return True
            time.sleep(0.005)
        return False

    def close(self):
        for p in (self.a, self.b):
            t = threading.Thread(target=p.disable, daemon=True)
            t.start()
            t.join(5)


def hsms_section(res, rng, drv, n_rigs, n_msgs):
    lines, impls, cases = [], [], []
    for r in range(n_rigs):
        rr = rng.fork(f"h{r}")
        seg = [rr.choice([1, 2, 3, 5, 9, 14, 15, 64, 1 << 30]) for _ in range(rr.range(1, 5))]
        rig = HsmsRig(rr.chance(1, 2), seg, [0.0])
        try:
            if not rig.up():
                res.violate("c20d-not-selected", "two bare HSMS endpoints over the in-memory link did not reach SELECTED within 40 s", {"seg": seg})
                continue
            for direction in ("a", "b"):
                snd, rcv = (rig.a, rig.b) if direction == "a" else (rig.b, rig.a)
                rkey = "b" if direction == "a" else "a"
                msgs = []
                first = rr.choice([0, 1, 0x7FFFFFFF, 0xFFFFFFFD, rr.range(0, 2 ** 32 - 1)])
                snd._system_counter = (first - 1) % 2 ** 32  # pylint: disable=protected-access
                n0, s0 = len(rig.got[rkey]), len(rig.sent[direction])
                for k in range(n_msgs):
                    v, s = gen_msg(rr)
                    st, fn, w = rr.choice([1, 6, 127, rr.range(1, 127)]), rr.choice([1, 255, 2 * rr.range(0, 127) + 1]), rr.chance(1, 2)
                    msgs.append((v, s, st, fn, w, (first + k) % 2 ** 32))
                oks = []
                for v, s, st, fn, w, _sy in msgs:
                    try:
                        oks.append(snd.send_stream_function(Fn(st, fn, w, K.build_var(s, v))))
                    except Exception as exc:  # noqa: BLE001
                        oks.append(hlib.errkind(exc))
                t_end = time.time() + 30
                while time.time() < t_end and len(rig.got[rkey]) - n0 < len(msgs):
                    time.sleep(0.003)
                time.sleep(0.01)
                got = rig.got[rkey][n0:]
                frames = rig.sent[direction][s0:]
                case = {"transport": "hsms", "seg": seg, "direction": direction,
                        "msgs": [{"value": K.show_val(v), "struct": K.show_struct(s), "S": st, "F": fn, "W": w, "system": sy} for v, s, st, fn, w, sy in msgs]}
                outs = []
                for m, (v, s, st, fn, w, sy) in zip(got, msgs):
                    h = m.header
                    try:
                        dec = decode_into(s, m.data)
                    except Exception as exc:  # noqa: BLE001
                        dec = "err " + hlib.errkind(exc)
                    outs.append(f"{int(h.system)} {int(h.device_id)} {int(h.stream)} {int(h.function)} {int(bool(h.require_response))} "
                                f"{int(h.p_type)} {int(h.s_type.value if hasattr(h.s_type, 'value') else h.s_type)} {dec}")
                # ---------------------------------------------------------------- oracle (the theorem's statement on the real stack)
                bad = None
                if any(o is not True for o in oks):
                    bad = f"send_stream_function returned {oks} on a selected link"
                elif len(got) != len(msgs):
                    bad = f"{len(msgs)} messages sent, {len(got)} delivered to the receiving application"
                else:
                    for i, (o, (v, s, st, fn, w, sy)) in enumerate(zip(outs, msgs)):
                        want = f"{sy} {0x1234} {st} {fn} {int(w)} 0 0 {K.show_in(s, K.norm_val(v))} pos="
                        if not o.startswith(want) or not o.endswith(f"pos={o.rsplit('/', 1)[-1]}/{o.rsplit('/', 1)[-1]}"):
                            bad = f"message {i}: the receiver got `{o[:200]}`, sent was `{want[:200]}<all of the body>`"
                            break
                res.count(("wire-hsms", tuple(seg), direction, tuple(K.show_val(m[0]) for m in msgs)),
                          sample={"transport": "hsms", "seg": seg, "msgs": len(msgs)} if len(res.samples) < 8 else None)
                res.bump("c20d_hsms_body_bytes", min(9, sum(len(f) for f in frames) // 256))
                if bad:
                    res.violate("c20d-wire-disagreement", bad, case)
                lines.append("wire hsms " + ",".join(str(x) for x in seg) + "".join(
                    f" M {sy} {0x1234} {st} {fn} {int(w)} 0 0 {K.show_struct(s)} {K.send_val(v)}" for v, s, st, fn, w, sy in msgs))
                impls.append("ok frames=" + ",".join(f.hex() for f in frames) + f" | rx={len(got)} buf=0 aborts=0 | " + " | ".join(outs))
                cases.append(case)
        except Exception as exc:  # noqa: BLE001 - any library exception is a finding, never a harness crash
            res.violate("c20d-exception", f"HSMS wire section: {hlib.errkind(exc)}: {exc}", {"seg": seg})
        finally:
            rig.close()
    hlib.compare_batch(res, drv, "HSMS wire: real sender frames + receiver decode vs Model.Var.encode → Rx.feed → decodeAs", cases, lines, impls)


# ------------------------------------------------------------------------------------------------ SECS-I
def secsi_section(res, rng, drv, n_pairs, n_msgs):
    import c17  # the in-memory serial line and the protocol pair of the C17 harness

    lines, impls, cases = [], [], []
    for r in range(n_pairs):
        rr = rng.fork(f"s{r}")
        chunks = [rr.choice([1, 2, 3, 7, 13, 64, 300]) for _ in range(rr.range(1, 4))]
        pair = c17.Pair(rr.fork("pair"), chunks, False, 0)
        try:
            for direction in ("H2E", "E2H"):
                snd, rcv, rkey = (pair.host, pair.equip, "E") if direction == "H2E" else (pair.equip, pair.host, "H")
                a_end = pair.ch if direction == "H2E" else pair.ce
                a_end.name, a_end.peer.name = "a", "b"
                dev = int(snd._settings.device_id)  # pylint: disable=protected-access
                first = rr.choice([0, 1, 0xFFFFFFFE, rr.range(0, 2 ** 32 - 1)])
                snd._system_counter = (first - 1) % 2 ** 32  # pylint: disable=protected-access
                msgs = []
                for k in range(n_msgs):
                    v, s = gen_msg(rr, big=rr.chance(1, 3))
                    st, fn, w = rr.choice([1, 6, 127, rr.range(1, 127)]), rr.choice([1, 255, 2 * rr.range(0, 127) + 1]), rr.chance(1, 2)
                    msgs.append((v, s, st, fn, w, (first + k) % 2 ** 32))
                with pair.world.lock:
                    t0 = len(pair.world.transcript)
                n0 = len(pair.got[rkey])
                oks = []
                for v, s, st, fn, w, _sy in msgs:
                    out = {}

                    def go(v=v, s=s, st=st, fn=fn, w=w, out=out):
                        try:
                            out["r"] = snd.send_stream_function(Fn(st, fn, w, K.build_var(s, v)))
                        except Exception as exc:  # noqa: BLE001
                            out["r"] = hlib.errkind(exc)

                    t = threading.Thread(target=go, daemon=True)
                    t.start()
                    t.join(60)
                    oks.append(out.get("r", "blocked"))
                t_end = time.time() + 30
                while time.time() < t_end and len(pair.got[rkey]) - n0 < len(msgs):
                    time.sleep(0.003)
                time.sleep(0.01)
                got = pair.got[rkey][n0:]
                with pair.world.lock:
                    frames = [d for (nm, d) in pair.world.transcript[t0:] if nm == "a" and len(d) > 1]
                from_eq = direction == "E2H"
                case = {"transport": "secsi", "chunks": chunks, "direction": direction,
                        "msgs": [{"value": K.show_val(v), "struct": K.show_struct(s), "S": st, "F": fn, "W": w, "system": sy} for v, s, st, fn, w, sy in msgs]}
                outs = []
                for m, (v, s, st, fn, w, sy) in zip(got, msgs):
                    h = m.header
                    try:
                        dec = decode_into(s, m.data)
                    except Exception as exc:  # noqa: BLE001
                        dec = "err " + hlib.errkind(exc)
                    outs.append(f"{int(h.system)} {int(h.device_id)} {int(h.stream)} {int(h.function)} {int(h.block)} {int(bool(h.from_equipment))} "
                                f"{int(bool(h.require_response))} {int(bool(h.last_block))} n={len(m.blocks)} {dec}")
                bad = None
                if any(o is not True for o in oks):
                    bad = f"send_stream_function returned {oks} on a perfect line"
                elif len(got) != len(msgs):
                    bad = f"{len(msgs)} messages sent, {len(got)} delivered to the receiving application"
                else:
                    for i, (o, (v, s, st, fn, w, sy)) in enumerate(zip(outs, msgs)):
                        body_len = len(K.build_var(s, v).encode())
                        nb = max(1, -(-body_len // 244))
                        want = f"{sy} {dev} {st} {fn} {nb} {int(from_eq)} {int(w)} 1 n={nb} {K.show_in(s, K.norm_val(v))} pos={body_len}/{body_len}"
                        if o != want:
                            bad = f"message {i}: the receiver got `{o[:200]}`, sent was `{want[:200]}`"
                            break
                res.count(("wire-secsi", tuple(chunks), direction, tuple(K.show_val(m[0]) for m in msgs)),
                          sample={"transport": "secsi", "chunks": chunks, "msgs": len(msgs)} if len(res.samples) < 8 else None)
                res.bump("c20d_secsi_blocks", min(9, len(frames)))
                if bad:
                    res.violate("c20d-wire-disagreement", bad, case)
                lines.append("wire secsi 0" + "".join(
                    f" M {sy} {dev} {st} {fn} 0 {int(from_eq)} {int(w)} 0 {K.show_struct(s)} {K.send_val(v)}" for v, s, st, fn, w, sy in msgs))
                impls.append("ok frames=" + ",".join(f.hex() for f in frames) + f" | done={len(got)} pending=0 | " + " | ".join(outs))
                cases.append(case)
        except Exception as exc:  # noqa: BLE001
            res.violate("c20d-exception", f"SECS-I wire section: {hlib.errkind(exc)}: {exc}", {"chunks": chunks})
        finally:
            pair.close()
    hlib.compare_batch(res, drv, "SECS-I wire: real sender block frames + receiver decode vs Model.Var.encode → split → Block codec → reassemble → decodeAs",
                       cases, lines, impls)


def run(res, rng, drv, tier):
    big = tier == "thorough"
    rng = rng.fork("c20d")
    hsms_section(res, rng, drv, 24 if big else 8, 10 if big else 6)
    secsi_section(res, rng, drv, 16 if big else 6, 6 if big else 4)
    res.notes.append("c20_wire: random SECS-II values through two real HsmsProtocol endpoints (in-memory pipe, random segmentation) and two real "
                     "SecsIProtocol endpoints (in-memory line); frames on the wire and decoded values compared with the composed Lean pipeline "
                     "(driver domain `wire`) and with the sent values (statement of Props.C20d.hsms_end_to_end / secsi_end_to_end)")


if __name__ == "__main__":
    a = hlib.std_args()
    r = hlib.Result("C20", a.tier, a.seed)
    run(r, hlib.Rng(a.seed ^ 0xC20D), hlib.Driver(), a.tier)
    r.dump(a.out)
    print(len(r.violations), "violations", len(r.disagreements), "disagreements", r.evaluations, "evaluations")
    for v in r.violations[:3]:
        print(v)
    for d in r.disagreements[:3]:
        print(d)
    sys.stdout.flush()
    os._exit(0)
