"""C20 — a REAL GemHostHandler and a REAL GemEquipmentHandler wired back to back through tools/pairlib.Pipe.

Scenarios: both HSMS role assignments x both enable orders x segmentation/delay schedules; host service calls vs the
equipment's own tables; triggered events reach the host exactly once; disable/enable cycles of either side.
The per-scenario observation (session/communication states of both ends over time) is projected on the abstract
pair model and checked by the Lean driver (`pair trace …`) when the domain exists.
"""
from __future__ import annotations

import logging
import os
import sys
import threading
import time

sys.path.insert(0, os.path.dirname(os.path.dirname(os.path.abspath(__file__))))
import hlib  # noqa: E402
import pairlib  # noqa: E402

import secsgem.common  # noqa: E402
import secsgem.gem  # noqa: E402
import secsgem.hsms  # noqa: E402
import secsgem.secs  # noqa: E402
from secsgem.gem.communication_state_machine import CommunicationState  # noqa: E402
from secsgem.hsms.connection_state_machine import ConnectionState  # noqa: E402
from secsgem.secs import variables as V  # noqa: E402

logging.disable(logging.CRITICAL)

BOUND = 40.0  # seconds allowed to reach COMMUNICATING (timers: T3 = T6 = 5 s so that machine load cannot trip them, establish-communication delay = 1 s)
CALL_BOUND = 20.0
STOP_AFTER = 6  # violations after which no further scenario is started (each failing call may cost a full time-out)


class Equip(secsgem.gem.GemEquipmentHandler):
    def __init__(self, settings):
        super().__init__(settings, initial_control_state="HOST_OFFLINE")
        self.sv = {10: 123, "SV2": "sample sv", 11: 7}
        self.ecv = {20: 321, "EC2": "sample ec"}
        self.status_variables.update({
            10: secsgem.gem.StatusVariable(10, "sv10", "m", V.U4),
            "SV2": secsgem.gem.StatusVariable("SV2", "sv2", "c", V.String),
            11: secsgem.gem.StatusVariable(11, "sv11", "m", V.I2),
        })
        self.data_values.update({30: secsgem.gem.DataValue(30, "dv30", V.U4, False)})
        self.data_values[30].value = 99
        self.equipment_constants.update({
            20: secsgem.gem.EquipmentConstant(20, "ec20", 0, 500, 50, "deg", V.U4),
            "EC2": secsgem.gem.EquipmentConstant("EC2", "ec2", 0, 0, 0, "c", V.String),
        })
        self.collection_events.update({
            100: secsgem.gem.CollectionEvent(100, "ce100", [30]),
            101: secsgem.gem.CollectionEvent(101, "ce101", []),
            102: secsgem.gem.CollectionEvent(102, "ce102", []),
            5001: secsgem.gem.CollectionEvent(5001, "rcmd done", []),
            5002: secsgem.gem.CollectionEvent(5002, "alarm on", []),
            5003: secsgem.gem.CollectionEvent(5003, "alarm off", []),
        })
        self.alarms.update({
            40: secsgem.gem.Alarm(40, "al40", "alarm forty", 1, 5002, 5003),
            41: secsgem.gem.Alarm(41, "al41", "alarm forty-one", 2, 5002, 5003),
        })
        self.remote_commands.update({"GO": secsgem.gem.RemoteCommand("GO", "go", ["P1"], 5001)})
        self.rcmd_calls = []
        self.callbacks.rcmd_GO = self._rcmd_go

    def _rcmd_go(self, **kw):
        self.rcmd_calls.append(kw)

    def _on_s02f37(self, handler, message):
        """as the library's handler; on request of the harness the event just enabled is triggered BEFORE the S2F38 leaves
        (an equipment whose process reaches the event right after it was enabled)"""
        reply = super()._on_s02f37(handler, message)
        ceid = getattr(self, "_v_trigger_in_s2f37", None)
        if ceid is not None:
            self._v_trigger_in_s2f37 = None
            self.trigger_collection_events([ceid])
            time.sleep(0.2)
        return reply

    def on_sv_value_request(self, svid, sv):
        return sv.value_type(self.sv[sv.svid])

    def on_ec_value_request(self, ecid, ec):
        return ec.value_type(self.ecv[ec.ecid])

    def on_ec_value_update(self, ecid, ec, value):
        self.ecv[ec.ecid] = value


def make_pair(host_active: bool, seg, delays, device_id=0, t3=5):
    mk = secsgem.hsms.HsmsConnectMode

    class HS(secsgem.hsms.HsmsSettings):
        def create_connection(self):
            self.conn = pairlib.Pipe(self, "host")
            return self.conn

    class ES(secsgem.hsms.HsmsSettings):
        def create_connection(self):
            self.conn = pairlib.Pipe(self, "equip")
            return self.conn

    hs = HS(connect_mode=mk.ACTIVE if host_active else mk.PASSIVE, device_type=secsgem.common.DeviceType.HOST,
            t3=t3, t6=5, establish_communication_timeout=1, device_id=device_id)
    es = ES(connect_mode=mk.PASSIVE if host_active else mk.ACTIVE, device_type=secsgem.common.DeviceType.EQUIPMENT,
            t3=t3, t6=5, establish_communication_timeout=1, device_id=device_id)
    host = secsgem.gem.GemHostHandler(hs)
    eq = Equip(es)
    hc, ec = host.protocol._connection, eq.protocol._connection
    hc.peer, ec.peer = ec, hc
    for c in (hc, ec):
        c.seg_sizes, c.delays = list(seg), list(delays)
    for p in (host.protocol, eq.protocol):
        p._linktest_timeout = 10 ** 6
    host.protocol._thread._dispatcher_thread_trigger = ClearHook()
    return host, eq, hc, ec


class Trace:
    """every transition of the four real state machines (two sessions, two communication machines), in order"""

    CONN = ("not_connected", "connected_not_selected", "connected_selected")
    COMM = ("disabled", "not_communicating", "wait_cra", "wait_delay", "communicating")

    def __init__(self, host, eq):
        self.events = []
        self.lock = threading.Lock()
        for tag, h in (("H", host), ("E", eq)):
            for attr in self.CONN:
                self._hook(f"{tag}.conn", getattr(h.protocol.connection_state, attr))
            for attr in self.COMM:
                self._hook(f"{tag}.comm", getattr(h.communication_state, attr))

    def _hook(self, tag, state):
        def on_enter(_data, tag=tag, name=state.name):
            with self.lock:
                self.events.append(f"{tag}:{name}")
        # first in the list: the library's own enter handlers may request nested transitions
        state.events.enter._callbacks.insert(0, on_enter)


class SlowList(list):
    """`_wait_event_list` whose append lets the handler reach COMMUNICATING first (the adverse interleaving of
    `waitfor_communicating` with the state change): a correct implementation registers, then looks at the state."""

    def __init__(self, handler, bound):
        super().__init__()
        self.h, self.bound, self.used = handler, bound, False

    def append(self, ev):
        if not self.used:
            self.used = True
            t_end = time.time() + self.bound
            while time.time() < t_end and self.h.communication_state.current != CommunicationState.COMMUNICATING:
                time.sleep(0.002)
            time.sleep(0.01)
        super().append(ev)


def wait_both(host, eq, bound):
    """both ends report communication — and are in the COMMUNICATING state when they say so (what `waitfor_communicating` tells the application
    must be this handler's own state, not that of another handler in the same process)"""
    t0 = time.time()
    ok_h = host.waitfor_communicating(bound)
    st_h = host.communication_state.current
    ok_e = eq.waitfor_communicating(max(0.01, bound - (time.time() - t0)))
    st_e = eq.communication_state.current
    if (ok_h and st_h != CommunicationState.COMMUNICATING) or (ok_e and st_e != CommunicationState.COMMUNICATING):
        WAIT_LIES.append((ok_h, st_h.name, ok_e, st_e.name))
    return ok_h and ok_e and not WAIT_LIES, time.time() - t0


WAIT_LIES: list = []


def bounded(fn, bound=CALL_BOUND):
    out = {}

    def run():
        try:
            out["v"] = fn()
        except BaseException as exc:  # noqa: BLE001
            out["e"] = exc
    t = threading.Thread(target=run, daemon=True)
    t.start()
    t.join(bound)
    if t.is_alive():
        return "timeout", None
    if "e" in out:
        return "raised", out["e"]
    return "ok", out["v"]


def plain(v):
    """library value -> plain python"""
    if not isinstance(v, (dict, list, tuple)) and hasattr(v, "get"):
        v = v.get()
    if isinstance(v, (list, tuple)):
        return [plain(x) for x in v]
    if isinstance(v, dict):
        return {k: plain(x) for k, x in v.items()}
    if isinstance(v, bytes):
        return v
    return v


def service_calls(res, rng, host, eq, scen, n_calls):
    """random host API calls; each result compared with what the equipment holds"""
    got_events = []
    lock = threading.Lock()

    def on_ce(d):
        with lock:
            got_events.append((plain(d["ceid"]), plain(d["rptid"]), [plain(x["value"]) for x in d["values"]]))
    host.events.collection_event_received += on_ce
    got_alarms = []

    def on_alarm(d):
        with lock:
            got_alarms.append((plain(d["alid"]), plain(d["code"])))
    host.events.alarm_received += on_alarm

    expected_events = 0
    expected_alarm_msgs = 0
    subscribed = eq.__dict__.setdefault("_v_subscribed", {})  # subscriptions survive reconnects (the equipment keeps its links)
    ops = ["sv", "svs", "ec", "set_ec", "set_ec_bad", "online", "offline", "alarm_en", "alarm_dis", "alarms", "enabled_alarms",
           "subscribe", "trigger", "trigger", "rcmd", "set_alarm", "clear_alarm", "ayt", "list_svs", "list_ecs", "subscribe_race", "trigger_burst"]
    # every first use of a pair names a predefined event by its enum member once (deterministic prelude), the rest is random
    forced = [("subscribe", 21), ("trigger", 21), ("trigger", 21), ("sys0", None)] if 21 not in subscribed else [("sys0", None)]
    for i in range(n_calls + len(forced)):
        if len(res.violations) >= STOP_AFTER:
            return  # enough failing inputs recorded: a code change that makes every call run into its time-out must not use up the budget
        force_ceid = None
        if forced:
            op, force_ceid = forced.pop(0)
        else:
            op = rng.choice(ops)
        res.bump("c20_ops", op)
        case = {"scenario": scen, "op": op, "i": i}

        def fail(what, expected=None, actual=None, klass="c20-service"):
            res.violate(klass, what, case, expected, actual)

        if op == "sys0":
            # the request that is sent with system bytes 0x00000000 (the counter wraps there) is an ordinary request
            with host.protocol._system_counter_lock:
                host.protocol._system_counter = 2 ** 32 - 1
            st, v = bounded(lambda: host.request_sv(10))
            if st != "ok" or plain(v) != eq.sv[10]:
                fail("request_sv(10) sent with system bytes 0 (counter wrap) does not return the equipment's value", eq.sv[10],
                     (st, plain(v) if st == "ok" else repr(v)))
        elif op == "sv":
            svid = rng.choice([10, "SV2", 11, 1002])
            st, v = bounded(lambda: host.request_sv(svid))
            want = eq.sv[svid] if svid in eq.sv else eq._get_control_state_id()
            if st != "ok" or plain(v) != want:
                fail(f"request_sv({svid!r}) does not return the equipment's value", want, (st, plain(v) if st == "ok" else repr(v)))
        elif op == "svs":
            ids = [rng.choice([10, "SV2", 11]) for _ in range(rng.range(1, 3))]
            st, v = bounded(lambda: host.request_svs(ids))
            want = [eq.sv[s] for s in ids]
            if st != "ok" or plain(v) != want:
                fail(f"request_svs({ids!r}) differs", want, (st, plain(v) if st == "ok" else repr(v)))
        elif op == "list_svs":
            st, v = bounded(lambda: host.list_svs())
            want = sorted(str(k) for k in eq.status_variables)
            gotl = sorted(str(x["SVID"]) for x in plain(v)) if st == "ok" and v is not None else None
            if gotl != want:
                fail("list_svs() does not list exactly the equipment's status variables", want, gotl)
        elif op == "ec":
            ecid = rng.choice([20, "EC2"])
            st, v = bounded(lambda: host.request_ec(ecid))
            want = [eq.ecv[ecid]]
            if st != "ok" or plain(v) != want:
                fail(f"request_ec({ecid!r}) differs", want, (st, plain(v) if st == "ok" else repr(v)))
        elif op == "list_ecs":
            st, v = bounded(lambda: host.list_ecs())
            want = sorted(str(k) for k in eq.equipment_constants)
            gotl = sorted(str(x["ECID"]) for x in plain(v)) if st == "ok" and v is not None else None
            if gotl != want:
                fail("list_ecs() does not list exactly the equipment's constants", want, gotl)
        elif op == "set_ec":
            val = rng.choice([0, 1, 250, 499, 500])
            st, v = bounded(lambda: host.set_ec(20, val))
            if st != "ok" or plain(v) != 0 or eq.ecv[20] != val:
                fail(f"set_ec(20, {val}) not applied / not acknowledged", (0, val), (st, plain(v) if st == "ok" else repr(v), eq.ecv[20]))
        elif op == "set_ec_bad":
            before = eq.ecv[20]
            val = rng.choice([501, 100000])
            st, v = bounded(lambda: host.set_ec(20, val))
            if st != "ok" or plain(v) == 0 or eq.ecv[20] != before:
                fail(f"set_ec(20, {val}) (out of range) acknowledged or applied", ("!=0", before), (st, plain(v) if st == "ok" else repr(v), eq.ecv[20]))
        elif op == "online":
            before = eq.control_state.current.name
            st, v = bounded(lambda: host.go_online())
            want = 0 if before == "HOST_OFFLINE" else (2 if before.startswith("ONLINE") else 1)
            if st != "ok" or plain(v) != want:
                fail(f"go_online() in {before} returns the wrong ONLACK", want, (st, plain(v) if st == "ok" else repr(v)))
            elif want == 0 and not eq.control_state.current.name.startswith("ONLINE"):
                fail("go_online() acknowledged but the equipment is not on-line", "ONLINE_*", eq.control_state.current.name)
        elif op == "offline":
            before = eq.control_state.current.name
            st, v = bounded(lambda: host.go_offline())
            if st != "ok" or plain(v) != 0:
                fail("go_offline() not acknowledged with OFLACK 0", 0, (st, plain(v) if st == "ok" else repr(v)))
            elif before.startswith("ONLINE") and eq.control_state.current.name != "HOST_OFFLINE":
                fail("go_offline() acknowledged but the equipment is not HOST_OFFLINE", "HOST_OFFLINE", eq.control_state.current.name)
        elif op in ("alarm_en", "alarm_dis"):
            alid = rng.choice([40, 41])
            st, v = bounded(lambda: (host.enable_alarm if op == "alarm_en" else host.disable_alarm)(alid))
            if st != "ok" or plain(v) != 0 or eq.alarms[alid].enabled != (op == "alarm_en"):
                fail(f"{op}({alid}) not applied", (0, op == "alarm_en"), (st, plain(v) if st == "ok" else repr(v), eq.alarms[alid].enabled))
        elif op == "alarms":
            st, v = bounded(lambda: host.list_alarms([40, 41]))
            want = [(40, bool(eq.alarms[40].set)), (41, bool(eq.alarms[41].set))]
            gotl = [(x["ALID"], bool(x["ALCD"] & 0x80)) for x in plain(v)] if st == "ok" and v is not None else None
            if gotl != want:
                fail("list_alarms([40, 41]) does not report the equipment's alarm states", want, gotl)
        elif op == "enabled_alarms":
            st, v = bounded(lambda: host.list_enabled_alarms())
            want = sorted(a for a in eq.alarms if eq.alarms[a].enabled)
            gotl = sorted(x["ALID"] for x in plain(v)) if st == "ok" and v is not None else None
            if gotl != want:
                fail("list_enabled_alarms() differs from the equipment's enabled alarms", want, gotl)
        elif op == "subscribe":
            ceid = force_ceid or rng.choice([100, 101, 21])  # 21 = CollectionEventId.CMD_STOP_DONE, predefined by the library
            if ceid in subscribed:
                continue
            dvs = [30] if ceid == 100 else [10]
            st, v = bounded(lambda: host.subscribe_collection_event(ceid, dvs))
            link = eq.registered_collection_events.get(ceid)
            if st != "ok" or link is None or not link.enabled or len(link.reports) != 1:
                fail(f"subscribe_collection_event({ceid}) did not create an enabled link", "enabled link with one report", (st, None if link is None else (link.enabled, list(link.reports))))
            else:
                subscribed[ceid] = dvs
        elif op == "subscribe_race":
            # the event fires on the equipment between its S2F37 handling and the host's return from subscribe_collection_event
            if 102 in subscribed:
                continue
            with lock:
                n0 = len([e for e in got_events if e[0] == 102])
            eq._v_trigger_in_s2f37 = 102
            st, v = bounded(lambda: host.subscribe_collection_event(102, [11]))
            subscribed[102] = [11]
            deadline = time.time() + CALL_BOUND
            while time.time() < deadline:
                with lock:
                    if len([e for e in got_events if e[0] == 102]) > n0:
                        break
                time.sleep(0.005)
            time.sleep(0.05)
            with lock:
                mine = [e for e in got_events if e[0] == 102][n0:]
            if st != "ok" or len(mine) != 1 or mine[0][2] != [eq.sv[11]]:
                fail("event triggered while enabled, right after the subscription was accepted by the equipment: host received "
                     f"{len(mine)} reports instead of exactly one", 1, (st, mine), klass="c20-event-once")
        elif op == "trigger_burst":
            # a second event arrives exactly while the host's dispatcher is between draining its queue and clearing its trigger
            if not subscribed:
                continue
            ceid = rng.choice(sorted(subscribed))
            disp = host.protocol._thread
            if not isinstance(disp._dispatcher_thread_trigger, ClearHook):
                continue
            with lock:
                n0 = len([e for e in got_events if e[0] == ceid])

            def second():
                eq.trigger_collection_events([ceid])
                t_end = time.time() + 0.5
                while time.time() < t_end and disp._dispatch_queue.qsize() == 0:
                    time.sleep(0.002)
                time.sleep(0.02)
            disp._dispatcher_thread_trigger.armed = second
            eq.trigger_collection_events([ceid])
            deadline = time.time() + CALL_BOUND
            while time.time() < deadline:
                with lock:
                    if len([e for e in got_events if e[0] == ceid]) >= n0 + 2:
                        break
                time.sleep(0.005)
            time.sleep(0.05)
            with lock:
                mine = [e for e in got_events if e[0] == ceid][n0:]
            if len(mine) != 2:
                fail(f"two triggers of enabled linked event {ceid} in quick succession: the host received {len(mine)} reports instead of exactly two "
                     "(the second arrived while the dispatcher was finishing its drain)", 2, mine, klass="c20-event-once")
        elif op == "trigger":
            if not subscribed:
                continue
            ceid = force_ceid if force_ceid in subscribed else rng.choice(sorted(subscribed))
            with lock:
                n0 = len([e for e in got_events if e[0] == ceid])
            want_vals = [eq.data_values[30].value] if ceid == 100 else ([eq.sv[10]] if ceid in (101, 21) else [eq.sv[11]])
            # the application may name a predefined event by its enum member (`CollectionEventId.X`) or by its number
            as_enum = ceid in [m.value for m in secsgem.gem.CollectionEventId] and (rng.chance(2, 3) or (force_ceid is not None and len(forced) == 1))
            case["ceid_form"] = "enum member" if as_enum else "plain id"
            eq.trigger_collection_events([secsgem.gem.CollectionEventId(ceid) if as_enum else ceid])
            expected_events += 1
            deadline = time.time() + CALL_BOUND
            while time.time() < deadline:
                with lock:
                    n1 = len([e for e in got_events if e[0] == ceid])
                if n1 > n0:
                    break
                time.sleep(0.005)
            time.sleep(0.05)  # a duplicate would arrive right behind
            with lock:
                mine = [e for e in got_events if e[0] == ceid][n0:]
            if len(mine) != 1:
                fail(f"trigger of enabled linked event {ceid}: the host received {len(mine)} reports instead of exactly one", 1, mine, klass="c20-event-once")
            elif mine[0][2] != want_vals:
                fail(f"event {ceid} report carries other values than the equipment holds", want_vals, mine[0][2], klass="c20-event-values")
        elif op == "rcmd":
            n0 = len(eq.rcmd_calls)
            st, v = bounded(lambda: host.send_remote_command("GO", [["P1", "x"]]))
            hcack = plain(v).get("HCACK") if st == "ok" and v is not None else None
            time.sleep(0.05)
            if st != "ok" or hcack != 4 or len(eq.rcmd_calls) != n0 + 1:
                fail("send_remote_command('GO') not acknowledged (HCACK 4) or not executed exactly once", (4, n0 + 1), (st, hcack, len(eq.rcmd_calls)))
        elif op in ("set_alarm", "clear_alarm"):
            alid = rng.choice([40, 41])
            with lock:
                n0 = len(got_alarms)
            changes = (op == "set_alarm") != bool(eq.alarms[alid].set)
            will_report = changes and eq.alarms[alid].enabled
            st, v = bounded(lambda: (eq.set_alarm if op == "set_alarm" else eq.clear_alarm)(alid))
            time.sleep(0.08)
            with lock:
                new = got_alarms[n0:]
            if st != "ok" or len(new) != (1 if will_report else 0):
                fail(f"{op}({alid}) (enabled={eq.alarms[alid].enabled}, state change={changes}): host received {len(new)} alarm reports", 1 if will_report else 0, (st, new), klass="c20-alarm-report")
            elif will_report and new[0] != (alid, (eq.alarms[alid].code | 0x80) if op == "set_alarm" else eq.alarms[alid].code):
                fail(f"{op}({alid}) alarm report has the wrong id/code", None, new)
        elif op == "ayt":
            st, v = bounded(lambda: host.are_you_there())
            if st != "ok" or v is None or (v.header.stream, v.header.function) != (1, 2):
                fail("are_you_there() not answered with S1F2", "S1F2", (st, repr(v)))
        res.count((scen, op, i, rng.s), sample=case if len(res.samples) < 6 else None)
    host.events.collection_event_received -= on_ce
    host.events.alarm_received -= on_alarm


class ClearHook(threading.Event):
    """dispatcher trigger whose `clear()` (when armed) first lets one more message arrive and be queued: the adverse
    interleaving of the dispatcher's wait/clear/drain loop with the receive path (a correct loop clears BEFORE it drains)"""

    def __init__(self):
        super().__init__()
        self.armed = None

    def clear(self):
        fn, self.armed = self.armed, None
        if fn is not None:
            fn()
        super().clear()


def scenario(res, rng, drv_lines, host_active, eq_first, seg, delays, n_calls, cycles, scen, slow_enable=False):
    device_id = rng.choice([0, 1, 300, 32767])
    host, eq, hc, ec = make_pair(host_active, seg, delays, device_id)
    tr = Trace(host, eq)
    stop = threading.Event()
    threading.Thread(target=pairlib.retry_loop, args=(hc, ec, stop), daemon=True).start()
    case = {"scenario": scen, "host_active": host_active, "equipment_first": eq_first, "seg": seg[:6], "delays": delays[:6], "device_id": device_id}
    try:
        first, second = (eq, host) if eq_first else (host, eq)
        if slow_enable:
            sc = second.protocol._connection
            sc.enable_blocks_until = lambda: second.protocol.connection_state.current == ConnectionState.CONNECTED_SELECTED
            case["slow_enable"] = "second"
        # waiter that starts waiting before communication is established and whose registration is overtaken by the state change
        racer = host if rng.chance(1, 2) else eq
        racer._wait_event_list = SlowList(racer, BOUND)
        race_out = {}
        rt = threading.Thread(target=lambda: race_out.setdefault("v", racer.waitfor_communicating(BOUND)), daemon=True)
        first.enable()
        time.sleep(rng.choice([0.0, 0.01, 0.2]))
        second.enable()
        rt.start()
        ok, dt = wait_both(host, eq, BOUND)
        rt.join(BOUND)
        if ok and race_out.get("v") is not True:
            res.violate("c20-waitfor-lost-wakeup", "waitfor_communicating(bound) returned False / did not return although the handler reached COMMUNICATING while it was registering",
                        case, True, race_out.get("v"))
        # the 32-bit system-bytes counters wrap during the service calls in some scenarios (system bytes 0xFFFFFFFF, 0, 1 are ordinary values)
        for h, tag in ((host, "host"), (eq, "equipment")):
            if rng.chance(1, 2):
                with h.protocol._system_counter_lock if hasattr(h.protocol, "_system_counter_lock") else threading.Lock():
                    h.protocol._system_counter = 2 ** 32 - 1 - rng.range(0, 3)
                case[f"{tag}_system_counter"] = "wraps"
        res.count(("start", scen), sample={"scenario": scen, "communicating": ok, "seconds": round(dt, 3)})
        res.bump("c20_convergence_s", int(dt))
        if not ok:
            res.violate("c20-no-convergence", f"host and equipment did not both reach COMMUNICATING within {BOUND} s", case, "COMMUNICATING x2",
                        (host.communication_state.current.name, eq.communication_state.current.name, host.protocol.connection_state.current.name, eq.protocol.connection_state.current.name))
            return
        service_calls(res, rng, host, eq, scen, n_calls)
        for c in range(cycles):
            if len(res.violations) >= STOP_AFTER:
                break
            who = rng.choice(["host", "equipment"])
            h = host if who == "host" else eq
            st, _ = bounded(h.disable, 30)
            if st != "ok":
                res.violate("c20-disable-hang", f"{who}.disable() did not return within 30 s ({st})", dict(case, cycle=c))
                return
            time.sleep(rng.choice([0.0, 0.05, 0.3]))
            other = eq if who == "host" else host
            # the side that stayed enabled must have left COMMUNICATING
            t_end = time.time() + 20
            while time.time() < t_end and other.communication_state.current == CommunicationState.COMMUNICATING:
                time.sleep(0.01)
            if other.communication_state.current == CommunicationState.COMMUNICATING:
                res.violate("c20-stale-communicating", f"after {who} was disabled the other side still reports COMMUNICATING", dict(case, cycle=c))
            st, _ = bounded(h.enable, 30)
            ok, dt = wait_both(host, eq, BOUND)
            res.count(("cycle", scen, c, who), sample={"scenario": scen, "cycle": c, "who": who, "communicating": ok, "seconds": round(dt, 3)})
            res.bump("c20_reconvergence_s", int(dt))
            if st != "ok" or not ok:
                res.violate("c20-no-reconvergence", f"after {who} disable/enable the pair did not reach COMMUNICATING again within {BOUND} s", dict(case, cycle=c),
                            "COMMUNICATING x2", (host.communication_state.current.name, eq.communication_state.current.name,
                                                 host.protocol.connection_state.current.name, eq.protocol.connection_state.current.name))
                return
            service_calls(res, rng, host, eq, f"{scen}/cycle{c}", max(3, n_calls // 3))
    finally:
        stop.set()
        res.bump("c20_segments", "delivered", hc.segments_in + ec.segments_in)
        with tr.lock:
            evs = list(tr.events)
        res.bump("c20_trace_events", "recorded", len(evs))
        drv_lines.append((case, "pair trace " + " ".join(evs)))
        for h in (host, eq):
            try:
                bounded(h.disable, 5)
            except Exception:  # noqa: BLE001
                pass


def scenario_disable_mid_establish(res, rng, host_active, who_gem, state_wanted, scen):
    """One side's GEM layer is not up yet (only its HSMS protocol is enabled: the link gets selected, an S1F13 is never answered).  The other
    side is then somewhere in WAIT_CRA / WAIT_DELAY; disabling it there must work (no exception, DISABLED), and after both sides are enabled
    properly the pair must reach communication."""
    host, eq, hc, ec = make_pair(host_active, [1 << 30], [0.0], t3=1)
    stop = threading.Event()
    threading.Thread(target=pairlib.retry_loop, args=(hc, ec, stop), daemon=True).start()
    gem, bare = (host, eq) if who_gem == "host" else (eq, host)
    case = {"scenario": scen, "host_active": host_active, "gem_side": who_gem, "disable_in": state_wanted}
    want = CommunicationState.WAIT_DELAY if state_wanted == "WAIT_DELAY" else CommunicationState.WAIT_CRA
    try:
        bare.protocol.enable()
        gem.enable()
        t_end = time.time() + 20
        while time.time() < t_end and gem.communication_state.current != want:
            time.sleep(0.005)
        reached = gem.communication_state.current == want
        res.count(("mid-establish", scen), nontrivial=reached, sample={"scenario": scen, "reached": gem.communication_state.current.name})
        res.bump("c20_disable_in", gem.communication_state.current.name)
        st, err = bounded(gem.disable, 30)
        cur = gem.communication_state.current
        if st != "ok" or cur != CommunicationState.DISABLED:
            res.violate("c20-disable-mid-establish", f"disable() while the handler was in {want.name} (peer never answered the S1F13): {st}"
                        f"{'' if err is None else ' ' + hlib.errkind(err)}, state afterwards {cur.name}", case, "returns, DISABLED", (st, cur.name))
        bounded(bare.protocol.disable, 30)
        time.sleep(0.05)
        st1, _ = bounded(gem.enable, 30)
        st2, _ = bounded(bare.enable, 30)
        ok, dt = wait_both(host, eq, BOUND)
        if st1 != "ok" or st2 != "ok" or not ok:
            res.violate("c20-no-reconvergence", f"after a disable in {want.name} and a proper enable of both sides the pair did not reach COMMUNICATING within {BOUND} s",
                        case, "COMMUNICATING x2", (st1, st2, host.communication_state.current.name, eq.communication_state.current.name))
    except Exception as exc:  # noqa: BLE001
        res.violate("c20-exception", f"disable-mid-establish scenario: {hlib.errkind(exc)}: {exc}", case)
    finally:
        stop.set()
        for h in (host, eq):
            try:
                bounded(h.disable, 5)
            except Exception:  # noqa: BLE001
                pass


def main():
    a = hlib.std_args()
    res = hlib.Result("C20", a.tier, a.seed)
    rng = hlib.Rng(a.seed ^ 0xC20)
    big = a.tier == "thorough" or a.search
    res.rule = ("scenarios = {host active, host passive} x {equipment enabled first, host first} x segmentation schedule (whole frames / 1-byte / 3-byte / random sizes) "
                "x delay schedule; per scenario a random sequence of host service calls and equipment-side triggers, then disable/enable cycles of a random side. "
                "distinct = distinct (scenario, operation index, PRNG state); non-trivial = the call/trigger was actually executed against the live pair")
    segs = [[1 << 30], [1], [3], [7, 1, 64, 2]]
    dels = [[0.0], [0.0, 0.001], [0.003]]
    drv_lines = []
    combos = [(ha, ef) for ha in (True, False) for ef in (True, False)]
    n = 0
    for rep in range(3 if big else 1):
        for ha, ef in combos:
            if len(res.violations) >= STOP_AFTER:
                break
            seg = segs[(n + a.seed) % len(segs)] if n < 4 else [rng.range(1, 40) for _ in range(8)]
            dl = dels[(n + a.seed) % len(dels)]
            scenario(res, rng.fork(f"s{n}"), drv_lines, ha, ef, seg, dl, 40 if big else 14, 3 if big else 1, f"s{n}")
            n += 1
    # a transport whose enable() returns only once the link is selected (second-enabled side): the handler must have enabled its
    # communication state machine before it enables the protocol
    for ha, ef in (combos if big else [combos[a.seed % 4], combos[(a.seed + 3) % 4]]):
        if len(res.violations) >= STOP_AFTER:
            break
        scenario(res, rng.fork(f"slow{n}"), drv_lines, ha, ef, [1 << 30], [0.0], 4, 0, f"slow{n}", slow_enable=True)
        n += 1
    # disable() in the middle of an establish attempt (peer's GEM layer not up: S1F13 never answered), then a proper start
    mids = [(ha, who, stt) for ha in (True, False) for who in ("host", "equip") for stt in ("WAIT_DELAY", "WAIT_CRA")]
    for k, (ha, who, stt) in enumerate(mids if big else [mids[(a.seed + j * 3) % 8] for j in range(3)]):
        if len(res.violations) >= STOP_AFTER:
            break
        scenario_disable_mid_establish(res, rng.fork(f"mid{k}"), ha, who, stt, f"mid{k}")
    if WAIT_LIES:
        res.violate("c20-waitfor-wrong", "waitfor_communicating() returned True while that handler's own communication state was not COMMUNICATING "
                    "(host result/state, equipment result/state)", {"observations": WAIT_LIES[:5]})
    # abstraction check: every observed step of the joint (session, communication) state is a path of the abstract pair model
    drv = hlib.Driver()
    import c20_gem
    if len(res.violations) < STOP_AFTER:
        c20_gem.run(res, rng, drv, a.tier)
    import c20_wire
    if len(res.violations) < STOP_AFTER:
        c20_wire.run(res, rng, drv, a.tier)
    if drv.available and drv_lines:
        try:
            outs = drv.run([l for _, l in drv_lines])
            if all(o != "bad-op" for o in outs):
                res.driver_used = True
                for (case, line), o in zip(drv_lines, outs):
                    res.traces_validated += 1
                    if not o.startswith("ok"):
                        res.disagree("observed joint-state trace is not a path of Model.Pair", case, o, line[:600])
            else:
                res.notes.append("driver has no `pair` domain yet: trace projection skipped")
        except RuntimeError as exc:
            res.notes.append(f"driver error: {exc}")
    else:
        res.notes.append("driver unavailable: trace projection skipped")
    res.dump(a.out)
    os._exit(0)


if __name__ == "__main__":
    main()
