"""C12 — event-report configuration: histories of S2F33 / S2F35 / S2F37 / S6F15 / triggers / value updates on a REAL
GemEquipmentHandler (in-memory connection; part of the histories through the whole message path, part by calling the
registered callbacks with real messages).  After every operation: acknowledge / report body and the WHOLE
registered_reports / registered_collection_events are compared with the Lean model (`gemev run`) = correspondence (C), and the
property's own statement is evaluated on the implementation = direct oracle (O)."""
from __future__ import annotations

import json
import os
import sys

sys.path.insert(0, os.path.dirname(os.path.dirname(os.path.abspath(__file__))))
sys.path.insert(0, os.path.dirname(os.path.abspath(__file__)))
import hlib  # noqa: E402
import gemlib  # noqa: E402
from gemlib import V, cid, cid_item, cval_item, parse_id, show_id, mk_id_item  # noqa: E402

import secsgem.gem  # noqa: E402
import secsgem.gem.collection_event_capability as cec  # noqa: E402

THREADS = gemlib.RecordingThreads()
cec.threading = THREADS  # the sender thread of trigger_collection_events is recorded, not replaced

CLOCK = "2026010203040506"
# ids of the small domains (driver grammar)
CEIDS = ["n1", "n50", "t" + gemlib.hexs("ce-t"), "n99", "n1.2", "n"]          # 1 built-in, 50 / "ce-t" added, 99 unknown
CEID_W = [5, 6, 5, 2, 1, 1]
RPTIDS = ["n1", "n2", "t" + gemlib.hexs("r-t"), "n1.2", "n"]
RPTID_W = [6, 5, 5, 1, 1]
# ids that exist on the equipment in ANOTHER id space but are neither a status variable nor a data value: equipment constants
# (1, 2 predefined, 60, "ec-t"), alarm 70, collection events 50 / "ce-t", report ids ("r-t"; 1 and 2 are also RPTIDs/CEIDs), a remote command
FOREIGN = ["n1", "n2", "n60", "t" + gemlib.hexs("ec-t"), "n70", "n50", "t" + gemlib.hexs("ce-t"), "t" + gemlib.hexs("r-t"), "t" + gemlib.hexs("START")]
VIDS = ["n30", "n31", "t" + gemlib.hexs("sv-t"), "n1003", "n99", "n30.30", "n"] + FOREIGN  # SV 30, DV 31, SV "sv-t", EventsEnabled, unknown, …
VIDS.append("n32")
VID_W = [6, 5, 4, 3, 2, 1, 1] + [2, 2, 1, 1, 1, 1, 1, 1, 1] + [5]
VID_TAME = [12, 10, 8, 6, 0, 0, 0] + [2, 2, 1, 1, 1, 0, 0, 0, 0] + [10]
SV_CELLS = {"n30": "n0", "t" + gemlib.hexs("sv-t"): "n0", "n1001": "t" + gemlib.hexs(CLOCK), "n1002": "n3", "n1004": "l", "n1005": "l"}
DV_CELLS = {"n31": "t", "n32": "n1.2"}        # DV 32 holds a LIST (U4 array), updated in place as well as re-assigned
CFG = ("C" + ",".join(["n1", "n2", "n3", "n20", "n21", "n50", "t" + gemlib.hexs("ce-t")])
       + ";S" + ",".join(f"{k}:c" for k in ["n1001", "n1002", "n1004", "n1005", "n30", "t" + gemlib.hexs("sv-t")]) + ",n1003:e"
       + ";Dn31,n32")


def weighted(rng, xs, ws):
    k = rng.below(sum(ws))
    for x, w in zip(xs, ws):
        if k < w:
            return x
        k -= w
    return xs[-1]


# ---------------------------------------------------------------------------------------------- history generation
def gen_op(rng, state):
    """state-aware: `state` = (reports, links) as the implementation holds them now; most requests are built to be
    accepted (define an undefined report, link a defined one, enable/query a linked event), the rest is arbitrary"""
    reps, links = state
    defined = [k for k, _ in reps]
    linked = [k for k, _, _ in links]
    wild = rng.chance(1, 4)

    def rptid(for_ceid=None):
        if not wild and defined and rng.chance(4, 5):
            cur = next((rs for k, rs, _ in links if k == for_ceid), [])
            ok = [r for r in defined if gemlib_scalar(r)]
            fresh = [r for r in ok if r not in cur]
            if fresh and rng.chance(5, 6):
                return rng.choice(fresh)
            if ok:
                return rng.choice(ok)
        return weighted(rng, RPTIDS, RPTID_W)

    def ceid(prefer_linked=False):
        if prefer_linked and linked and rng.chance(3, 4):
            return rng.choice(linked)
        return weighted(rng, CEIDS, CEID_W if wild else [6, 6, 6, 1, 0, 0])

    def vid():
        return weighted(rng, VIDS, VID_W if wild else VID_TAME)

    enabled = [k for k, _, en in links if en]
    w = [28 * (3 if not defined else 1), 28 if defined else 5, 14 if links else 3, 12 if enabled else 4, 16 if enabled else 2, 6, 4]
    if defined and not links:
        w[1] *= 3
    if links and not enabled:
        w[2] *= 3
    k = weighted(rng, [0, 28, 56, 70, 82, 90, 96], w)
    if k < 28:
        if rng.chance(1, 25):
            return "R"
        ents = []
        for _ in range(1 if rng.chance(2, 3) else rng.range(2, 3)):
            undefined = [r for r in RPTIDS[:3] if r not in defined]
            j = rng.below(10)
            if j < 6 and undefined and not wild:
                ents.append(rng.choice(undefined) + "=" + ",".join(vid() for _ in range(rng.range(1, 3))))
            elif j < 8 and defined and (wild or len(defined) > 1 or rng.chance(1, 3)):
                ents.append(rng.choice(defined) + "=")
            else:
                r = weighted(rng, RPTIDS, RPTID_W if wild else [6, 5, 5, 1, 0])
                ents.append(r + "=" + ("" if rng.chance(1, 3) else ",".join(vid() for _ in range(rng.range(1, 3)))))
        return "R" + ";".join(ents)
    if k < 56:
        if rng.chance(1, 20):
            return "L"
        ents = []
        for _ in range(1 if rng.chance(2, 3) else rng.range(2, 3)):
            c = ceid(prefer_linked=rng.chance(1, 3))
            if rng.chance(1, 5):
                ents.append(c + "=")
            else:
                ents.append(c + "=" + ",".join(rptid(c) for _ in range(rng.range(1, 3))))
        return "L" + ";".join(ents)
    if k < 70:
        ceed = "1" if rng.chance(3, 4) else "0"
        if rng.chance(1, 3):
            return f"E{ceed}:"
        return f"E{ceed}:" + ",".join(ceid(True) for _ in range(rng.range(1, 3)))
    if k < 82:
        return "Q" + ceid(True)
    if k < 90:
        # 1-4 CEIDs in one call: enabled, linked-but-disabled, unlinked and unknown ones in every position, repeats
        disabled = [k for k, _, en in links if not en]
        pool = enabled * 3 + disabled * 2 + ["n1", "n50", "t" + gemlib.hexs("ce-t"), "n99", "n2"]
        return "T" + ",".join(rng.choice(pool) for _ in range(rng.choice([1, 2, 2, 3, 3, 4])))
    if k < 96:
        return ("Vn30=n" + str(rng.range(0, 9))) if rng.chance(1, 2) else ("Vt" + gemlib.hexs("sv-t") + "=n" + str(rng.range(0, 9)))
    if rng.chance(1, 2):
        return "Wn32=n" + ".".join(str(rng.range(0, 9)) for _ in range(rng.range(1, 3)))
    return "Wn31=t" + gemlib.hexs(rng.choice(["", "a", "xyz"]))


def gemlib_scalar(i: str) -> bool:
    return i[0] == "t" or (len(i) > 1 and "." not in i)


def parse_entries(s):
    out = []
    if s:
        for e in s.split(";"):
            k, v = e.split("=")
            out.append((parse_id(k), [parse_id(x) for x in v.split(",")] if v else []))
    return out


# ---------------------------------------------------------------------------------------------- implementation runner
class Run:
    """One history on one fresh handler.  `salt` decides the integer widths / plain forms the ids are sent in."""

    def __init__(self, salt: int, direct: bool):
        self.eq = gemlib.Equipment()
        self.shadow = gemlib.shadow()      # isolation: a second handler with other tables under the same ids, same process
        h = self.eq.h
        self.direct = direct
        self.salt = salt
        self.nform = 0
        h._get_clock = lambda: CLOCK  # wall clock stubbed
        h.status_variables[30] = secsgem.gem.StatusVariable(30, "sv30", "u", V.U4)
        h.status_variables["sv-t"] = secsgem.gem.StatusVariable("sv-t", "svt", "u", V.U4, use_callback=False)
        h.data_values[31] = secsgem.gem.DataValue(31, "dv31", V.String)
        h.data_values[31].value = ""
        h.data_values[32] = secsgem.gem.DataValue(32, "dv32", V.U4, use_callback=False)
        h.data_values[32].value = [1, 2]
        h.collection_events[50] = secsgem.gem.CollectionEvent(50, "ce50", [])
        h.collection_events["ce-t"] = secsgem.gem.CollectionEvent("ce-t", "cet", [])
        # ids of the other id spaces (never variables): equipment constants, an alarm
        h.equipment_constants[60] = secsgem.gem.EquipmentConstant(60, "ec60", 0, 100, 5, "u", V.U4)
        h.equipment_constants["ec-t"] = secsgem.gem.EquipmentConstant("ec-t", "ect", 0, 100, 5, "u", V.U4)
        h.alarms[70] = secsgem.gem.Alarm(70, "al70", "alarm", 1, 50, 50)
        self.values = {k: v for k, v in list(SV_CELLS.items()) + list(DV_CELLS.items())}  # the harness's own record

    def item(self, i):
        self.nform += 1
        return mk_id_item(i, self.salt + 7 * self.nform)

    def raw_id(self, i) -> bytes:
        self.nform += 1
        return gemlib.enc_id(i, self.salt + 5 * self.nform)

    def form(self) -> int:
        self.nform += 1
        return self.salt + 3 * self.nform

    def dump(self):
        h = self.eq.h
        reps = ";".join(cid(k.get()) + "=" + ",".join(cid(v.get()) for v in rep.vars) for k, rep in h.registered_reports.items())
        links = ";".join(cid(k) + "=" + ",".join(cid(r) for r in ln.reports) + ":" + ("1" if ln.enabled else "0")
                         for k, ln in h.registered_collection_events.items())
        return reps + "@" + links

    @staticmethod
    def show_report(body):
        """decoded S6F16/S6F11 body -> r<ceid>[<rptid>(<val>,…);…]"""
        _tag, (dataid, ceid, rpts) = body
        if cid_item(dataid) != "n1":
            return "bad-dataid"
        return "r" + cid_item(ceid) + "[" + ";".join(cid_item(r[1][0]) + "(" + ",".join(cval_item(v) for v in r[1][1][1]) + ")" for r in rpts[1]) + "]"

    def ack(self, ans, fn):
        s, f, body = ans
        if f == 0:
            return "x"
        if f != fn or body[0] != "B" or len(body[1]) != 1:
            return f"bad-reply-S{s}F{f}"
        return "a" + str(body[1][0])

    def op(self, op: str) -> str:
        eq, h = self.eq, self.eq.h
        kind, rest = op[0], op[1:]
        E = gemlib.enc_item
        self.nops = getattr(self, "nops", 0) + 1
        raw = (self.salt + self.nops) % 3 != 0      # two thirds of the requests are encoded by the harness's own E5 encoder
        if kind == "R":
            if raw:
                body = E("L", [E("U4", [1], self.form()), E("L", [E("L", [self.raw_id(r), E("L", [self.raw_id(v) for v in vids], self.form())], self.form())
                                                              for r, vids in parse_entries(rest)], self.form())], self.form())
                return self.ack(eq.request(2, 33, body, self.direct), 34)
            data = [{"RPTID": self.item(r), "VID": [self.item(v) for v in vids]} for r, vids in parse_entries(rest)]
            return self.ack(eq.request(2, 33, {"DATAID": 1, "DATA": data}, self.direct), 34)
        if kind == "L":
            if raw:
                body = E("L", [E("U1", [1], self.form()), E("L", [E("L", [self.raw_id(c), E("L", [self.raw_id(r) for r in rs], self.form())], self.form())
                                                              for c, rs in parse_entries(rest)], self.form())], self.form())
                return self.ack(eq.request(2, 35, body, self.direct), 36)
            data = [{"CEID": self.item(c), "RPTID": [self.item(r) for r in rs]} for c, rs in parse_entries(rest)]
            return self.ack(eq.request(2, 35, {"DATAID": 1, "DATA": data}, self.direct), 36)
        if kind == "E":
            if raw:
                # E5: BOOLEAN is TRUE for ANY non-zero byte (0xFF and 0x80 are what many hosts send)
                true_byte = [0x01, 0xFF, 0x80, 0x02, 0x7F][self.form() % 5]
                ids = [self.raw_id(parse_id(x)) for x in rest[2:].split(",")] if rest[2:] else []
                body = E("L", [E("BOOL", [true_byte if rest[0] == "1" else 0], self.form()), E("L", ids, self.form())], self.form())
                return self.ack(eq.request(2, 37, body, self.direct), 38)
            ceids = [self.item(parse_id(x)) for x in rest[2:].split(",")] if rest[2:] else []
            return self.ack(eq.request(2, 37, {"CEED": rest[0] == "1", "CEID": ceids}, self.direct), 38)
        if kind == "Q":
            s, f, body = eq.request(6, 15, self.raw_id(parse_id(rest)) if raw else self.item(parse_id(rest)), self.direct)
            if f == 0:
                return "x"
            return self.show_report(body) if f == 16 else f"bad-reply-S{s}F{f}"
        if kind == "T":
            ids = [parse_id(x) for x in rest.split(",")]
            eq.c.primaries.clear()
            h.trigger_collection_events([i[1][0] if i[0] == "n" else i[1] for i in ids])
            errs = THREADS.join_all()          # the sender is a thread: bounded join
            sent = [p for p in eq.c.primaries if p[:2] == (6, 11)]
            out = "|".join(self.show_report(gemlib.decode_body(p[2])) for p in sent)
            if not sent and not errs:
                return "-"
            return out + ("!" if errs else "")
        if kind in "VW":
            k, v = rest.split("=")
            self.values[k] = v
            i = parse_id(k)
            key = i[1][0] if i[0] == "n" else i[1]
            if kind == "W" and key == 32:
                new = [int(x) for x in v[1:].split(".")]
                self.nform += 1
                cur = h.data_values[32].value
                if self.nform % 3 == 0:
                    h.data_values[32].value = new           # a new list object
                elif self.nform % 3 == 1:
                    cur[:] = new                            # the SAME list object, changed in place
                else:
                    while len(cur) > len(new):              # ... element by element: pop / item assignment / append
                        cur.pop()
                    for j_, x_ in enumerate(new):
                        if j_ < len(cur):
                            cur[j_] = x_
                        else:
                            cur.append(x_)
            elif kind == "W":
                h.data_values[key].value = bytes.fromhex(v[1:]).decode("latin-1")
            elif key not in (1001, 1002, 1004, 1005):
                h.status_variables[key].value = int(v[1:])
            return "-"
        raise ValueError(op)

    def close(self):
        THREADS.join_all()
        self.eq.close()


# ---------------------------------------------------------------------------------------------- the property, on the implementation
def parse_dump(d):
    reps, links = d.split("@")
    rl = [(e.split("=")[0], e.split("=")[1].split(",") if e.split("=")[1] else []) for e in reps.split(";")] if reps else []
    ll = []
    if links:
        for e in links.split(";"):
            k, rest = e.split("=")
            rs, en = rest.rsplit(":", 1)
            ll.append((k, rs.split(",") if rs else [], en == "1"))
    return rl, ll


def scalar(i: str) -> bool:
    return i[0] == "t" or (len(i) > 1 and "." not in i)


def e5_effect(before, op):
    """the declarative effect of an ACCEPTED S2F33 / S2F35 on (reports, links) — independent of the Lean text"""
    reps, links = [(k, list(v)) for k, v in before[0]], [(k, list(rs), en) for k, rs, en in before[1]]
    kind, rest = op[0], op[1:]
    ents = [(show_id(k), [show_id(x) for x in vs]) for k, vs in parse_entries(rest)]
    if kind == "R":
        if not ents:
            return [], []
        for r, vids in ents:
            if vids:
                if any(k == r for k, _ in reps):
                    reps = [(k, vids if k == r else v) for k, v in reps]
                else:
                    reps.append((r, vids))
            else:
                reps = [(k, v) for k, v in reps if k != r]
                links = [(k, [x for x in rs if x != r], en) for k, rs, en in links if any(x != r for x in rs) or r not in rs]
    else:
        for c, rs in ents:
            if not rs:
                links = [e for e in links if e[0] != c]
            elif any(k == c for k, _, _ in links):
                links = [(k, old + rs if k == c else old, en) for k, old, en in links]
            else:
                links.append((c, rs, False))
    return reps, links


def expected_report(run, state, ceid, force=False):
    """what the property demands of S6F16/S6F11 for `ceid` in `state`, from the harness's own record of current values
    (`force`: as if the event were enabled)"""
    reps, links = state
    for k, rs, en in links:
        if k == ceid and (en or force):
            out = []
            for r in rs:
                vids = dict(reps).get(r)
                if vids is None:
                    return None  # dangling link: no well-formed report exists
                vals = []
                for v in vids:
                    if v == "n1003":
                        vals.append("l" + "+".join(c for c, _, e in links if e))
                    else:
                        vals.append(run.values.get(v, "?"))   # "?": not a variable the harness knows a value of - one value all the same
                out.append(r + "(" + ",".join(vals) + ")")
            return "r" + ceid + "[" + ";".join(out) + "]"
    return "r" + ceid + "[]"


def matches(out, want) -> bool:
    """equality, where "?" in `want` stands for exactly one value"""
    import re
    if want is None:
        return False
    return re.fullmatch("[^,()|;]*".join(re.escape(w) for w in want.split("?")), out) is not None


def oracle(run, op, out, before, after):
    """-> (class, what) of the first property violation of this step, or None"""
    b, a = parse_dump(before), parse_dump(after)
    keys = {k for k, _ in a[0]}
    for c, rs, _en in a[1]:
        for r in rs:
            if r not in keys:
                return ("dangling-link", f"after {op}: CEID {c} is linked to report {r} which is not defined")
    if op[0] in "RL" and out[0] == "a" and not any(
            x == "n" for e in op[1:].split(";") if e for part in e.split("=") for x in part.split(",")):
        # accepted iff E5 gives no reason to deny (conditions on the configuration before the request; requests with an empty id
        # item are not judged)
        ents = [(show_id(k), [show_id(x) for x in vs]) for k, vs in parse_entries(op[1:])]
        defined = {k for k, _ in b[0]}
        if op[0] == "R":
            variables = set(SV_CELLS) | set(DV_CELLS) | {"n1003"}
            reasons = [f"report {r} is already defined" for r, vids in ents if vids and r in defined] + \
                      [f"VID {v} is no variable" for r, vids in ents if not (vids and r in defined) for v in vids if v not in variables]
        else:
            known_ce = set(CFG.split(";")[0][1:].split(","))
            linked = {k: rs for k, rs, _ in b[1]}
            reasons = [f"CEID {c} does not exist" for c, _ in ents if c not in known_ce] + \
                      [f"report {r} is not defined" for _, rs in ents for r in rs if r not in defined] + \
                      [f"report {r} is already linked to {c}" for c, rs in ents for r in rs if r in linked.get(c, [])]
        if out != "a0" and not reasons:
            return ("unjustified-refusal", f"{op} is refused ({out}) although E5 gives no reason: every id exists, nothing is re-defined or linked twice")
        if out == "a0" and reasons:
            return ("unjustified-accept", f"{op} is accepted although {reasons[0]}")
    if op[0] in "RL":
        if out != "a0" and before != after:
            return ("refused-but-changed", f"{op} answered {out} but the configuration changed")
        if out == "a0":
            want = e5_effect(b, op)
            was = {k for k, _, _ in b[1]}
            # the enable state of a link that did not exist before the request is not pinned by the property text
            strip = lambda st: (st[0], [(k, rs, en if k in was else None) for k, rs, en in st[1]])  # noqa: E731
            if strip(want) != strip(a):
                return ("accepted-effect", f"{op} accepted but the configuration is not the E5 effect")
    if op[0] == "E" and out == "a0":
        # an accepted enable/disable request switches exactly the addressed (or, for an empty list, all) linked events
        want_en = op[1] == "1"
        ids = op[3:].split(",") if op[3:] else None
        for (k, _, en_b), (k2, _, en_a) in zip(b[1], a[1]):
            addressed = ids is None or k in ids
            if k != k2 or en_a != (want_en if addressed else en_b):
                return ("enable-effect", f"{op} answered ERACK 0 but event {k} is {'enabled' if en_a else 'disabled'} afterwards (CEED is TRUE for any non-zero byte)")
    if op[0] == "Q" and scalar(op[1:]):
        c = op[1:]
        entry = next(((rs, en) for k, rs, en in a[1] if k == c), None)
        full = expected_report(run, a, c, force=True)   # the linked reports with current values
        if entry is not None and full is None:
            return ("event-report", f"{op}: CEID is linked to an undefined report, no well-formed report exists (got {out})")
        # linked and enabled: exactly the linked reports; not linked: an empty report; linked but disabled: the text does
        # not pin whether the host still gets the linked reports, both are accepted
        ok = [full] if entry is not None and entry[1] else ["r" + c + "[]"] if entry is None else ["r" + c + "[]", full]
        if not any(matches(out, w) for w in ok):
            return ("event-report", f"{op}: got {out}, the linked reports with one current value per variable are {full}")
    if op[0] == "T":
        # one S6F11 per linked and enabled CEID of the call, in list order, each with its linked reports and current values
        want = []
        for c in op[1:].split(","):
            entry = next(((rs, en) for k, rs, en in a[1] if k == c), None)
            if entry is not None and entry[1]:
                full = expected_report(run, a, c, force=True)
                if full is None:
                    return ("event-report", f"{op}: CEID {c} is linked to an undefined report, no well-formed report exists (got {out})")
                want.append(full)
        want = "|".join(want) if want else "-"
        if not matches(out, want):
            return ("trigger-reports", f"{op}: sent {out}, the enabled linked events of the call (one current value per variable) are {want}")
    return None


def run_history(ops, salt, direct, gen=None):
    """-> (per-op answers 'out@reports@links', first oracle violation or None).  With `gen = (rng, n)` the operations are
    generated on the fly from the implementation's current configuration and appended to `ops`."""
    run = Run(salt, direct)
    try:
        answers, bad = [], None
        before = run.dump()
        i = 0
        while True:
            if gen is not None and i >= len(ops):
                if i >= gen[1]:
                    break
                ops.append(gen_op(gen[0], parse_dump(before)))
            if i >= len(ops):
                break
            op = ops[i]
            if i % 4 == 0:
                run.shadow.step()      # the other handler moves on between the steps of the one under test
            out = run.op(op)
            after = run.dump()
            answers.append(out + "@" + after)
            if bad is None:
                v = oracle(run, op, out, before, after)
                if v is not None:
                    bad = (i, v[0], v[1])
            before = after
            i += 1
        return answers, bad
    finally:
        run.close()


# ---------------------------------------------------------------------------------------------- re-entrancy (direct oracle only)
class ReentrantEq(secsgem.gem.GemEquipmentHandler):
    """the library's handler; its value callback for SVID 30, when armed, handles an S2F33 delete of ANOTHER report of the same
    event while the data of an earlier report is being collected (a host request arriving in the middle of a report build)"""

    armed = None      # (Equipment, RPTID to delete)

    def on_sv_value_request(self, svid, sv):
        if self.armed is not None and sv.svid == 30:
            (eq, rpt), self.armed = self.armed, None
            self._on_s02f33(self, eq.message(2, 33, {"DATAID": 1, "DATA": [{"RPTID": rpt, "VID": []}]}))
        return super().on_sv_value_request(svid, sv)


def reentrancy_section(res):
    """Not in the Lean model (the model's operations are atomic).  Property: whatever happens to the configuration while an event
    report is being built, the report that goes out is well formed and holds the reports that remain linked, in link order."""
    variants = [   # (reports to define, link list of CEID 50, report deleted during the build of report 1, reports expected)
        ([1, 2], [1, 2], 2, [1]),
        ([1, 2, 3], [1, 2, 3], 3, [1, 2]),
        ([1, 2, 3], [1, 2, 3], 2, [1, 3]),
        ([1, 2], [1, 2, 2], 2, [1]),
    ]
    for how in ("trigger", "s6f15-full", "s6f15-direct"):
        for defined, linked, victim, expect in variants:
            eq = gemlib.Equipment(ReentrantEq)
            h = eq.h
            try:
                h.status_variables[30] = secsgem.gem.StatusVariable(30, "sv30", "u", V.U4)
                h.status_variables[30].value = 7
                h.data_values[31] = secsgem.gem.DataValue(31, "dv31", V.String)
                h.data_values[31].value = "x"
                h.collection_events[50] = secsgem.gem.CollectionEvent(50, "ce50", [])
                vids = {1: [30], 2: [31], 3: [31, 31]}
                for s_, f_, val in ((2, 33, {"DATAID": 1, "DATA": [{"RPTID": r, "VID": vids[r]} for r in defined]}),
                                    (2, 35, {"DATAID": 1, "DATA": [{"CEID": 50, "RPTID": linked}]}), (2, 37, {"CEED": True, "CEID": [50]})):
                    ans = eq.request(s_, f_, val, True)
                    if ans[2] != ("B", [0]):
                        raise RuntimeError(f"re-entrancy setup S{s_}F{f_} refused: {ans}")
                h.armed = (eq, victim)
                case = {"how": how, "defined": defined, "linked": linked, "deleted_during_build": victim}
                want = "rn50[" + ";".join(f"n{r}(" + ",".join("n7" if v == 30 else "t78" for v in vids[r]) + ")" for r in expect) + "]"
                if how == "trigger":
                    eq.c.primaries.clear()
                    h.trigger_collection_events([50])
                    errs = THREADS.join_all()
                    sent = [p for p in eq.c.primaries if p[:2] == (6, 11)]
                    got = "|".join(Run.show_report(gemlib.decode_body(p[2])) for p in sent) + ("!" if errs else "") or "-"
                else:
                    s_, f_, body = eq.request(6, 15, 50, how.endswith("direct"))
                    got = "x" if f_ == 0 else Run.show_report(body)
                res.count(("reentrant", how, tuple(linked), victim), sample=dict(case, got=got) if len(res.samples) < 6 else None)
                res.bump("reentrant", how + ":" + ("ok" if got == want else got[:12]))
                if h.armed is not None:
                    raise RuntimeError("re-entrancy scenario: the value callback was not reached")
                if got != want:
                    res.violate("reentrant-delete", f"report {victim} deleted while the event report of CEID 50 was being built: got {got}, "
                                f"the reports that remain linked, with current values, are {want}", case, want, got)
                rest_ok = [cid(k.get()) for k in h.registered_reports] == [f"n{r}" for r in defined if r != victim] and \
                    [cid(r) for r in h.registered_collection_events[50].reports] == [f"n{r}" for r in linked if r != victim]
                if not rest_ok:
                    res.violate("reentrant-delete", "configuration after the re-entrant delete is not: report gone from the table and from the link", case)
            finally:
                eq.close()


def open_transaction_section(res):
    """Not in the Lean model (its operations are atomic).  One trigger call over several enabled events; while the S6F11 transaction of
    the FIRST event is still open (the host has not answered yet) the host unlinks / disables a LATER event of the same call.  Whatever
    the call decided when it started: the sender must survive, the events of the call that are still linked and enabled when their turn
    comes are all sent, in order, well formed; an event that is no longer linked is never reported with reports it does not hold."""
    for how in ("unlink-middle", "disable-middle", "unlink-last"):
        eq = gemlib.Equipment()
        h, c = eq.h, eq.c
        try:
            h.status_variables[30] = secsgem.gem.StatusVariable(30, "sv30", "u", V.U4)
            h.status_variables[30].value = 7
            for ce in (50, 51, 52):
                h.collection_events[ce] = secsgem.gem.CollectionEvent(ce, f"ce{ce}", [])
            for s_, f_, val in ((2, 33, {"DATAID": 1, "DATA": [{"RPTID": 1, "VID": [30]}]}),
                                (2, 35, {"DATAID": 1, "DATA": [{"CEID": ce, "RPTID": [1]} for ce in (50, 51, 52)]}),
                                (2, 37, {"CEED": True, "CEID": [50, 51, 52]})):
                ans = eq.request(s_, f_, val, True)
                if ans[2] != ("B", [0]):
                    raise RuntimeError(f"open-transaction setup S{s_}F{f_} refused: {ans}")
            victim = 52 if how == "unlink-last" else 51
            case = {"how": how, "trigger": [50, 51, 52], "changed_while_S6F11_of_50_is_open": victim}
            c.primaries.clear()
            del c.primary_systems[:]
            c.mute.add((6, 11))
            h.trigger_collection_events([50, 51, 52])
            if not c.wait_for(lambda: any(p[:2] == (6, 11) for p in c.primaries)):
                raise RuntimeError("open-transaction scenario: no S6F11 after the trigger")
            first_system = c.primary_systems[[p[:2] for p in c.primaries].index((6, 11))]
            if how.startswith("unlink"):
                ans = eq.request(2, 37, {"CEED": False, "CEID": [victim]}, True)
                ans = eq.request(2, 35, {"DATAID": 1, "DATA": [{"CEID": victim, "RPTID": []}]}, True)
            else:
                ans = eq.request(2, 37, {"CEED": False, "CEID": [victim]}, True)
            accepted = ans[2] == ("B", [0])
            c.mute.discard((6, 11))
            c.feed_raw(6, 12, False, first_system, b"\x21\x01\x00")
            errs = THREADS.join_all()
            sent = [Run.show_report(gemlib.decode_body(p[2])) for p in c.primaries if p[:2] == (6, 11)]
            ok_forms = {ce: f"rn{ce}[n1(n7)]" for ce in (50, 51, 52)}
            others = [ce for ce in (50, 51, 52) if ce != victim]
            must = [ok_forms[ce] for ce in others]
            got_others = [x for x in sent if x != ok_forms[victim]]
            res.count(("open-txn", how), sample=dict(case, sent=sent, accepted=accepted) if how == "unlink-middle" else None)
            res.bump("open_transaction", how + ":" + ("ok" if (not errs and got_others == must) else "differs"))
            if errs or got_others != must or (accepted and ok_forms[victim] in sent and how.startswith("unlink")):
                res.violate("trigger-open-transaction", f"trigger of CEIDs 50,51,52; CEID {victim} "
                            f"{'disabled and unlinked' if how.startswith('unlink') else 'disabled'} by the host while the S6F11 of CEID 50 was unanswered: "
                            f"sent {sent}{' and the sender thread died: ' + repr(errs[0])[:120] if errs else ''}; the other events of the call must all be "
                            f"reported ({must}) and an unlinked event never with the reports it no longer holds", case, must, sent)
        finally:
            eq.close()


PREFIX = [f"V{k}={v}" for k, v in SV_CELLS.items()] + [f"W{k}={v}" for k, v in DV_CELLS.items()]


def model_line(ops):
    return "gemev run " + CFG + " " + " ".join(PREFIX + ops)


def model_answers(drv, ops):
    out = drv.run([model_line(ops)])[0]
    if not out.startswith("ok "):
        return None
    return out[3:].split(" ")[len(PREFIX):] if len(out) > 3 else []


def main():
    a = hlib.std_args()
    res = hlib.Result("C12", a.tier, a.seed)
    rng = hlib.Rng(a.seed ^ 0xC12)
    drv = gemlib.private_driver()
    big = a.tier == "thorough" or a.search
    res.rule = ("histories of S2F33/S2F35/S2F37/S6F15/trigger/value updates over CEIDs {1, 50, 'ce-t', 99 unknown, (1,2), ()}, RPTIDs {1, 2, 'r-t', (1,2), ()}, "
                "VIDs {30 SV, 31 DV, 'sv-t' SV, 1003 EventsEnabled, 99 unknown, (30,30), ()}; ids sent in all admissible integer widths / as plain values / as text; "
                "duplicates inside one request, empty lists, delete-all; length <= 12 (quick) / 40 (thorough); a third of the histories through the whole "
                "HSMS receive/dispatch/send path, the rest by calling the registered callbacks with real messages. distinct = distinct history; "
                "non-trivial = at least one accepted define and one accepted link")

    cases = []  # (ops, salt, direct)
    if a.replay:
        body = json.load(open(a.replay))
        for v in body.get("violations", []):
            c = v.get("case") or {}
            if "ops" in c:
                cases.append((c["ops"], c.get("salt", 0), c.get("direct", False), None))
        for b in body.get("breaks", []):
            pass
    else:
        corpus = [
            ["Rn1=n30", "Ln1=n1,n1", "E1:n1", "Rn1=", "Qn1"],                       # F-16 (fixed): delete of a twice-linked report
            ["Rn1=n30,n1003;n2=n31", "Ln50=n2,n1,n2", "E1:", "Vn30=n7", "Qn50", "Tn50", "Rn2=", "Qn50", "R", "Qn50"],
            ["Rn1=n30", "Rn1=n31", "Rn1=n99", "Ln99=n1", "Ln1=n2", "Ln1=n1", "Ln1=n1", "E1:n1,n99", "E0:n1.2,n1"],
            ["Rn1=n30;n1=n31", "Ln1=n1;n1=n1", "Ln1=", "Ln1=n1;n50=n1", "Rn1=;n2=n30", "E1:", "Qn1", "Qn50"],
            # VIDs that are ids of other id spaces (equipment constants 1, 2, 60; alarm; CEID; RPTID; remote command): DRACK 4, nothing defined
            ["Rn1=n30,n2", "Ln50=n1", "E1:n50", "Qn50", "Tn50", "Rn2=n60", "Rn2=n70;t" + gemlib.hexs("r-t") + "=n50", "Rn2=t" + gemlib.hexs("START") + ",n31",
             "Rn2=n30,n31", "Ln50=n2", "E1:", "Qn50", "Tn50,n50"],
            # one S2F35 with several events: an already linked CEID first, then an unlinked CEID naming a report the first one holds
            ["Rn1=n30;n2=n31", "Ln1=n1", "Ln1=n2;n50=n1", "Ln50=n2;n1=n1", "Lt" + gemlib.hexs("ce-t") + "=n1,n2;n50=n2", "E1:", "Qn50", "Tn1,n50"],
            # a list-valued data value changed in place between event reports
            ["Rn1=n32,n30", "Ln50=n1", "E1:", "Qn50", "Wn32=n7.8.9", "Qn50", "Tn50", "Wn32=n4", "Tn50", "Wn32=n4.5", "Qn50", "Wn32=n6.5", "Tn50,n50"],
            # one trigger call over enabled / disabled / unlinked / unknown CEIDs in every position, with repeats
            ["Rn1=n30;n2=n31", "Ln1=n1;n50=n2,n1;t" + gemlib.hexs("ce-t") + "=n2", "E1:n1,n50", "Tn1,t" + gemlib.hexs("ce-t") + ",n50",
             "Tt" + gemlib.hexs("ce-t") + ",n1", "Tn99,n50,n2,n1", "Tn50,n50", "E0:n1", "Tn1,n50,n1", "Tn1", "Tn2,n99"],
        ]
        for ops in corpus:
            cases.append((ops, 0, False, None))
            cases.append((ops, 3, True, None))
        n_hist = 2000 if a.tier == "thorough" else 600 if a.search else 400
        max_len = 40 if a.tier == "thorough" else 30 if a.search else 12
        for i in range(n_hist):
            n = rng.range(1, max_len) if rng.chance(1, 3) else max_len
            cases.append(([], rng.below(1000), not rng.chance(1, 3), (rng.fork(f"h{i}"), n)))

    if not a.replay:
        reentrancy_section(res)
        open_transaction_section(res)

    lines, impls, metas = [], [], []
    for ops, salt, direct, gen in cases:
        ans, bad = run_history(ops, salt, direct, gen)
        nontrivial = any(o.startswith("R") and x.startswith("a0") and len(o) > 1 for o, x in zip(ops, ans)) and \
            any(o.startswith("L") and x.startswith("a0") and len(o) > 1 for o, x in zip(ops, ans))
        res.count(("hist", tuple(ops)), nontrivial=nontrivial,
                  sample={"ops": ops[:8], "path": "callbacks" if direct else "full message path"} if len(res.samples) < 4 else None)
        res.bump("path", "callbacks" if direct else "full")
        for o, x in zip(ops, ans):
            out = x.split("@")[0]
            res.bump("op", o[0])
            res.bump("outcome", o[0] + ":" + (out if out[0] in "ax-!" else ("r[]" if out.endswith("[]") else "r[..]")))
        res.evaluations += max(0, len(ops) - 1)
        if bad is not None:
            i, klass, what = bad

            def still(sub, klass=klass, salt=salt, direct=direct):
                _, b = run_history(sub, salt, direct)
                return b is not None and b[1] == klass
            small = ops[: i + 1]
            if len(res.violations) < 4:
                small = hlib.ddmin(small, gemlib.bounded(still, 120))
            _, b2 = run_history(small, salt, direct)
            res.violate(klass, (b2 or bad)[2], {"ops": small, "salt": salt, "direct": direct})
        lines.append(model_line(ops))
        impls.append(ans)
        metas.append((ops, salt, direct))

    # ---- correspondence: the whole trace of every history against the model
    if drv.available and lines:
        res.driver_used = True
        outs = drv.run(lines)
        for (ops, salt, direct), impl, m in zip(metas, impls, outs):
            res.traces_validated += 1
            got = (m[3:].split(" ") if len(m) > 3 else [])[len(PREFIX):] if m.startswith("ok") else [m]
            if got != impl:
                def differs(sub, salt=salt, direct=direct):
                    ia, _ = run_history(sub, salt, direct)
                    return model_answers(drv, sub) != ia
                small = ops
                if len(res.disagreements) < 3:
                    small = hlib.ddmin(ops, gemlib.bounded(differs, 120))
                elif len(res.disagreements) >= 12:
                    continue
                ia, _ = run_history(small, salt, direct)
                ma = model_answers(drv, small)
                k = next((j for j in range(len(small)) if ma is None or j >= len(ma) or ma[j] != ia[j]), 0)
                res.disagree("gemev history: model vs GemEquipmentHandler", {"ops": small, "salt": salt, "direct": direct, "first_diff_at": k},
                             None if ma is None else ma[k] if k < len(ma) else None, ia[k] if k < len(ia) else None)
    elif not drv.available:
        res.notes.append("driver unavailable: correspondence skipped")

    res.notes.append("S6F15 / trigger of a linked but DISABLED event answers an empty report list / sends nothing (the code's `.enabled` gate); "
                     "the oracle demands the linked reports only for enabled events")
    res.dump(a.out)
    sys.stdout.flush()
    os._exit(0)


if __name__ == "__main__":
    main()
