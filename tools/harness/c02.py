"""C02 — every valid SEMI E5 item encoding is decoded to the value it denotes (variables API).

Inputs are *byte strings*: value trees rendered by the harness's own E5 encoder with a random legal number of length bytes
(1–3, not only the minimum), and first shown to the Lean reference decoder `Spec.E5.decodeAny` (`codec any`): only what the
reference accepts — with the value the harness meant — is used, so the distribution is "accepted by an independent reference",
not "produced by the library".
Direct oracle (O) on the real classes: decode at an offset into a fresh object (ANYVALUE, a Dynamic whose type list holds the
type, or the typed structure) gives exactly the reference's value and the position after the item; `encode()` of the decoded
object is the canonical encoding (`codec spec`, Lean `Spec.E5.encode`).
Also: two or three messages of the same stream/function decoded through ONE `StreamsFunctions` container (a full body, then a legal
shorter / empty list, and the reverse) — each result equals a fresh container's, earlier results stay as they were.
Also: a Dynamic that already holds a caller-supplied typed variable (own count limit, typed Array) or was set from another Dynamic
decodes like a fresh one and leaves the other Dynamic alone.
Correspondence (C): `decode` of the same bytes, and of invalid / out-of-quantifier ones (NaN, infinity, JIS-8 under a Dynamic,
zero length bytes, truncation), against `Model.Var.decodeAs`.
"""
from __future__ import annotations

import json
import os
import sys

sys.path.insert(0, os.path.dirname(os.path.abspath(__file__)))
import codeclib as K  # noqa: E402
from codeclib import hlib, V  # noqa: E402
from c01 import js, unjs, refill_for  # noqa: E402

PROP = "C02"


def oracle_decode(res, s, v, data: bytes, start: int, tail: bytes, ref_val=None, canon_hex=None):
    """`data[start:]` starts with a valid encoding of v (len = len(data) - start - len(tail))"""
    case = {"kind": "decode", "struct": js(s), "val": js(v), "data": data.hex(), "start": start, "tail": len(tail)}
    want = K.norm_val(v)
    want_s = K.show_val(want)
    end = len(data) - len(tail)
    if ref_val is not None and ref_val != want_s:
        res.disagree("harness value vs Spec.E5.decodeAny", case, ref_val[:300], want_s[:300])
    try:
        obj = K.fresh_var(s)
        pos = obj.decode(data, start)
    except Exception as exc:  # noqa: BLE001
        res.violate("decode-rejects-valid", f"a valid E5 encoding is refused: {type(exc).__name__}: {exc}", case, want_s[:200], None)
        return
    got = K.show_obj(obj)
    if got != want_s:
        res.violate("decode-wrong-value", "a valid E5 encoding is decoded to a different value", case, want_s[:200], got[:200])
        return
    if pos != end:
        res.violate("decode-wrong-position", "decode() does not return the position after the item", case, end, pos)
    try:
        re = obj.encode()
    except Exception as exc:  # noqa: BLE001
        res.violate("reencode-raises", f"encode() of the decoded object raised {type(exc).__name__}", case)
        return
    canon = K.own_encode(want)
    if re != canon:
        res.violate("reencode-not-canonical", "re-encoding the decoded value is not the canonical encoding", case, canon.hex()[:200], re.hex()[:200])
    if canon_hex is not None and canon_hex != "ok " + hlib.hexs(re):
        res.violate("reencode-not-canonical", "re-encoding differs from Spec.E5.encode (Lean, via the driver)", case, canon_hex[:200], re.hex()[:200])
    # the same bytes into an object that already holds another value of the structure (List.decode reuses its field objects)
    import zlib
    held = refill_for(hlib.Rng(zlib.adler32(data) ^ start), s, want)
    try:
        used = K.build_var(s, held)
        pos2 = used.decode(data, start)
        got2 = K.show_obj(used)
    except Exception as exc:  # noqa: BLE001
        res.violate("reuse-decode-raises", f"decoding a valid encoding into an object already holding a value raised {type(exc).__name__}: {exc}",
                    dict(case, held=js(held)))
        return
    if got2 != want_s or pos2 != end:
        res.violate("reuse-stale-value", "decoding a valid encoding into an object that already holds a value does not leave the decoded value",
                    dict(case, held=js(held)), want_s[:200], got2[:200])


def shorter_bodies(st, v):
    """valid bodies whose top-level list announces fewer members than v has (prefixes, down to the empty list)"""
    t, xs = v
    if t != "L" or st[0] not in ("rec", "arr"):
        return []
    out = []
    for n in sorted({0, 1, len(xs) - 1} & set(range(len(xs)))):
        out.append(("L", xs[:n]))
    return out


def rec_paths(s, v, path=()):
    """paths to record nodes (with at least one member) inside (s, v)"""
    out = []
    k = s[0]
    t, xs = v
    if t != "L":
        return out
    if k == "rec":
        if xs:
            out.append(path)
        for i, (f, x) in enumerate(zip(s[1], xs)):
            out += rec_paths(f, x, path + (i,))
    elif k == "arr":
        for i, x in enumerate(xs):
            out += rec_paths(s[1], x, path + (i,))
    return out


def cut_at(v, path, n):
    t, xs = v
    if not path:
        return (t, xs[:n])
    return (t, xs[:path[0]] + [cut_at(xs[path[0]], path[1:], n)] + xs[path[0] + 1:])


def node_at(v, path):
    for i in path:
        v = v[1][i]
    return v


def oracle_short_list(res, s, w, label=None, decode=None):
    """a record list that announces FEWER members than the structure defines is legal E5 (S7F6 `L,0`): the announced members are
    decoded, the other fields stay as a fresh object has them, and the position is the end of the item — nothing beyond it is read"""
    enc = K.own_encode(w)
    tail = bytes([0x41, 0x01, 0x5A])          # a following item that must not be swallowed
    case = {"kind": "shortlist", "struct": js(s), "val": js(w), "fn": label}
    want = K.show_in(s, K.norm_val(w))
    for data in (enc, enc + tail):
        try:
            if decode is not None:
                got, pos = decode(data)
            else:
                obj = K.fresh_var(s)
                pos = obj.decode(data, 0)
                got = K.show_obj(obj)
        except Exception as exc:  # noqa: BLE001
            res.violate("short-list-rejected", f"a list with fewer members than the structure defines is refused: {type(exc).__name__}: {exc}",
                        dict(case, data=data.hex()), want[:200])
            return
        if got != want:
            res.violate("short-list-wrong-value", "a list with fewer members than the structure defines is decoded to something else",
                        dict(case, data=data.hex()), want[:200], got[:200])
            return
        if pos is not None and pos != len(enc):
            res.violate("decode-wrong-position", "decoding a short list read beyond the item", dict(case, data=data.hex()), len(enc), pos)
            return


def oracle_dyn_prefilled(res, tags, v, held_t, held_elems, held_count, member=None):
    """a Dynamic that already holds a CALLER-SUPPLIED typed variable (with its own count limit / member type) decodes a valid item exactly
    as a fresh Dynamic of the same configuration does; and two Dynamics coupled by `b.set(a)` do not change together on decode"""
    case = {"kind": "dynprefilled", "types": list(tags), "val": js(v), "held": [held_t, list(held_elems), held_count], "member": member}
    classes = [V.Array if g == "ARR" else K.VARCLS[g] for g in tags]
    data = K.own_encode(v)

    def outcome(d):
        try:
            pos = d.decode(data, 0)
            return f"ok {K.show_obj(d)} pos={pos}"
        except Exception as exc:  # noqa: BLE001
            return "err " + hlib.errkind(exc)
    want = outcome(V.Dynamic(list(classes)))
    if not want.startswith("ok"):
        return
    try:
        if member is not None:
            inner = V.Array(K.VARCLS[member], [K.leaf_payload(member, [e]) if member in ("A", "J") else [e] for e in held_elems])
        else:
            inner = K.VARCLS[held_t](K.leaf_payload(held_t, held_elems) if held_t != "B" else bytes(held_elems), count=held_count)
        d = V.Dynamic(list(classes))
        d.set(inner)
        a = V.Dynamic(list(classes))
        a.set(inner if member is not None else K.VARCLS[held_t](K.leaf_payload(held_t, held_elems) if held_t != "B" else bytes(held_elems)))
        b = V.Dynamic(list(classes))
        b.set(a)
        a_before = K.show_obj(a)
    except Exception:  # noqa: BLE001
        return
    got = outcome(d)
    if got != want:
        res.violate("decode-into-held-object", "a Dynamic holding a caller-supplied typed variable decodes a valid item differently from a fresh Dynamic",
                    case, want[:200], got[:200])
        return
    gb = outcome(b)
    if gb != want:
        res.violate("decode-into-held-object", "a Dynamic set from another Dynamic decodes a valid item differently from a fresh Dynamic", case, want[:200], gb[:200])
        return
    try:
        a_after = K.show_obj(a)
    except Exception as exc:  # noqa: BLE001
        a_after = type(exc).__name__
    if a_after != a_before:
        res.violate("decode-into-held-object", "decoding into a Dynamic changed another Dynamic it had been set from", case, a_before[:200], a_after[:200])


def oracle_decode_sequence(res, cls_name, bodies):
    """several messages of ONE stream/function decoded through ONE StreamsFunctions container: every result equals what a fresh
    container gives for that body, earlier results are not changed by later decodes, and results are distinct objects"""
    import c03_fn
    from secsgem.secs.functions import StreamsFunctions
    from secsgem.secs.functions._all import secs_streams_functions
    cls = next(c for c in secs_streams_functions if c.__name__ == cls_name)
    case = {"kind": "sequence", "fn": cls_name, "bodies": [b.hex() for b in bodies]}

    def show(fn):
        return type(fn).__name__ + " " + ("header-only" if fn.data is None else K.show_obj(fn.data))
    fresh = []
    for b in bodies:
        try:
            fresh.append("ok " + show(StreamsFunctions().decode(c03_fn.message(cls.stream, cls.function, b))))
        except Exception as exc:  # noqa: BLE001
            fresh.append("err " + hlib.errkind(exc))
    one = StreamsFunctions()
    results = []
    for k, b in enumerate(bodies):
        try:
            fn = one.decode(c03_fn.message(cls.stream, cls.function, b))
            got = "ok " + show(fn)
        except Exception as exc:  # noqa: BLE001
            fn, got = None, "err " + hlib.errkind(exc)
        if got != fresh[k]:
            res.violate("decode-sequence-stale", f"S{cls.stream}F{cls.function}: message #{k + 1} decoded through a container that decoded this function before "
                        "differs from its decode through a fresh container", case, fresh[k][:200], got[:200])
            return
        for j, (old, old_show) in enumerate(results):
            if old is not None and (old is fn or "ok " + show(old) != old_show):
                res.violate("decode-sequence-stale", f"S{cls.stream}F{cls.function}: the object returned for message #{j + 1} was changed by decoding message #{k + 1}",
                            case, old_show[:200], ("same object" if old is fn else "ok " + show(old))[:200])
                return
        results.append((fn, got))


def replay_case(res, case):
    if case.get("kind") == "shortlist":
        if case.get("fn"):
            import c03_fn
            from secsgem.secs.functions import StreamsFunctions
            from secsgem.secs.functions._all import secs_streams_functions
            cls = next(c for c in secs_streams_functions if c.__name__ == case["fn"])

            def dec(data, cls=cls):
                fn = StreamsFunctions().decode(c03_fn.message(cls.stream, cls.function, data))
                return K.show_obj(fn.data), None
            oracle_short_list(res, unjs(case["struct"]), unjs(case["val"]), case["fn"], dec)
        else:
            oracle_short_list(res, unjs(case["struct"]), unjs(case["val"]))
    if case.get("kind") == "dynprefilled":
        h = case["held"]
        oracle_dyn_prefilled(res, case["types"], unjs(case["val"]), h[0], h[1], h[2], case.get("member"))
    if case.get("kind") == "sequence":
        oracle_decode_sequence(res, case["fn"], [bytes.fromhex(b) for b in case["bodies"]])
    if case.get("kind") == "decode":
        oracle_decode(res, unjs(case["struct"]), unjs(case["val"]), bytes.fromhex(case["data"]), case["start"], b"\0" * case["tail"])


def finite_f4_pool():
    return [K.f32_to_b64(f) for f in K.F32_SPECIAL + [0x7F7FFFFF, 0xFF7FFFFF, 0x00800000, 0x80800000, 0x00000001, 0x807FFFFF, 0x3F800001, 0x7F000000]]


def gen_wire_val(rng, big):
    """value trees whose elements are exactly representable on the wire (F4 elements are binary32 values)"""
    vals = []
    for t in K.LEAVES:
        for n in (0, 1, 2, 3):
            es = K.gen_elems(rng, t, n, "finite")
            if t == "F4":
                es = [rng.choice(finite_f4_pool()) for _ in range(n)]
            vals.append((t, es))
    for t in K.INTS:
        lo, hi = K.int_range(t)
        vals.append((t, [lo, hi, 0] + ([-1] if lo < 0 else [])))
    for b in finite_f4_pool():
        vals.append(("F4", [b]))
    for b in K.F64_SPECIAL:
        vals.append(("F8", [b]))
    vals.append(("B", list(range(256))))
    vals.append(("A", list(range(256))))
    for cps in K.NUL_TEXTS:                               # text ending in / made of NUL characters (legal characters of A and J)
        vals.append(("A", cps))
        vals.append(("J", cps))
        vals.append(("L", [("A", cps), ("U1", [1]), ("L", [("J", cps)])]))
    vals.append(K.deep_val(rng, 6))
    vals.append(K.deep_val(rng, 30, "U2"))
    vals.append(("L", [("U1", [i]) for i in range(255)]))
    vals.append(("L", [("L", []), ("L", [("L", [])])]))

    def fix(v):
        t, xs = v
        if t == "L":
            return ("L", [fix(x) for x in xs])
        if t == "F4":
            return (t, [K.norm_val(("F4", [e]))[1][0] for e in xs])
        return v
    for _ in range(700 if big else 220):
        vals.append(fix(K.gen_val(rng, flavour="finite")))
    return vals


def main():
    a = hlib.std_args()
    replay_cases = []
    if a.replay:
        body = json.load(open(a.replay))
        a.seed, a.tier = body.get("seed", a.seed), body.get("tier", a.tier)
        replay_cases = [v["case"] for v in body.get("violations", []) if isinstance(v.get("case"), dict)]
    res = hlib.Result(PROP, a.tier, a.seed)
    rng = hlib.Rng(a.seed ^ 0xC02)
    drv = K.BigDriver()
    big = a.tier == "thorough" or a.search
    res.rule = ("byte strings = value trees (every type, counts 0..3 and random, numeric boundaries, every finite binary32/binary64 boundary: +-0, min/max "
                "subnormal, min normal, +-FLT_MAX, +-DBL_MAX; all 256 byte values; depth <= 6 plus one chain of 30; a 255-element list) rendered by the harness's "
                "own encoder with 1-3 length bytes chosen at random where legal (and all three systematically for short items), accepted by the Lean "
                "reference decoder first; decoded at offsets 0..5 into ANYVALUE, a Dynamic listing the type, or the typed structure. "
                "Out-of-quantifier inputs (NaN, infinity, JIS-8 under Dynamic, zero length bytes, truncations) only in the correspondence part. "
                "distinct = distinct (structure, bytes, offset)")

    for case in replay_cases:
        replay_case(res, case)
        res.count(("replay", json.dumps(case, sort_keys=True)))

    # ------------------------------------------------------------------ valid encodings
    items = []   # (struct, val, enc)
    for v in gen_wire_val(rng, big):
        for k in range(3):
            enc = K.own_encode(v, rng, noncanon=(0, 60, 100)[k])
            if k == 0 and K.size_of(v) > 1:
                continue
            if K.has_tag(v, "J"):
                s = K.struct_for(rng, v)
                if s[0] in ("any", "dyn") or not K.conforms(s, v):
                    continue
            else:
                r = rng.below(4)
                if r == 0:
                    s = ("any",)
                elif r == 1 and v[0] != "L":
                    others = [g for g in K.LEAVES if g not in (v[0], "J")]
                    s = ("dyn", rng.shuffle([v[0], rng.choice(others)]), -1)
                else:
                    s = K.struct_for(rng, v)
            if not K.conforms(s, v) or not K.buildable(s):
                s = ("any",)
                if not K.conforms(s, v):
                    continue
            items.append((s, v, enc))
    # record lists announcing fewer members than the structure defines (top level and nested)
    n_short = 0
    for s_, v_, _ in list(items):
        if K.size_of(v_) > 60 or K.has_nan(v_):
            continue
        paths = rec_paths(s_, v_)
        if not paths:
            continue
        for path in rng.shuffle(paths)[:2]:
            full = len(node_at(v_, path)[1])
            for n in sorted({0, full - 1, rng.below(full)}):
                oracle_short_list(res, s_, cut_at(v_, path, n))
                n_short += 1
    for fs in ([("leaf", "A", -1), ("leaf", "A", -1), ("leaf", "U1", -1)], [("leaf", "B", -1), ("any",)], [("arr", ("rec", [("leaf", "A", -1), ("leaf", "A", -1)]), -1), ("leaf", "U2", -1)]):
        st = ("rec", fs)
        v = ("L", [("A", [49]), ("A", [50, 51]), ("U1", [7])]) if fs[0][1] == "A" else \
            ("L", [("B", [1]), ("U4", [9])]) if fs[0][0] == "leaf" else ("L", [("L", [("L", [("A", [49])]), ("L", []), ("L", [("A", [50]), ("A", [51, 52])])]), ("U2", [5])])
        for n in range(len(v[1]) + 1):
            oracle_short_list(res, st, ("L", v[1][:n]))
            n_short += 1
    res.bump("short_lists", "decoded", n_short)
    res.evaluations += n_short

    # every format code x every number of length bytes, systematically
    for t in K.LEAVES:
        w = K.WIDTH[t]
        for n in (0, 1, 2):
            es = K.gen_elems(rng, t, n, "finite")
            if t == "F4":
                es = [rng.choice(finite_f4_pool()) for _ in range(n)]
            v = (t, es)
            body = K.own_encode(v)[2:]
            for nlb in (1, 2, 3):
                enc = K.own_header(K.CODE[t], n * w, nlb) + body
                items.append((("leaf", t, -1), v, enc))
                if t != "J":
                    items.append((("any",), v, enc))
    # BOOLEAN: every non-zero byte is true (E5), not only 0x01
    for body in (bytes([0, 1, 0xFF, 2, 0x80]), bytes([0x7F]), bytes(range(256))):
        v = ("BOOLEAN", [1 if b else 0 for b in body])
        for nlb in ((1, 2, 3) if len(body) < 256 else (2, 3)):
            enc = K.own_header(K.CODE["BOOLEAN"], len(body), nlb) + body
            items.append((("leaf", "BOOLEAN", -1), v, enc))
            items.append((("any",), v, enc))
    for nlb in (1, 2, 3):
        v = ("L", [("U1", [1]), ("L", [])])
        items.append((("any",), v, K.own_header(0, 2, nlb) + K.own_encode(v)[2:]))
    # a long payload with three length bytes although two / one would do
    for t, n in (("B", 200), ("A", 65535), ("B", 65536)) + ((("B", 16777215),) if big else ()):
        es = list(bytes((i * 5 + 1) % 256 for i in range(n))) if n < 100000 else None
        if es is None:
            continue
        v = (t, es)
        items.append((("any",), v, K.own_header(K.CODE[t], n, 3) + bytes(es)))

    # reference first
    small = [(s, v, e) for s, v, e in items if len(e) <= 70000]
    ref_lines = ["codec any " + K.data_tokens(e) for _, _, e in small]
    spec_lines = ["codec spec " + K.send_val(v) for _, v, _ in small]
    if drv.available:
        res.driver_used = True
        ref_out = drv.run(ref_lines)
        spec_out = drv.run(spec_lines)
    else:
        res.notes.append("driver unavailable: inputs not checked against the Lean reference decoder")
        ref_out = [None] * len(small)
        spec_out = [None] * len(small)
    cases, lines, answers = [], [], []
    n_ref_reject = 0
    for i, ((s, v, enc), ro, so) in enumerate(zip(small, ref_out, spec_out)):
        ref_val = None
        if ro is not None:
            if not ro.startswith("ok ") or not ro.endswith(" rest=0"):
                n_ref_reject += 1
                res.disagree("harness encoder vs Spec.E5.decodeAny (reference refuses a harness encoding)", {"val": K.show_val(v)[:200], "data": enc.hex()[:200]}, ro[:200], "accept")
                continue
            ref_val = ro[3:-len(" rest=0")]
        prefix = rng.bytes(rng.below(6)) if rng.chance(1, 2) else b""
        tail = rng.bytes(rng.below(4)) if rng.chance(1, 3) else b""
        data = prefix + enc + tail
        oracle_decode(res, s, v, data, len(prefix), tail, ref_val, so)
        nlb = enc[0] & 3
        length = int.from_bytes(enc[1:1 + nlb], "big")
        need = 1 if length <= 0xFF else 2 if length <= 0xFFFF else 3
        res.count(("valid", K.show_struct(s), enc, len(prefix)), sample={"op": "decode valid", "struct": K.show_struct(s), "data": enc.hex()[:60], "val": K.show_val(v)[:80]} if i % 131 == 0 else None)
        res.bump("top_type", v[0])
        res.bump("length_bytes_used_vs_needed", f"{nlb}/{need}")
        res.bump("struct_kind", s[0])
        res.bump("depth", K.depth_of(v))
        cases.append({"struct": K.show_struct(s), "data": data.hex()[:200], "start": len(prefix)})
        lines.append(f"codec dec {K.show_struct(s)} {len(prefix)} {K.data_tokens(data)}")

        def f(s=s, data=data, start=len(prefix)):
            obj = K.fresh_var(s)
            pos = obj.decode(data, start)
            return f"{K.show_obj(obj)} pos={pos}"
        answers.append(K.impl(f))
    hlib.compare_batch(res, drv, "decode(valid, possibly non-canonical bytes) vs Model.Var.decodeAs", cases, lines, answers)
    res.bump("reference", "refused harness encodings", n_ref_reject)

    if big:
        # 16777215 bytes with three length bytes: oracle on the implementation, header through the model
        n = 16777215
        body = bytes([0x5A]) * n
        for t in ("B", "A"):
            enc = K.own_header(K.CODE[t], n, 3) + body
            try:
                obj = K.fresh_var(("any",))
                pos = obj.decode(enc, 0)
                val = obj.value.value
                ok = pos == len(enc) and (bytes(val) == body if t == "B" else val == body.decode("latin-1")) and obj.encode() == enc
            except Exception:  # noqa: BLE001
                ok = False
            if not ok:
                res.violate("decode-wrong-value", f"{t} with 16777215 bytes does not decode / re-encode", {"kind": "big", "type": t, "n": n})
            res.count(("big", t, n), sample={"op": "decode long", "type": t, "bytes": n})

    # ------------------------------------------------------------------ Dynamics pre-filled with caller-supplied typed variables
    all_tags = ["ARR"] + [g for g in K.LEAVES if g != "J"]
    n_pre = 0
    for t in [g for g in K.LEAVES if g != "J"]:
        for n in (1, 2, 5):
            v = K.norm_val((t, K.gen_elems(rng, t, n, "finite")))
            for held_n in sorted({0, 1, max(n - 1, 0)}):
                held = K.norm_val((t, K.gen_elems(rng, t, held_n, "finite")))[1]
                for held_count in sorted({-1, held_n, max(held_n, 1)}):
                    oracle_dyn_prefilled(res, all_tags if rng.chance(1, 2) else [t, "ARR"], v, t, held, held_count)
                    n_pre += 1
    for member, v in (("U1", ("L", [("A", [97]), ("A", [98, 99])])), ("A", ("L", [("U2", [1, 2])])), ("U1", ("L", [("U1", [7]), ("L", [])])), ("BOOLEAN", ("L", []))):
        oracle_dyn_prefilled(res, all_tags, v, "U1", [1, 2], -1, member=member)
        n_pre += 1
    res.bump("dynamic_prefilled", "decodes", n_pre)
    res.evaluations += n_pre

    # ------------------------------------------------------------------ two messages of one function through one container
    import c03_fn
    from secsgem.secs.functions import StreamsFunctions
    from secsgem.secs.functions._all import secs_streams_functions
    n_seq = 0
    for cls in secs_streams_functions:
        obj = cls()
        if obj.data is None:
            continue
        st = c03_fn.struct_of_obj(obj.data)
        for _ in range(2 if big else 1):
            v = c03_fn.gen_for(rng, st)
            if v[0] == "L" and not v[1] and st[0] == "arr":
                v = ("L", [c03_fn.gen_for(rng, st[1], 1) for _ in range(2)])
            full = K.own_encode(v, rng, noncanon=30)
            for w in shorter_bodies(st, v) or [c03_fn.gen_for(rng, st)]:
                short = K.own_encode(w)
                if st[0] == "rec" and not K.has_nan(w):
                    def dec(data, cls=cls):
                        fn = StreamsFunctions().decode(c03_fn.message(cls.stream, cls.function, data))
                        return K.show_obj(fn.data), None
                    oracle_short_list(res, st, w, cls.__name__, dec)
                oracle_decode_sequence(res, cls.__name__, [full, short])
                oracle_decode_sequence(res, cls.__name__, [short, full, short])
                n_seq += 2
                res.count(("sequence", cls.__name__, full, short))
    res.bump("decode_sequences", "through one StreamsFunctions", n_seq)

    # ------------------------------------------------------------------ outside the quantifier: correspondence only
    cases, lines, answers = [], [], []
    odd = []
    for b in K.NANS + K.INFS:
        odd.append((("any",), K.own_header(K.CODE["F8"], 8) + b.to_bytes(8, "big")))
        odd.append((("leaf", "F8", -1), K.own_header(K.CODE["F8"], 8, 2) + b.to_bytes(8, "big")))
    for f in (0x7F800000, 0xFF800000, 0x7FC00000, 0x7F800001, 0xFFFFFFFF):
        odd.append((("any",), K.own_header(K.CODE["F4"], 4, 3) + f.to_bytes(4, "big")))
    odd.append((("any",), K.own_header(K.CODE["J"], 2, 2) + b"\x5c\xa1"))
    odd.append((("dyn", ["J", "A"], -1), K.own_header(K.CODE["J"], 1) + b"\x41"))
    odd.append((("leaf", "J", -1), K.own_header(K.CODE["J"], 3, 3) + b"\x5c\x7e\xdf"))
    for code in sorted(set(K.CODE.values())):
        odd.append((("any",), bytes([code << 2])))              # zero length bytes
        odd.append((("any",), bytes([code << 2]) + b"\x01\x02"))
    for s, v, enc in rng.shuffle(small)[: (300 if big else 100)]:
        if len(enc) > 40:
            continue
        cut = rng.below(len(enc))
        odd.append((s, enc[:cut]))
        odd.append((s, enc[:1] + b"\xff" + enc[2:]))
        w = 1
        odd.append((("any",), enc + b"\x00" * w))
    for s, data in odd:
        try:
            K.fresh_var(s)
        except KeyError:
            continue
        cases.append({"struct": K.show_struct(s), "data": data.hex()[:200]})
        lines.append(f"codec dec {K.show_struct(s)} 0 {K.data_tokens(data)}")

        def f(s=s, data=data):
            obj = K.fresh_var(s)
            pos = obj.decode(data, 0)
            return f"{K.show_obj(obj)} pos={pos}"
        answers.append(K.impl(f))
        res.count(("odd", K.show_struct(s), data), nontrivial=len(data) > 1)
        res.bump("outside_quantifier_outcome", answers[-1].split()[0] if answers[-1].startswith("ok") else answers[-1])
    hlib.compare_batch(res, drv, "decode(NaN/inf/JIS-8 under Dynamic/zero length bytes/truncated) vs Model.Var.decodeAs", cases, lines, answers)
    res.exhaustive_parts.append("every E5 format code x 1, 2 and 3 length bytes x 0..2 elements, typed and through ANYVALUE")

    res.dump(a.out)


if __name__ == "__main__":
    main()
