"""Shared by c01.py / c02.py / c14.py: value trees, type-directed generators, real-object builders, canonical printers.

A value tree (`Val`) is `("L", [children])` or `(T, [elements])`, T one of the 14 item mnemonics; elements are Python ints:
byte value (B), 0/1 (BOOLEAN), code point (A, J), the integer (I*/U*), the binary64 bit pattern (F4, F8).
Floats never cross the driver boundary as decimal text.
"""
from __future__ import annotations

import os
import resource
import struct
import subprocess
import sys

sys.path.insert(0, os.path.dirname(os.path.dirname(os.path.abspath(__file__))))
import hlib  # noqa: E402

import secsgem.secs.variables as V  # noqa: E402
from secsgem.secs.data_items.base import DataItemBase  # noqa: E402
from secsgem.secs.variables.dynamic import ANYVALUE  # noqa: E402
import secsgem.secs.items as I  # noqa: E402

LEAVES = ["B", "BOOLEAN", "A", "J", "I8", "I1", "I2", "I4", "F8", "F4", "U8", "U1", "U2", "U4"]
CODE = {"L": 0o00, "B": 0o10, "BOOLEAN": 0o11, "A": 0o20, "J": 0o21, "I8": 0o30, "I1": 0o31, "I2": 0o32, "I4": 0o34,
        "F8": 0o40, "F4": 0o44, "U8": 0o50, "U1": 0o51, "U2": 0o52, "U4": 0o54}          # SEMI E5 format codes (the harness's own copy)
WIDTH = {"B": 1, "BOOLEAN": 1, "A": 1, "J": 1, "I8": 8, "I1": 1, "I2": 2, "I4": 4, "F8": 8, "F4": 4, "U8": 8, "U1": 1, "U2": 2, "U4": 4}
NUMERIC = ["I8", "I1", "I2", "I4", "F8", "F4", "U8", "U1", "U2", "U4"]
INTS = ["I8", "I1", "I2", "I4", "U8", "U1", "U2", "U4"]
VARCLS = {"B": V.Binary, "BOOLEAN": V.Boolean, "A": V.String, "J": V.JIS8, "I8": V.I8, "I1": V.I1, "I2": V.I2, "I4": V.I4,
          "F8": V.F8, "F4": V.F4, "U8": V.U8, "U1": V.U1, "U2": V.U2, "U4": V.U4}
ITEMCLS = {"L": I.ItemL, "B": I.ItemB, "BOOLEAN": I.ItemBOOLEAN, "A": I.ItemA, "J": I.ItemJ, "I8": I.ItemI8, "I1": I.ItemI1, "I2": I.ItemI2,
           "I4": I.ItemI4, "F8": I.ItemF8, "F4": I.ItemF4, "U8": I.ItemU8, "U1": I.ItemU1, "U2": I.ItemU2, "U4": I.ItemU4}
NAME_OF_VARCLS = {c: n for n, c in VARCLS.items()}
NAME_OF_ITEMCLS = {c: n for n, c in ITEMCLS.items()}

FLT_MAX64 = 0x47EFFFFFE0000000
DBL_MAX64 = 0x7FEFFFFFFFFFFFFF
SIGN = 1 << 63


def int_range(t):
    w = WIDTH[t] * 8
    return (-(1 << (w - 1)), (1 << (w - 1)) - 1) if t.startswith("I") else (0, (1 << w) - 1)


def f2b(x: float) -> int:
    return int.from_bytes(struct.pack(">d", x), "big")


def b2f(b: int) -> float:
    return struct.unpack(">d", b.to_bytes(8, "big"))[0]


def f32_to_b64(f: int) -> int:
    return f2b(struct.unpack(">f", f.to_bytes(4, "big"))[0])


def is_nan(b): return (b & ~SIGN) > 0x7FF0000000000000
def is_inf(b): return (b & ~SIGN) == 0x7FF0000000000000
def is_finite(b): return (b & ~SIGN) < 0x7FF0000000000000


# ------------------------------------------------------------------------------------------------ float pools
F32_SPECIAL = [0x00000000, 0x80000000, 0x00000001, 0x80000001, 0x007FFFFF, 0x00800000, 0x00800001, 0x3F800000, 0xBF800000, 0x3DCCCCCD,
               0x7F7FFFFF, 0xFF7FFFFF, 0x7F7FFFFE, 0x00400000, 0x00000002, 0x4B800000, 0x33800000, 0x34000000]
F64_SPECIAL = [0, SIGN, 1, SIGN | 1, 0x000FFFFFFFFFFFFF, 0x0010000000000000, 0x3FF0000000000000, 0xBFF0000000000000, 0x3FB999999999999A,
               DBL_MAX64, SIGN | DBL_MAX64, DBL_MAX64 - 1, 0x7FE0000000000000, 0x3FF0000000000001, 0x4340000000000000, 0x4340000000000001]
NANS = [0x7FF8000000000000, 0xFFF8000000000000, 0x7FF0000000000001, 0x7FFFFFFFFFFFFFFF, 0xFFF4000000000000, 0x7FF8000020000000]
INFS = [0x7FF0000000000000, 0xFFF0000000000000]


def f4_accepted_pool():
    """doubles `F4.set` accepts: exactly representable ones, binary32 rounding ties and their neighbours, subnormal thresholds, ±FLT_MAX"""
    out = []
    for f in F32_SPECIAL:
        out.append(f32_to_b64(f))
    for f in (0x00000001, 0x00000002, 0x007FFFFF, 0x00800000, 0x3F800000, 0x3F800001, 0x7F7FFFFE, 0x00400000, 0x4B7FFFFF):
        lo, hi = f32_to_b64(f), f32_to_b64(f + 1)
        mid = (lo + hi) // 2          # same sign/binade or adjacent: the bit patterns of positive doubles are monotone
        out += [mid, mid - 1, mid + 1, SIGN | mid, lo + 1, hi - 1]
    out += [0x3690000000000000, 0x3690000000000001, 0x368FFFFFFFFFFFFF, 0x36A0000000000000, 0x36A8000000000000,   # 2^-150 (tie to zero) …
            0x0000000000000001, 0x0010000000000000, 0x380FFFFFFFFFFFFF, 0x3810000000000000, 0x380FFFFFF0000000,
            FLT_MAX64, SIGN | FLT_MAX64, FLT_MAX64 - 1, 0x3FB999999999999A, 0x400921FB54442D18]
    return [b for b in out if (b & ~SIGN) <= FLT_MAX64]


def f4_rejected_pool():
    return [FLT_MAX64 + 1, SIGN | (FLT_MAX64 + 1), 0x47EFFFFFF0000000, 0x47EFFFFFEFFFFFFF, 0x47F0000000000000, DBL_MAX64, SIGN | DBL_MAX64] + INFS


# ------------------------------------------------------------------------------------------------ printing (same grammar as Drv/Codec.lean)
def show_elems(t, es):
    if t in ("F4", "F8"):
        return " ".join(f"{e:016x}" for e in es)
    if t == "B":
        if all(0 <= e < 256 for e in es):
            return "x" + bytes(es).hex() if es else ""
        return " ".join(str(e) for e in es)
    return " ".join(str(e) for e in es)


def show_val(v) -> str:
    t, xs = v
    if t == "L":
        return "(L" + "".join(" " + show_val(x) for x in xs) + ")"
    body = show_elems(t, xs)
    return "(" + t + (" " + body if body else "") + ")"


def send_val(v) -> str:
    """request form: text payloads compactly as hex where possible"""
    t, xs = v
    if t == "L":
        return "(L" + "".join(" " + send_val(x) for x in xs) + ")"
    if t in ("A", "B") and xs and all(0 <= e < 256 for e in xs):
        return f"({t} x{bytes(xs).hex()})"
    return show_val(v)


def val_digest(v) -> str:
    import zlib
    t, xs = v
    if t == "L":
        return "(L" + "".join(" " + val_digest(x) for x in xs) + ")"
    return f"({t} n={len(xs)} adler={zlib.adler32(bytes(e % 256 for e in xs))})"


def data_tokens(b: bytes) -> str:
    return "x" + b.hex() if b else ""


def show_struct(s) -> str:
    k = s[0]
    if k == "any":
        return "(any)"
    if k == "leaf":
        return f"(leaf {s[1]} {s[2]})"
    if k == "dyn":
        return f"(dyn {s[2]}" + "".join(" " + g for g in s[1]) + ")"
    if k == "arr":
        return f"(arr {s[2]} {show_struct(s[1])})"
    return "(rec" + "".join(" " + show_struct(f) for f in s[1]) + ")"


def show_fresh(s) -> str:
    k = s[0]
    if k in ("any", "dyn"):
        return "(NONE)"
    if k == "leaf":
        return f"({s[1]})"
    if k == "arr":
        return "(L)"
    return "(L" + "".join(" " + show_fresh(f) for f in s[1]) + ")"


def show_in(s, v) -> str:
    """the state of a fresh object of structure s after decoding v, where a record list may announce fewer members than the
    structure defines: the remaining fields keep their fresh state (same printing as `showIn` of Drv/Codec.lean)"""
    k = s[0]
    t, xs = v
    if k == "rec" and t == "L":
        parts = [show_in(f, x) for f, x in zip(s[1], xs)] + [show_fresh(f) for f in s[1][len(xs):]]
        return "(L" + "".join(" " + q for q in parts) + ")"
    if k == "arr" and t == "L":
        return "(L" + "".join(" " + show_in(s[1], x) for x in xs) + ")"
    return show_val(v)


def show_py(p) -> str:
    k = p[0]
    if k == "none":
        return "(none)"
    if k == "bool":
        return f"(bool {int(p[1])})"
    if k == "int":
        return f"(int {p[1]})"
    if k == "float":
        return f"(float {p[1]:016x})"
    if k == "str":
        return "(str" + "".join(f" {c}" for c in p[1]) + ")"
    if k in ("bytes", "ba"):
        return f"({k}" + (" x" + bytes(p[1]).hex() if p[1] else "") + ")"
    if k in ("list", "tuple"):
        return f"({k}" + "".join(" " + show_py(x) for x in p[1]) + ")"
    if k == "obj":
        return "(obj " + send_val(p[1]) + ")"
    raise ValueError(k)


def py_real(p, api="var"):
    """the real Python value a pyval term stands for"""
    k = p[0]
    if k == "none":
        return None
    if k == "bool":
        return bool(p[1])
    if k == "int":
        return int(p[1])
    if k == "float":
        return b2f(p[1])
    if k == "str":
        return "".join(chr(c) for c in p[1])
    if k == "bytes":
        return bytes(p[1])
    if k == "ba":
        return bytearray(p[1])
    if k == "list":
        return [py_real(x, api) for x in p[1]]
    if k == "tuple":
        return tuple(py_real(x, api) for x in p[1])
    if k == "obj":
        return build_item(p[1]) if api == "item" else build_var_any(p[1])
    raise ValueError(k)


def py_of_real(x):
    """canonical pyval term of a real Python value (what `get()` / `.value` returned)"""
    if x is None:
        return ("none",)
    if isinstance(x, bool):
        return ("bool", x)
    if isinstance(x, int):
        return ("int", x)
    if isinstance(x, float):
        return ("float", f2b(x))
    if isinstance(x, str):
        return ("str", [ord(c) for c in x])
    if isinstance(x, bytes):
        return ("bytes", list(x))
    if isinstance(x, bytearray):
        return ("ba", list(x))
    if isinstance(x, list):
        return ("list", [py_of_real(y) for y in x])
    if isinstance(x, tuple):
        return ("tuple", [py_of_real(y) for y in x])
    raise ValueError(type(x))


# ------------------------------------------------------------------------------------------------ real objects: variables API
_counter = [0]


def _fresh_name(prefix):
    _counter[0] += 1
    return f"{prefix}{_counter[0]}"


def data_format(s):
    """a `data_format` the library's own `generate()` accepts for the structure"""
    k = s[0]
    if k == "any":
        return type(_fresh_name("ANY"), (ANYVALUE,), {})      # a field needs its own name; behaviour is ANYVALUE's
    if k == "leaf":
        n = _fresh_name("F")
        return type(n, (DataItemBase,), {"name": n, "__type__": VARCLS[s[1]], "__count__": s[2]})
    if k == "dyn":
        n = _fresh_name("D")
        return type(n, (DataItemBase,), {"name": n, "__type__": V.Dynamic, "__count__": s[2],
                                         "__allowedtypes__": [V.Array if g == "ARR" else VARCLS[g] for g in s[1]]})
    if k == "arr":
        return [data_format(s[1])]          # nested arrays always have count -1 (that is all `generate` can build)
    n = _fresh_name("R")
    return [n] + [data_format(f) for f in s[1]] if s[1] else [n, n]     # (a one-element list would be an Array)


def ctor_var(s, value):
    """an object of structure s built with `value` as CONSTRUCTOR argument (not through a later set())"""
    k = s[0]
    if k == "any":
        return ANYVALUE(value)
    if k == "leaf":
        return VARCLS[s[1]](value, count=s[2])
    if k == "dyn":
        return V.Dynamic([V.Array if g == "ARR" else VARCLS[g] for g in s[1]], value, count=s[2])
    if k == "arr":
        return V.Array(data_format(s[1]), value, count=s[2])
    return V.List(data_format(s), value)


def boundary_values(count):
    """python values of every form whose length (bytes / characters / digits / members) is count-1, count, count+1"""
    out = []
    for n in sorted({max(count - 1, 0), count, count + 1}):
        out += [("bytes", [0x41 + i % 26 for i in range(n)]), ("bytes", [0xC0 + i % 32 for i in range(n)]), ("ba", [0x30 + i % 10 for i in range(n)]),
                ("str", [0x61 + i % 26 for i in range(n)]), ("str", [0xE9] * n), ("list", [("int", 0x41 + i % 26) for i in range(n)]),
                ("tuple", [("int", i % 2) for i in range(n)]), ("list", [("bool", i % 2) for i in range(n)])]
        if n >= 1:
            out += [("int", 10 ** (n - 1)), ("int", 10 ** n - 1)]
        if n >= 2:
            out.append(("int", -(10 ** (n - 2))))
    out += [("bool", 1), ("bool", 0), ("int", 0), ("int", 255)]
    return out


def accepts(cls, count, x) -> bool:
    try:
        cls(count=count).set(x)
        return True
    except Exception:  # noqa: BLE001
        return False


def reference_type(classes, count, x):
    """the documented choice of `Dynamic`: the first declared type whose preferred Python types include the value's and which
    accepts the value, else the first declared type that accepts it — with acceptance decided by the class's own `set()`"""
    for c in classes:
        if isinstance(x, tuple(c.preferred_types)) and accepts(c, count, x):
            return c
    for c in classes:
        if accepts(c, count, x):
            return c
    return None


NUL_TEXTS = [[0], [0, 0, 0], [65, 66, 0, 0, 0], [0, 65, 0], [0] * 16, [82, 69, 67, 0, 0, 0, 0, 0], [32, 0], [0, 0, 65]]


def buildable(s) -> bool:
    """field names the library derives must be distinct: an array of arrays is always called DATA"""
    k = s[0]
    if k == "arr":
        return buildable(s[1])
    if k == "rec":
        return sum(1 for f in s[1] if f[0] == "arr" and f[1][0] == "arr") <= 1 and all(buildable(f) for f in s[1])
    return True


def fresh_var(s):
    """a fresh variable object of the structure, built the way the library builds them"""
    k = s[0]
    if k == "any":
        return ANYVALUE()
    if k == "leaf":
        return VARCLS[s[1]](count=s[2])
    if k == "dyn":
        return V.Dynamic([V.Array if g == "ARR" else VARCLS[g] for g in s[1]], count=s[2])
    if k == "arr":
        return V.Array(data_format(s[1]), count=s[2])
    obj = V.List(data_format(s))
    if len(obj.data) != len(s[1]):
        raise KeyError("field names collide")
    return obj


def leaf_payload(t, es):
    """python value held by a leaf object with the given elements"""
    if t in ("A", "J"):
        return "".join(chr(e) for e in es)
    if t == "B":
        return bytearray(es)
    if t == "BOOLEAN":
        return [bool(e) for e in es]
    if t in ("F4", "F8"):
        return [b2f(e) for e in es]
    return list(es)


def build_leaf(t, es, count=-1):
    obj = VARCLS[t](count=count)
    obj.value = leaf_payload(t, es)        # the state `set()` would leave (set() itself is exercised separately)
    return obj


def build_var_any(v):
    """object tree holding `v` under ANYVALUE semantics (lists are `Array(ANYVALUE)`)"""
    t, xs = v
    if t == "L":
        arr = V.Array(ANYVALUE)
        arr.data = []
        for x in xs:
            d = ANYVALUE()
            d.value = build_var_any(x)
            arr.data.append(d)
        return arr
    return build_leaf(t, xs)


def build_var(s, v):
    """object tree of structure `s` holding `v` (caller guarantees the shapes fit)"""
    k = s[0]
    t, xs = v
    if k == "leaf":
        return build_leaf(t, xs, s[2])
    if k in ("any", "dyn"):
        d = fresh_var(s)
        d.value = build_var_any(v) if t == "L" else build_leaf(t, xs, d.count)
        return d
    if k == "arr":
        a = fresh_var(s)
        a.data = [build_var(s[1], x) for x in xs]
        return a
    lst = fresh_var(s)
    keys = list(lst.data.keys())
    for key, f, x in zip(keys, s[1], xs):
        lst.data[key] = build_var(f, x)
    return lst


def plain_for(s, v):
    """the set()/constructor argument standing for v under structure s: typed objects for Dynamic items (so that the type is
    not left to `_match_type`), plain lists / str / bytes elsewhere"""
    k = s[0]
    t, xs = v
    if k == "leaf":
        return leaf_payload(t, xs) if t != "B" else bytes(xs)
    if k in ("dyn", "any"):
        return VARCLS[t](leaf_payload(t, xs) if t != "B" else bytes(xs))
    if k == "arr":
        return [plain_for(s[1], x) for x in xs]
    return [plain_for(f, x) for f, x in zip(s[1], xs)]


def has_list_under_dyn(s, v):
    k = s[0]
    t, xs = v
    if k in ("dyn", "any"):
        return t == "L"
    if k == "arr":
        return any(has_list_under_dyn(s[1], x) for x in xs)
    if k == "rec":
        return any(has_list_under_dyn(f, x) for f, x in zip(s[1], xs))
    return False


def val_of_var(obj):
    """canonical Val (or the string NONE) of a variable object tree"""
    if isinstance(obj, V.Dynamic):
        return "NONE" if obj.value is None else val_of_var(obj.value)
    if isinstance(obj, V.Array):
        return ("L", [val_of_var(x) for x in obj.data])
    if isinstance(obj, V.List):
        return ("L", [val_of_var(obj.data[k]) for k in obj.data])
    for cls, name in NAME_OF_VARCLS.items():
        if isinstance(obj, cls):
            val = obj.value
            if name in ("A", "J"):
                return (name, [ord(c) for c in val])
            if name == "B":
                return (name, list(val))
            if name == "BOOLEAN":
                return (name, [int(bool(x)) for x in val])
            if name in ("F4", "F8"):
                return (name, [f2b(float(x)) for x in val])
            return (name, [int(x) for x in val])
    raise TypeError(type(obj))


def show_obj(obj) -> str:
    v = val_of_var(obj)
    return show_any(v)


def show_any(v) -> str:
    if v == "NONE":
        return "(NONE)"
    t, xs = v
    if t == "L":
        return "(L" + "".join(" " + show_any(x) for x in xs) + ")"
    return show_val(v)


# ------------------------------------------------------------------------------------------------ real objects: Item API
def item_payload(t, es):
    if t in ("A", "J"):
        return "".join(chr(e) for e in es)
    if t == "B":
        return bytes(es)
    if t == "BOOLEAN":
        return [bool(e) for e in es]
    if t in ("F4", "F8"):
        return [b2f(e) for e in es]
    return list(es)


def build_item(v):
    t, xs = v
    if t == "L":
        return I.ItemL([build_item(x) for x in xs])
    return ITEMCLS[t](item_payload(t, xs))


def val_of_item(it):
    name = NAME_OF_ITEMCLS[type(it)]
    raw = it._value
    if name == "L":
        return ("L", [val_of_item(x) for x in raw])
    if name in ("A", "J"):
        return (name, [ord(c) for c in raw])
    if name == "B":
        return (name, list(raw))
    if name == "BOOLEAN":
        return (name, [int(bool(x)) for x in raw])
    if name in ("F4", "F8"):
        return (name, [f2b(float(x)) for x in raw])
    return (name, [int(x) for x in raw])


# ------------------------------------------------------------------------------------------------ generators
LEN_BOUNDARY = [0, 1, 2, 3, 254, 255, 256, 257]


def gen_elems(rng, t, n, flavour="accepted"):
    """n elements of type t.  flavour: accepted (what set() lets through, no NaN) | nan (may contain NaN) | finite"""
    out = []
    if t in INTS:
        lo, hi = int_range(t)
        pool = [lo, lo + 1, -1, 0, 1, hi - 1, hi, hi // 2, hi // 2 + 1, 127, 128, 255, 256]
        pool = [x for x in pool if lo <= x <= hi]
        for _ in range(n):
            out.append(rng.choice(pool) if rng.chance(1, 2) else rng.range(lo, hi))
    elif t == "F8":
        for _ in range(n):
            r = rng.below(10)
            if r < 4:
                out.append(rng.choice(F64_SPECIAL))
            elif r < 5 and flavour == "nan":
                out.append(rng.choice(NANS))
            else:
                b = rng.next() & 0xFFFFFFFFFFFFFFFF
                if not is_finite(b):
                    b &= 0xBFFFFFFFFFFFFFFF
                out.append(b)
    elif t == "F4":
        pool = f4_accepted_pool()
        for _ in range(n):
            r = rng.below(10)
            if r < 5:
                out.append(rng.choice(pool))
            elif r < 6 and flavour == "nan":
                out.append(rng.choice(NANS))
            elif r < 8:
                f = rng.next() & 0xFFFFFFFF
                if (f >> 23) & 0xFF == 0xFF:
                    f &= 0xBFFFFFFF
                out.append(f32_to_b64(f))
            else:
                # a random double inside the binary32 range (not representable: gets rounded)
                e = rng.range(0x369, 0x47E)
                b = (rng.below(2) << 63) | (e << 52) | (rng.next() & 0xFFFFFFFFFFFFF)
                out.append(b)
    elif t == "BOOLEAN":
        out = [rng.below(2) for _ in range(n)]
    elif t in ("A", "B"):
        if n <= 600 and rng.chance(1, 4):
            start = rng.below(256)
            out = [(start + i) % 256 for i in range(n)]     # consecutive byte values: all 256 occur in long payloads
        else:
            out = list(rng.bytes(n))
    elif t == "J":
        # code points of the JIS X 0201 repertoire as the library maps it
        base = list(range(0, 0x5C)) + [0xA5] + list(range(0x5D, 0x7E)) + [0x203E, 0x7F] + list(range(0x80, 0xA1)) \
            + list(range(0xFF61, 0xFFA0)) + list(range(0xE0, 0x100))
        out = [rng.choice(base) for _ in range(n)]
    return out


def gen_leaf(rng, t=None, n=None, flavour="accepted", maxlen=40):
    t = t or rng.choice(LEAVES)
    if n is None:
        n = rng.choice(LEN_BOUNDARY[:4]) if rng.chance(1, 2) else rng.range(0, maxlen)
    return (t, gen_elems(rng, t, n, flavour))


def gen_val(rng, depth=0, maxdepth=6, budget=None, flavour="accepted", leaves=None):
    """random value tree: depth ≤ maxdepth, ≤ 40 nodes"""
    budget = budget if budget is not None else [40]
    budget[0] -= 1
    if depth >= maxdepth or budget[0] <= 0 or rng.chance(2, 5):
        return gen_leaf(rng, rng.choice(leaves or LEAVES), flavour=flavour, maxlen=12)
    n = rng.choice([0, 1, 2, 3, 4]) if depth > 0 else rng.choice([0, 1, 2, 3, 5])
    return ("L", [gen_val(rng, depth + 1, maxdepth, budget, flavour, leaves) for _ in range(n)])


def deep_val(rng, depth, t="U1"):
    v = (t, gen_elems(rng, t, 1))
    for _ in range(depth):
        v = ("L", [v])
    return v


def size_of(v):
    t, xs = v
    return 1 if t != "L" else 1 + sum(size_of(x) for x in xs)


def depth_of(v):
    t, xs = v
    return 0 if t != "L" else 1 + max([depth_of(x) for x in xs] + [0])


def has_tag(v, tag):
    t, xs = v
    return t == tag or (t == "L" and any(has_tag(x, tag) for x in xs))


def struct_for(rng, v, loose=False):
    """a structure `v` conforms to (typed where possible); `loose` replaces sub-structures by ANYVALUE now and then"""
    t, xs = v
    if t != "L":
        if rng.chance(1, 3) and t != "J":
            others = [g for g in LEAVES if g != t and g != "J"]
            allowed = rng.shuffle([t] + [rng.choice(others) for _ in range(rng.below(3))])
            return ("dyn", allowed if rng.chance(3, 4) else [], -1 if rng.chance(2, 3) else len(xs) + rng.below(3))
        if rng.chance(1, 5) and t != "J":
            return ("any",)
        return ("leaf", t, -1 if rng.chance(2, 3) else len(xs) + rng.below(3))
    if (loose or rng.chance(1, 6)) and not has_tag(v, "J"):
        return ("any",)
    # homogeneous children -> array, else record
    shapes = [shape_of(x) for x in xs]
    if xs and all(s == shapes[0] for s in shapes) and rng.chance(2, 3):
        el = struct_for(rng, xs[0])
        if all(conforms(el, x) for x in xs):
            return ("arr", el, -1)
    if not xs and rng.chance(1, 2):
        return ("arr", ("leaf", rng.choice(LEAVES), -1), -1)
    return ("rec", [struct_for(rng, x) for x in xs])


def shape_of(v):
    t, xs = v
    return t if t != "L" else ("L", tuple(shape_of(x) for x in xs))


def count_ok(t, c, n):
    if t in ("A", "J", "B"):
        return not (0 < c < n)
    return not (0 <= c < n)


def conforms(s, v):
    """does a fresh object of structure `s` decode the canonical encoding of `v` to `v` (mirrors `Conforms` of the Lean side)"""
    k = s[0]
    t, xs = v
    if k == "leaf":
        return t == s[1] and count_ok(t, s[2], len(xs))
    if k == "any":
        return not has_tag(v, "J")
    if k == "dyn":
        if t == "L":
            return (not s[1] or "ARR" in s[1]) and not has_tag(v, "J")
        return t != "J" and (not s[1] or t in s[1]) and count_ok(t, s[2], len(xs))
    if t != "L":
        return False
    if k == "arr":
        return all(conforms(s[1], x) for x in xs)
    return len(xs) == len(s[1]) and all(conforms(f, x) for f, x in zip(s[1], xs))


# ------------------------------------------------------------------------------------------------ the harness's own E5 encoder
def own_header(code, length, nlb=None):
    if nlb is None:
        nlb = 1 if length <= 0xFF else 2 if length <= 0xFFFF else 3
    return bytes([(code << 2) | nlb]) + length.to_bytes(nlb, "big")


def own_encode(v, rng=None, noncanon=0):
    """E5 bytes of v written from the standard; with `rng` and `noncanon` (0..100 %) items get more length bytes than needed"""
    t, xs = v

    def pick(length):
        need = 1 if length <= 0xFF else 2 if length <= 0xFFFF else 3
        if rng is not None and need < 3 and rng.below(100) < noncanon:
            return rng.range(need, 3)
        return need
    if t == "L":
        return own_header(0, len(xs), pick(len(xs))) + b"".join(own_encode(x, rng, noncanon) for x in xs)
    w = WIDTH[t]
    if t in ("B", "A"):
        body = bytes(xs)
    elif t == "BOOLEAN":
        body = bytes(1 if e else 0 for e in xs)
    elif t == "J":
        body = bytes(jis_byte(e) for e in xs)
    elif t in INTS:
        body = b"".join((e % (1 << (8 * w))).to_bytes(w, "big") for e in xs)
    elif t == "F8":
        body = b"".join(e.to_bytes(8, "big") for e in xs)
    else:
        body = b"".join(struct.pack(">f", b2f(e)) for e in xs)
    return own_header(CODE[t], len(body), pick(len(body))) + body


def jis_byte(c):
    if c == 0xA5:
        return 0x5C
    if c == 0x203E:
        return 0x7E
    if 0xFF61 <= c <= 0xFF9F:
        return c - 0xFEC0
    if 0 <= c < 256 and c not in (0x5C, 0x7E) and not (0xA1 <= c <= 0xDF):
        return c
    raise ValueError(c)


def jis_char(b):
    """JIS X 0201: the code point byte b stands for (the harness's own table)"""
    if b == 0x5C:
        return 0xA5
    if b == 0x7E:
        return 0x203E
    if 0xA1 <= b <= 0xDF:
        return b + 0xFEC0
    return b


def norm_val(v):
    """what v is after a trip over the wire: F4 elements rounded to binary32"""
    t, xs = v
    if t == "L":
        return ("L", [norm_val(x) for x in xs])
    if t == "F4":
        return (t, [f2b(struct.unpack(">f", struct.pack(">f", b2f(e)))[0]) if not is_nan(e) else e for e in xs])
    return v


def has_nan(v):
    t, xs = v
    if t == "L":
        return any(has_nan(x) for x in xs)
    return t in ("F4", "F8") and any(is_nan(e) for e in xs)


# ------------------------------------------------------------------------------------------------ driver with a big stack
class BigDriver(hlib.Driver):
    """the Lean model is written with plain structural recursion: give the native driver a large stack for long payloads"""

    def __init__(self):
        import time
        super().__init__()
        # several checks share one .lake: the binary is briefly absent while another check relinks it
        t0 = time.time()
        while not self.available and time.time() - t0 < 90:
            time.sleep(2)
            self.available = os.path.exists(hlib.DRIVER) and os.access(hlib.DRIVER, os.X_OK)

    def run(self, lines, timeout: float = 900.0):
        import time
        if not self.available:
            raise RuntimeError("driver not built")
        t0 = time.time()
        while not (os.path.exists(hlib.DRIVER) and os.access(hlib.DRIVER, os.X_OK)) and time.time() - t0 < 90:
            time.sleep(2)

        def limits():
            try:
                soft, hard = resource.getrlimit(resource.RLIMIT_STACK)
                want = 16 << 30
                if hard != resource.RLIM_INFINITY:
                    want = min(want, hard)
                resource.setrlimit(resource.RLIMIT_STACK, (want, hard))
            except (ValueError, OSError):
                pass
        data = ("\n".join(lines) + "\n").encode()
        p = None
        for _ in range(60):
            try:
                p = subprocess.run([hlib.DRIVER], input=data, stdout=subprocess.PIPE, stderr=subprocess.PIPE, timeout=timeout, check=False, preexec_fn=limits)
                break
            except (FileNotFoundError, PermissionError, OSError) as exc:     # being relinked by a concurrent check
                if isinstance(exc, subprocess.TimeoutExpired):
                    raise
                time.sleep(2)
        if p is None:
            raise RuntimeError("driver binary not present")
        out = p.stdout.decode().split("\n")
        if out and out[-1] == "":
            out.pop()
        if p.returncode != 0 or len(out) != len(lines):
            raise RuntimeError(f"driver failed rc={p.returncode} answers={len(out)}/{len(lines)} stderr={p.stderr[-400:]!r}")
        return out


def impl(fn):
    try:
        return "ok " + fn()
    except Exception as exc:  # noqa: BLE001
        return "err " + hlib.errkind(exc)


def shrink_val(v, fails):
    """structural shrinking: drop children / elements while `fails(v)` stays true"""
    changed = True
    while changed:
        changed = False
        t, xs = v
        for i in range(len(xs)):
            cand = (t, xs[:i] + xs[i + 1:])
            try:
                if fails(cand):
                    v, changed = cand, True
                    break
            except Exception:  # noqa: BLE001
                pass
        if changed:
            continue
        if t == "L":
            for i, x in enumerate(xs):
                try:
                    if fails(x):
                        v, changed = x, True
                        break
                except Exception:  # noqa: BLE001
                    pass
                sub = shrink_val(x, lambda y, i=i: fails((t, xs[:i] + [y] + xs[i + 1:])))
                if sub != x:
                    v, changed = (t, xs[:i] + [sub] + xs[i + 1:]), True
                    break
    return v
