"""Shared by c12.py / c13.py: a REAL GemEquipmentHandler on an in-memory connection, an independent SECS-II decoder,
canonical ids/values (the `gemev` / `gemtab` driver grammar) and history shrinking."""
from __future__ import annotations

import logging
import struct
import threading
import time

import hlib  # noqa: F401  (puts $VERIF_REPO first on sys.path)

import secsgem.common
import secsgem.gem
import secsgem.hsms
import secsgem.secs
from secsgem.secs import variables as V

logging.disable(logging.CRITICAL)

WAIT = 60.0  # bound of every wait on the real threads (seconds): generous, the machine may be heavily loaded; every expiry is a
             # RuntimeError (check broken, exit 2), never an observation "it did not happen"


def private_driver():
    """hlib.Driver on a private copy of the model driver: other checks sharing `.lake` may relink the executable while
    this harness is still shrinking a history"""
    import os
    import shutil
    import tempfile
    scratch = os.environ.get("VERIF_SCRATCH") or tempfile.mkdtemp(prefix="verif-gem-")
    dst = os.path.join(scratch, "driver-copy")
    for _ in range(50):
        try:
            shutil.copy2(hlib.DRIVER, dst)
            os.chmod(dst, 0o755)
            hlib.DRIVER = dst
            break
        except OSError:
            time.sleep(0.2)
    return hlib.Driver()


# ---------------------------------------------------------------------------------------------- independent decoder
_NUM = {0o30: (">q", 8, "I8"), 0o31: (">b", 1, "I1"), 0o32: (">h", 2, "I2"), 0o34: (">i", 4, "I4"),
        0o50: (">Q", 8, "U8"), 0o51: (">B", 1, "U1"), 0o52: (">H", 2, "U2"), 0o54: (">I", 4, "U4"),
        0o40: (">d", 8, "F8"), 0o44: (">f", 4, "F4")}


def decode_item(data: bytes, pos: int = 0):
    """SECS-II item at `pos` -> ((tag, payload), next_pos).  Written from E5, shares nothing with secsgem."""
    fb = data[pos]
    code, nlen = fb >> 2, fb & 3
    if nlen == 0:
        raise ValueError("zero length bytes")
    length = int.from_bytes(data[pos + 1:pos + 1 + nlen], "big")
    pos += 1 + nlen
    if code == 0:
        items = []
        for _ in range(length):
            it, pos = decode_item(data, pos)
            items.append(it)
        return ("L", items), pos
    raw = data[pos:pos + length]
    if len(raw) != length:
        raise ValueError("truncated item")
    pos += length
    if code == 0o10:
        return ("B", list(raw)), pos
    if code == 0o11:
        return ("BOOL", [b != 0 for b in raw]), pos
    if code in (0o20, 0o21):
        return ("A", raw.decode("latin-1")), pos
    if code in _NUM:
        fmt, w, tag = _NUM[code]
        if length % w:
            raise ValueError("bad numeric length")
        return (tag, [struct.unpack(fmt, raw[i:i + w])[0] for i in range(0, length, w)]), pos
    raise ValueError(f"unknown format code {code:o}")


def decode_body(data: bytes):
    if not data:
        return None
    it, pos = decode_item(data, 0)
    if pos != len(data):
        raise ValueError("trailing bytes")
    return it


# ---------------------------------------------------------------------------------------------- canonical ids / values
def hexs(s: str) -> str:
    return s.encode("latin-1").hex()


def cid(x) -> str:
    """canonical id of a Python value as the code holds it (`int`, `str`, `list` of int)"""
    if isinstance(x, bool):
        return "n" + str(int(x))
    if isinstance(x, int):
        return "n" + str(x)
    if isinstance(x, str):
        return "t" + hexs(x)
    if isinstance(x, (list, tuple)):
        return "n" + ".".join(str(int(v)) for v in x)
    raise ValueError(f"no canonical id for {x!r}")


def cid_item(it) -> str:
    """canonical id of a decoded item"""
    tag, p = it
    if tag == "A":
        return "t" + hexs(p)
    if tag in ("L", "BOOL"):
        raise ValueError("list/boolean item as id")
    return "n" + ".".join(str(v) for v in p)


def cfloat(x: float) -> str:
    if x != x:
        return "fnan"
    if x in (float("inf"), float("-inf")):
        return "finf" if x > 0 else "f-inf"
    num, den = x.as_integer_ratio()
    return f"f{num}/{den.bit_length() - 1}"


def cval_item(it) -> str:
    """canonical value of a decoded item (gemev/gemtab `val`)"""
    tag, p = it
    if tag == "L":
        return "l" + "+".join(cid_item(x) for x in p)
    if tag == "A":
        return "t" + hexs(p)
    if tag in ("F4", "F8"):
        if len(p) != 1:
            raise ValueError("multi-valued float")
        return cfloat(p[0])
    if tag == "BOOL":
        return "n" + ".".join(str(int(v)) for v in p)
    return "n" + ".".join(str(v) for v in p)


def parse_id(s: str):
    """driver grammar -> ('n', (ints…)) | ('t', str)"""
    if s[0] == "n":
        return ("n", tuple(int(w) for w in s[1:].split(".")) if len(s) > 1 else ())
    return ("t", bytes.fromhex(s[1:]).decode("latin-1"))


def show_id(i) -> str:
    return "n" + ".".join(str(v) for v in i[1]) if i[0] == "n" else "t" + hexs(i[1])


_UTYPES = [(V.U1, 0, 2**8 - 1), (V.U2, 0, 2**16 - 1), (V.U4, 0, 2**32 - 1), (V.U8, 0, 2**64 - 1),
           (V.I1, -2**7, 2**7 - 1), (V.I2, -2**15, 2**15 - 1), (V.I4, -2**31, 2**31 - 1), (V.I8, -2**63, 2**63 - 1)]


# ---------------------------------------------------------------------------------------------- own E5 encoder (foreign peer)
_CODE = {"L": 0, "B": 0o10, "BOOL": 0o11, "A": 0o20, "I8": 0o30, "I1": 0o31, "I2": 0o32, "I4": 0o34, "F8": 0o40, "F4": 0o44,
         "U8": 0o50, "U1": 0o51, "U2": 0o52, "U4": 0o54}
_INTW = {"U1": (1, False), "U2": (2, False), "U4": (4, False), "U8": (8, False), "I1": (1, True), "I2": (2, True), "I4": (4, True), "I8": (8, True)}


def enc_item(tag: str, payload, form: int = 0) -> bytes:
    """SECS-II item written from E5 (nothing of secsgem): `L` takes encoded children, `B`/`BOOL` raw byte values (a BOOLEAN
    TRUE may be ANY non-zero byte), `A` a str, integer tags a list of ints.  `form` picks 1..3 length bytes (never fewer than
    needed): valid but not necessarily the shortest encoding, as a foreign peer may send it."""
    if tag == "L":
        body, length = b"".join(payload), len(payload)
    elif tag in ("B", "BOOL"):
        body = bytes(payload)
        length = len(body)
    elif tag == "A":
        body = payload.encode("latin-1")
        length = len(body)
    else:
        w, signed = _INTW[tag]
        body = b"".join(int(v).to_bytes(w, "big", signed=signed) for v in payload)
        length = len(body)
    need = 1 if length < 1 << 8 else 2 if length < 1 << 16 else 3
    nlen = need + form % (4 - need)
    return bytes([(_CODE[tag] << 2) | nlen]) + length.to_bytes(nlen, "big") + body


def enc_id(i, form: int) -> bytes:
    """an id item in one of the integer widths that hold it (U1…U8, I1…I8) or as A text"""
    if i[0] == "t":
        return enc_item("A", i[1], form)
    fits = [t for t, (w, sg) in _INTW.items()
            if all((-(1 << (8 * w - 1)) <= v < (1 << (8 * w - 1))) if sg else (0 <= v < (1 << (8 * w))) for v in i[1])]
    return enc_item(fits[form % len(fits)], list(i[1]), form // 7)


def mk_id_item(i, form: int):
    """the SECS variable (or plain Python value) sent for id `i`; `form` picks among the admissible integer widths"""
    if i[0] == "t":
        return V.String(i[1]) if form % 2 else i[1]
    vals = list(i[1])
    fits = [t for t, lo, hi in _UTYPES if all(lo <= v <= hi for v in vals)]
    k = form % (len(fits) + 1)
    if k == len(fits) and len(vals) == 1:
        return vals[0]  # plain int: secsgem chooses the width
    return fits[k % len(fits)](vals)


# ---------------------------------------------------------------------------------------------- in-memory connection
class MemConn(secsgem.common.Connection):
    """The outermost boundary: what the handler writes is parsed into HSMS frames here; what the harness feeds arrives
    through `on_data` exactly as from a socket.  Primaries of the equipment that expect a reply (S1F13, S6F11, S5F1, S1F1)
    are acknowledged at once, as a host would."""

    def __init__(self, settings):
        super().__init__(settings)
        self.cv = threading.Condition()
        self.buf = b""
        self.replies = {}      # system -> (stream, function, body)
        self.primaries = []    # (stream, function, body) sent by the equipment
        self.primary_systems = []   # system bytes of the primaries, same order
        self.control = []      # (s_type, system)
        self.mute = set()      # (stream, function) primaries the host does NOT answer (fault input)

    def enable(self):
        pass

    def disable(self):
        pass

    def send_data(self, data):
        out = []
        with self.cv:
            self.buf += bytes(data)
            while len(self.buf) >= 4:
                n = struct.unpack(">L", self.buf[:4])[0] + 4
                if len(self.buf) < n:
                    break
                frame, self.buf = self.buf[:n], self.buf[n:]
                _session, sb, fn, _p, stype, system = struct.unpack(">HBBBBL", frame[4:14])
                body = frame[14:]
                stream, wbit = sb & 0x7F, bool(sb & 0x80)
                if stype != 0:
                    self.control.append((stype, system))
                elif fn % 2 == 1:
                    self.primaries.append((stream, fn, body))
                    self.primary_systems.append(system)
                    if wbit or (stream, fn) == (5, 1):
                        # S5F1 goes out without the W bit, yet set_alarm/clear_alarm wait (T3) for an S5F2: answer it anyway
                        out.append((stream, fn, system))
                else:
                    self.replies[system] = (stream, fn, body)
            self.cv.notify_all()
        for stream, fn, system in out:
            body = {(1, 13): b"\x01\x02\x21\x01\x00\x01\x00", (6, 11): b"\x21\x01\x00", (5, 1): b"\x21\x01\x00",
                    (1, 1): b"\x01\x00"}.get((stream, fn))
            if body is not None and (stream, fn) not in self.mute:
                self.feed_raw(stream, fn + 1, False, system, body)
        return True

    def feed_raw(self, stream: int, function: int, wbit: bool, system: int, body: bytes):
        hdr = struct.pack(">HBBBBL", 0, stream | (0x80 if wbit else 0), function, 0, 0, system)
        frame = struct.pack(">L", len(hdr) + len(body)) + hdr + body
        self.on_data({"source": self, "data": frame})

    def feed_control(self, stype: int, system: int):
        hdr = struct.pack(">HBBBBL", 0xFFFF, 0, 0, 0, stype, system)
        self.on_data({"source": self, "data": struct.pack(">L", len(hdr)) + hdr})

    def wait_for(self, pred, timeout=WAIT):
        with self.cv:
            return self.cv.wait_for(pred, timeout)


class MemSettings(secsgem.hsms.HsmsSettings):
    def create_connection(self):
        self.conn = MemConn(self)
        return self.conn


class Equipment:
    """A real `GemEquipmentHandler`, selected and COMMUNICATING, control state HOST_OFFLINE (no S1F1 traffic)."""

    def __init__(self, handler_cls=None):
        self.settings = MemSettings(connect_mode=secsgem.hsms.HsmsConnectMode.PASSIVE,
                                    device_type=secsgem.common.DeviceType.EQUIPMENT, t3=WAIT,
                                    establish_communication_timeout=10)
        self.h = (handler_cls or secsgem.gem.GemEquipmentHandler)(self.settings, initial_control_state="HOST_OFFLINE")
        self.h.enable()
        self.c = self.h.protocol._connection  # pylint: disable=protected-access
        self.system = 1000
        self.c.on_connected({"source": self.c})
        self.c.feed_control(1, 77)  # Select.req
        if not self.c.wait_for(lambda: any(p[:2] == (1, 13) for p in self.c.primaries)):
            raise RuntimeError("equipment did not send S1F13 after select")
        t0 = time.time()
        while self.h.communication_state.current.name != "COMMUNICATING":
            if time.time() - t0 > WAIT:
                raise RuntimeError("equipment did not reach COMMUNICATING")
            time.sleep(0.0005)
        self.c.primaries.clear()

    def message(self, stream: int, function: int, value):
        """a real HsmsMessage carrying the encoded function (what the callbacks receive)"""
        self.system += 1
        if isinstance(value, (bytes, bytearray)):     # a body encoded by the harness's own encoder: as a foreign peer's frame arrives
            data = bytes(value)
        else:
            fn = self.h.stream_function(stream, function)(value) if value is not None else self.h.stream_function(stream, function)()
            data = fn.encode()
        return secsgem.hsms.HsmsMessage(secsgem.hsms.HsmsStreamFunctionHeader(self.system, stream, function, True, 0), data)

    def request(self, stream: int, function: int, value, direct: bool):
        """-> (stream, function, decoded body) of the answer.  `direct`: call the registered callback with the real message and
        do what `_handle_stream_function` does on an exception; otherwise the whole receive/dispatch/send path."""
        msg = self.message(stream, function, value)
        if direct:
            cb = getattr(self.h, f"_on_s{stream:02d}f{function:02d}")
            try:
                res = cb(self.h, msg)
            except Exception:  # noqa: BLE001
                return (stream, 0, None)
            return (res.stream, res.function, decode_body(res.encode()))
        system = msg.header.system
        self.c.feed_raw(stream, function, True, system, msg.data)
        if not self.c.wait_for(lambda: system in self.c.replies):
            raise RuntimeError(f"no reply to S{stream}F{function} within {WAIT}s")
        s, f, body = self.c.replies.pop(system)
        return (s, f, decode_body(body))

    def close(self):
        """stop the protocol threads of this handler (housekeeping only)"""
        try:
            for name in ("_linktest_timer",):
                t = getattr(self.h.protocol, name, None)
                if t is not None:
                    t.cancel()
            cs = self.h._communication_state  # pylint: disable=protected-access
            for name in ("_wait_cra_timer", "_comm_delay_timer"):
                t = getattr(cs, name, None)
                if t is not None:
                    t.cancel()
            th = self.h.protocol._thread  # pylint: disable=protected-access
            th._stop_receiver_thread = True
            th._stop_dispatcher_thread = True
            th._receiver_thread_trigger.set()
            th._dispatcher_thread_trigger.set()
        except Exception:  # noqa: BLE001
            pass


def bounded(fails, budget: int):
    """wrap a ddmin predicate: after `budget` evaluations every further candidate counts as not failing (shrinking stops,
    the case found so far is kept)"""
    left = [budget]

    def f(cand):
        if left[0] <= 0:
            return False
        left[0] -= 1
        return fails(cand)
    return f


def shared_tables(a, b):
    """names of attributes of two handler instances that are the SAME mutable container object (dict / list / set): two
    handlers in one process must not share any table"""
    out = []
    for name in sorted(set(dir(a)) & set(dir(b))):
        if name.startswith("__"):
            continue
        try:
            va, vb = getattr(a, name), getattr(b, name)
        except Exception:  # noqa: BLE001
            continue
        if isinstance(va, (dict, list, set)) and va is vb:
            out.append(name)
    return out


class Shadow:
    """A second REAL equipment handler alive in the same process, with DIFFERENT tables under the SAME ids; a history runs on
    it between the steps of the handler under test (isolation: nothing of it may show up there)."""

    def __init__(self):
        self.eq = Equipment()
        h = self.eq.h
        h.status_variables[30] = secsgem.gem.StatusVariable(30, "shadow-sv30", "x", V.U4)
        h.status_variables[30].value = 4242
        h.status_variables[77] = secsgem.gem.StatusVariable(77, "shadow-sv77", "x", V.U4)
        h.data_values[31] = secsgem.gem.DataValue(31, "shadow-dv31", V.String)
        h.data_values[31].value = "shadow"
        h.equipment_constants[30] = secsgem.gem.EquipmentConstant(30, "shadow-ec30", 0, 9, 9, "x", V.U4)
        h.equipment_constants[78] = secsgem.gem.EquipmentConstant(78, "shadow-ec78", 0, 9, 1, "x", V.U4)
        h.alarms[7] = secsgem.gem.Alarm(7, "shadow-al7", "shadow seven", 60, 50, 50)
        h.alarms[79] = secsgem.gem.Alarm(79, "shadow-al79", "shadow", 61, 50, 50)
        h.collection_events[50] = secsgem.gem.CollectionEvent(50, "shadow-ce50", [])
        h.collection_events[80] = secsgem.gem.CollectionEvent(80, "shadow-ce80", [])
        h.remote_commands["SHADOW"] = secsgem.gem.RemoteCommand("SHADOW", "shadow", ["P"], 80)
        self.k = 0

    def step(self):
        """one request / equipment-side change on the shadow handler (a fixed cycle)"""
        eq, h = self.eq, self.eq.h
        k, self.k = self.k, self.k + 1
        c = k % 8
        if c == 0:
            eq.request(2, 33, {"DATAID": 1, "DATA": [{"RPTID": 1, "VID": [30]}, {"RPTID": 2, "VID": [77, 31]}]}, True)
        elif c == 1:
            eq.request(2, 35, {"DATAID": 1, "DATA": [{"CEID": 50, "RPTID": [2, 1]}, {"CEID": 80, "RPTID": [1]}]}, True)
        elif c == 2:
            eq.request(2, 37, {"CEED": True, "CEID": []}, True)
        elif c == 3:
            eq.request(5, 3, {"ALED": 128, "ALID": 7}, True)
            eq.request(5, 3, {"ALED": 128, "ALID": 79}, True)
        elif c == 4:
            h.set_alarm(7)
            h.set_alarm(79)
        elif c == 5:
            eq.request(2, 15, [{"ECID": 30, "ECV": V.U4(3)}, {"ECID": 2, "ECV": V.U1(0)}, {"ECID": 1, "ECV": V.U1(77)}], True)
        elif c == 6:
            h.status_variables[30].value = 4243 + k
            h.trigger_collection_events([50])
        else:
            h.clear_alarm(7)
            eq.request(2, 33, {"DATAID": 1, "DATA": []}, True)

    def close(self):
        self.eq.close()


_SHADOW = []


def shadow() -> Shadow:
    """the one shadow handler of this harness process (created on first use, alive until the process ends)"""
    if not _SHADOW:
        _SHADOW.append(Shadow())
    return _SHADOW[0]


class RecordingThreads:
    """Stand-in for the `threading` name inside one secsgem module: threads are real, but recorded (so the harness can
    join them with a bound) and an exception escaping the target is kept instead of printed."""

    def __init__(self):
        self.threads = []
        outer = self

        class Thread(threading.Thread):
            def __init__(self, *a, **kw):
                super().__init__(*a, **kw)
                self.error = None
                outer.threads.append(self)

            def run(self):
                try:
                    super().run()
                except BaseException as exc:  # noqa: BLE001
                    self.error = exc

        self.Thread = Thread

    def __getattr__(self, name):
        return getattr(threading, name)

    def join_all(self, timeout=WAIT):
        """-> list of errors; raises if a thread is still alive after the bound"""
        errs = []
        ths, self.threads[:] = list(self.threads), []
        for t in ths:
            t0 = time.time()
            while t.ident is None and time.time() - t0 < timeout:   # created by another thread, not started yet
                time.sleep(0.0005)
            t.join(timeout)
            if t.is_alive():
                raise RuntimeError("sender thread still running after the bound")
            if t.error is not None:
                errs.append(t.error)
        return errs
