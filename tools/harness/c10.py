"""C10 — TCP transport: every byte of a send reported successful arrives once, in order; otherwise failure is reported.

C (correspondence): the real `TcpConnection.send_data` on a scripted fake socket (`select.select` patched in
`secsgem.common.tcp_connection`) vs `Model.TcpSend.sendData`; the real `HsmsProtocol._process_send_queue` on top of it vs
`Model.TcpSend.processQueue` (`tcp` driver domain).  O (direct oracle): `True` ⇒ the socket got exactly the data; always a prefix;
`False` only after a socket error; real loopback sockets with a small send buffer and paced readers: the stream the peer reads is the
concatenation of the sends that returned `True`.
"""
from __future__ import annotations

import errno
import itertools
import os
import socket
import sys
import threading
import time

sys.path.insert(0, os.path.dirname(os.path.abspath(__file__)))
import _hsmsmem as M  # noqa: E402
from _hsmsmem import hlib  # noqa: E402
from hlib import hexs  # noqa: E402

import secsgem.common.tcp_connection as tcp_mod  # noqa: E402
import secsgem.hsms  # noqa: E402
from secsgem.common.block_send_info import BlockSendInfo, BlockSendResult  # noqa: E402
from secsgem.common.tcp_connection import TcpConnection  # noqa: E402

REAL_SELECT_MODULE = tcp_mod.select
REAL_SELECT = REAL_SELECT_MODULE.select


class OracleExhausted(BaseException):
    """the scripted socket has no answer left: the real loop would go on for ever"""


class FakeSock:
    def __init__(self, tokens):
        self.tokens = list(tokens)
        self.got = bytearray()

    def fileno(self):
        return 0

    def send(self, data):
        if not self.tokens:
            raise OracleExhausted
        t = self.tokens.pop(0)
        if t[0] == "a":
            n = min(int(t[1:]), len(data))
            self.got += bytes(data[:n])
            return n
        if t == "w":
            raise OSError(errno.EAGAIN if len(self.got) % 2 else errno.EWOULDBLOCK, "would block")
        if t == "e":
            raise OSError(errno.ECONNRESET if len(self.got) % 2 else errno.EPIPE, "gone")
        raise AssertionError(t)


def fake_select(r, w, x, timeout=None):
    sock = w[0]
    if not isinstance(sock, FakeSock):
        return REAL_SELECT(r, w, x, timeout)
    if not sock.tokens:
        raise OracleExhausted
    if sock.tokens[0] == "t":
        sock.tokens.pop(0)
        return ([], [], [])
    return ([], [sock], [])


class TC(TcpConnection):
    def enable(self):
        pass

    def disable(self):
        pass


class TcpSettings(secsgem.hsms.HsmsSettings):
    def create_connection(self):
        self.conn = TC(self)
        return self.conn


_SETTINGS = secsgem.hsms.HsmsSettings()


def real_send(data: bytes, tokens):
    conn = TC(_SETTINGS)
    conn._sock = FakeSock(tokens)
    try:
        r = conn.send_data(data)
        outcome = "True" if r is True else ("False" if r is False else repr(r))
    except OracleExhausted:
        outcome = "pending"
    return outcome, bytes(conn._sock.got), len(conn._sock.tokens)


def check_send(res, data, tokens, outcome, got, case):
    if not data.startswith(got):
        res.violate("send-not-prefix", "bytes handed to the socket are not a prefix of the data (duplicated / reordered / foreign bytes)",
                    case, data.hex()[:60], got.hex()[:60])
    elif outcome == "True" and got != data:
        res.violate("send-true-incomplete", "send_data returned True although not all bytes were accepted by the socket", case,
                    len(data), len(got))
    elif outcome == "False" and "e" not in tokens:
        res.violate("send-false-without-error", "send_data returned False although the socket never raised an error", case)
    elif outcome not in ("True", "False", "pending"):
        res.violate("send-result", "send_data returned something that is neither True nor False", case, None, outcome)


def fake_part(res, rng, drv, big):
    cases, lines, answers = [], [], []
    alphabet = ["a1", "a2", "a3", "a5", "w", "e", "t"]
    datas = [b"", b"\x01", b"\x01\x02\x03", bytes(range(5)), bytes(range(10))]
    n_ex = 0
    maxlen = 6 if big else 5
    for L in range(0, maxlen + 1):
        for tokens in itertools.product(alphabet, repeat=L):
            for data in (datas if L <= 3 else (datas[2:4] if L <= 4 else datas[3:4])):
                cases.append({"kind": "send", "data": data.hex(), "oracle": list(tokens)})
                n_ex += 1
    res.exhaustive_parts.append(f"every oracle sequence over {alphabet} up to length {maxlen} x data lengths 0,1,3,5,10 (3,5 at length 4, 5 above): {n_ex} runs of send_data")
    for i in range(5000 if big else 1500):
        n = rng.choice([0, 1, 2, 7, 100, 1000, 1024, 4096]) if rng.chance(1, 2) else rng.range(0, 300)
        data = rng.bytes(n)
        toks = []
        for _ in range(rng.range(0, 14)):
            k = rng.below(10)
            if k < 6:
                toks.append("a" + str(rng.choice([0, 1, 2, 3, n // 2, n, n + 1, 10**6, rng.range(0, max(n, 1))])))
            elif k < 8:
                toks.append("w")
            elif k == 8:
                toks.append("t")
            else:
                toks.append("e" if rng.chance(1, 2) else "w")
        if rng.chance(2, 3):
            toks.append("a" + str(n + 5))          # mostly let the send finish
        cases.append({"kind": "send", "data": data.hex(), "oracle": toks})
    for i, case in enumerate(cases):
        data = bytes.fromhex(case["data"])
        tokens = case["oracle"]
        outcome, got, rest = real_send(data, tokens)
        lines.append("tcp send " + hexs(data) + (" " + " ".join(tokens) if tokens else ""))
        answers.append(f"ok {outcome} written={hexs(got)} rest={rest}")
        check_send(res, data, tokens, outcome, got, case)
        res.count(("send", data, tuple(tokens)), nontrivial=len(tokens) > 0,
                  sample={"op": "send_data on a scripted socket", "data_len": len(data), "oracle": tokens} if i in (900, n_ex + 3) else None)
        res.bump("send_outcome", outcome)
    hlib.compare_batch(res, drv, "TcpConnection.send_data vs Model.TcpSend.sendData", cases, lines, answers)


def real_queue(size, blocks, tokens):
    s = TcpSettings()
    p = secsgem.hsms.HsmsProtocol(s)
    conn = p._connection
    conn._sock = FakeSock(tokens)
    if size is not None:
        p.send_packet_size = size
    infos = [BlockSendInfo(b) for b in blocks]
    marks = []                                   # bytes the socket had taken when each block was resolved
    for bi in infos:
        orig = bi.resolve
        bi.resolve = (lambda r, orig=orig: (marks.append(len(conn._sock.got)), orig(r))[1])
        p._send_queue.put(bi)
    pending = False
    try:
        p._process_send_queue()
    except OracleExhausted:
        pending = True
    resolved = []
    for bi in infos:
        if bi._result == BlockSendResult.NOT_SENT:
            break
        resolved.append(1 if bi._result == BlockSendResult.SENT_OK else 0)
    return resolved, bytes(conn._sock.got), p._send_queue.qsize(), len(conn._sock.tokens), pending, marks


def queue_part(res, rng, drv, big):
    cases, lines, answers = [], [], []
    for i in range(3000 if big else 800):
        size = rng.choice([1, 2, 3, 4, 7, 16])
        blocks = [rng.bytes(rng.choice([1, 2, 3, 4, 5, 8, 9, 15, 16, 17, 33])) for _ in range(rng.range(1, 4))]
        total = sum(map(len, blocks))
        toks = []
        for _ in range(rng.range(0, 2 * total + 2)):
            k = rng.below(12)
            toks.append("a" + str(rng.choice([1, 2, 3, size, size + 1, 100])) if k < 9 else ("w" if k == 9 else ("t" if k == 10 else "e")))
        if rng.chance(1, 2):
            toks += ["a100"] * (total + 2)
        resolved, got, left, rest, pending, marks = real_queue(size, blocks, toks)
        case = {"kind": "queue", "size": size, "blocks": [b.hex() for b in blocks], "oracle": toks}
        cases.append(case)
        lines.append(f"tcp queue {size} " + ",".join(hexs(b) for b in blocks) + (" " + " ".join(toks) if toks else ""))
        answers.append("ok resolved=" + ",".join(map(str, resolved)) + f" written={hexs(got)} left={left} rest={rest} pending={int(pending)}")
        res.count(("queue", size, tuple(blocks), tuple(toks)),
                  sample={"op": "_process_send_queue", "packet_size": size, "block_lens": [len(b) for b in blocks], "oracle": toks[:12]} if i < 2 else None)
        res.bump("queue_resolved", ",".join(map(str, resolved)) or "-")
        # oracle: every block taken from the queue gets a truthful result of its own: what was written for it is a prefix of it, all of
        # it if it was resolved True; nothing else is in the stream; unless the socket script ran out every queued block is resolved
        bounds = [0] + marks + ([len(got)] if pending else [])
        parts = [got[bounds[k]:bounds[k + 1]] for k in range(len(bounds) - 1)]
        bad = None
        if len(marks) != len(resolved) or (not pending and (len(resolved) != len(blocks) or left != 0)):
            bad = "a queued block was left without a result although the socket script did not run out"
        elif b"".join(parts) != got:
            bad = "bytes in the stream that belong to no block"
        else:
            for k, part in enumerate(parts):
                if not blocks[k].startswith(part) or (k < len(resolved) and resolved[k] == 1 and part != blocks[k]):
                    bad = f"block {k}: written part is not a prefix of the block / resolved True without being written completely"
                    break
            if bad is None and any(r == 0 for r in resolved) and "e" not in toks:
                bad = "a block resolved False without a socket error"
        if bad:
            res.violate("queue-stream", bad, case, [b.hex() for b in blocks], {"resolved": resolved, "parts": [x.hex() for x in parts], "left": left})
    hlib.compare_batch(res, drv, "HsmsProtocol._process_send_queue vs Model.TcpSend.processQueue", cases, lines, answers)

    # the real packet size: tie of the generated constant, and a block just above it (O only: 2 MB of hex is not sent to the driver)
    real_size = secsgem.hsms.HsmsProtocol.send_packet_size
    hlib.compare_batch(res, drv, "HsmsProtocol.send_packet_size vs Gen.Misc.hsmsSendPacketSize", [{"kind": "packetsize"}], ["tcp packetsize"], [f"ok {real_size}"])
    if real_size <= 4 * 1024 * 1024:
        data = rng.bytes(real_size + 5)
        s, p, c = M.new_protocol()
        calls = []
        c.send_data = lambda d: (calls.append(bytes(d)), True)[1]
        bi = BlockSendInfo(data)
        p._send_queue.put(bi)
        p._process_send_queue()
        res.count(("split-real", real_size), sample={"op": "packet split at the real size", "block_len": len(data), "packets": [len(x) for x in calls]})
        if b"".join(calls) != data or [len(x) for x in calls] != [real_size, 5] or bi._result != BlockSendResult.SENT_OK:
            res.violate("packet-split", "packets of a block just above send_packet_size do not concatenate to the block",
                        {"kind": "split-real", "len": len(data)}, [real_size, 5], [len(x) for x in calls])


# ---------------------------------------------------------------------------------------------- real loopback sockets
def loopback_case(res, rng, sizes, pacing, sndbuf, case_id, bound=120.0):
    srv = socket.socket()
    srv.setsockopt(socket.SOL_SOCKET, socket.SO_REUSEADDR, 1)
    srv.bind(("127.0.0.1", 0))
    srv.listen(1)
    cli = socket.socket()
    cli.setsockopt(socket.SOL_SOCKET, socket.SO_RCVBUF, 8192)
    cli.connect(srv.getsockname())
    acc, _ = srv.accept()
    srv.close()
    if sndbuf:
        acc.setsockopt(socket.SOL_SOCKET, socket.SO_SNDBUF, sndbuf)
    acc.setblocking(0)                       # as `TcpServerConnection`/`TcpClientConnection` do
    conn = TC(secsgem.hsms.HsmsSettings())
    conn._sock = acc
    received = bytearray()
    done = threading.Event()

    def reader():
        try:
            if pacing == "delayed":
                time.sleep(0.2)
            small = 20000 if pacing == "1-byte" else 0
            while True:
                d = cli.recv(1 if small > 0 else 65536)
                if not d:
                    break
                small -= len(d)
                received.extend(d)
        except OSError:
            pass
        done.set()
    threading.Thread(target=reader, daemon=True).start()
    payloads = [rng.bytes(n) for n in sizes]
    results = []
    finished = threading.Event()

    def sender():
        for pl in payloads:
            results.append(conn.send_data(pl))
        finished.set()
    threading.Thread(target=sender, daemon=True).start()
    case = {"kind": "loopback", "sizes": sizes, "pacing": pacing, "sndbuf": sndbuf, "id": case_id}
    if not M.wait_event(finished, bound):
        res.violate("loopback-send-hang", f"send_data did not return within {bound:.0f} s although the peer keeps reading", case, None, len(results))
        return
    acc.close()
    if not M.wait_event(done, bound):
        res.violate("loopback-read", "peer did not see EOF", case)
        return
    cli.close()
    want = b"".join(pl for pl, r in zip(payloads, results) if r is True)
    res.count(("loopback", tuple(sizes), pacing, sndbuf), sample={"op": "loopback", "sizes": sizes, "pacing": pacing, "sndbuf": sndbuf} if case_id < 2 else None)
    res.bump("loopback_pacing", pacing)
    res.bump("loopback_max_size", max(sizes))
    if any(r is not True for r in results) or bytes(received) != want:
        # a False is legitimate only if the bytes are then NOT claimed; here the peer reads everything, so every send has to succeed
        res.violate("loopback-stream", "peer-read stream differs from the sends reported successful (or a send failed although the peer reads)",
                    case, len(want), (len(received), results))


def close_after_send_case(res, rng, size, bound=40.0):
    """The library's PASSIVE transport (`TcpServerConnection`, its own accepted socket with whatever options it sets): a message larger than
    the peer's receive buffer, a peer that reads slowly and pauses when the send is reported; `disable()` right after `send_data` returned
    True; the peer then reads to EOF.  Every byte of the send reported successful has to arrive (close must not discard the unsent queue)."""
    s = socket.socket()
    s.bind(("127.0.0.1", 0))
    port = s.getsockname()[1]
    s.close()
    settings = secsgem.hsms.HsmsSettings(address="127.0.0.1", port=port, connect_mode=secsgem.hsms.HsmsConnectMode.PASSIVE)
    conn = settings.create_connection()
    connected = threading.Event()
    conn.on_connected.register(lambda _: connected.set())
    conn.enable()
    case = {"kind": "close-after-send", "size": size}
    peer = socket.socket()
    peer.setsockopt(socket.SOL_SOCKET, socket.SO_RCVBUF, 64 * 1024)
    end = time.monotonic() + M.bound(3.0)
    while True:
        try:
            peer.connect(("127.0.0.1", port))
            break
        except OSError:
            if time.monotonic() >= end:
                peer = None
                break
            time.sleep(0.05)
    if peer is None:
        res.violate("loopback-listen", "passive transport does not accept a connection within 3 s of enable()", case)
        return
    if not M.wait_event(connected, 5):
        res.violate("loopback-listen", "passive transport did not report the connection within 5 s", case)
        return
    payload = rng.bytes(size)
    received = bytearray()
    reported = threading.Event()
    closed_locally = threading.Event()
    reader_done = threading.Event()
    err = []

    def reader():
        peer.settimeout(120)
        try:
            while len(received) < size - 768 * 1024:       # drains quickly; the rest is left to the socket buffers
                d = peer.recv(256 * 1024)
                if not d:
                    break
                received.extend(d)
            reported.wait(4)                                # not reading: what is not yet on the wire stays in the endpoint's send queue
            while not reported.is_set():                    # (should the buffers be too small for the rest: read on slowly, no deadlock)
                d = peer.recv(8 * 1024)
                if not d:
                    break
                received.extend(d)
                time.sleep(0.01)
            closed_locally.wait(120)                        # busy for a moment: the endpoint closes meanwhile
            time.sleep(0.2)
            while True:
                d = peer.recv(256 * 1024)
                if not d:
                    break
                received.extend(d)
        except OSError as exc:
            err.append(repr(exc))
        reader_done.set()
    threading.Thread(target=reader, daemon=True).start()
    result = []
    finished = threading.Event()

    def sender():
        result.append(conn.send_data(payload))
        reported.set()
        conn.disable()
        closed_locally.set()
        finished.set()
    threading.Thread(target=sender, daemon=True).start()
    if not M.wait_event(finished, bound):
        reported.set()
        closed_locally.set()
        res.violate("loopback-send-hang", f"send_data()/disable() did not return within {bound:.0f} s although the peer reads", case, None, result)
        return
    M.wait_event(reader_done, 20)
    peer.close()
    res.count(("close-after-send", size), sample={"op": "passive transport: send, disable() at once, slow peer reads to EOF", "size": size,
                                                  "send_data": result, "peer_read": len(received)})
    res.bump("close_after_send", f"send_data={result} complete={bytes(received[:size]) == payload}")
    if result == [True] and bytes(received[:size]) != payload:
        good = 0
        while good < min(len(received), size) and received[good] == payload[good]:
            good += 1
        res.violate("close-discards-accepted-bytes", "send_data returned True, the endpoint was disabled right afterwards: the peer did not get all "
                    "bytes of that send", case, size, {"peer_read": len(received), "correct_prefix": good, "reader_error": err})


def stalled_peer_case(res, rng, size, t8, stall, bound=40.0):
    """The library's ACTIVE transport (`TcpClientConnection`, its own connected socket with whatever options it sets; T8 = `t8` s): a
    message larger than the peer's receive window; the peer drains most of it, then does not read at all for `stall` s (> T8) while the rest
    sits in the endpoint's send buffer — `send_data` has reported success by then —, then reads on.  Every byte of the send reported
    successful has to arrive: a peer that is merely slow must not cost accepted bytes."""
    srv = socket.socket()
    srv.setsockopt(socket.SOL_SOCKET, socket.SO_REUSEADDR, 1)
    srv.setsockopt(socket.SOL_SOCKET, socket.SO_RCVBUF, 64 * 1024)       # inherited by the accepted socket
    srv.bind(("127.0.0.1", 0))
    srv.listen(1)
    srv.settimeout(M.bound(6))
    port = srv.getsockname()[1]
    settings = secsgem.hsms.HsmsSettings(address="127.0.0.1", port=port, connect_mode=secsgem.hsms.HsmsConnectMode.ACTIVE, t8=t8, t5=30)
    conn = settings.create_connection()
    connected = threading.Event()
    conn.on_connected.register(lambda _: connected.set())
    conn.enable()
    case = {"kind": "stalled-peer", "size": size, "t8": t8, "stall_s": stall}
    try:
        peer, _ = srv.accept()
    except OSError:
        res.violate("loopback-listen", "active transport did not connect within 6 s of enable()", case)
        return
    if not M.wait_event(connected, 5):
        res.violate("loopback-listen", "active transport did not report the connection within 5 s", case)
        return
    payload = rng.bytes(size)
    received = bytearray()
    reported = threading.Event()
    reader_done = threading.Event()
    err = []

    def reader():
        peer.settimeout(stall + 120)
        try:
            while len(received) < size - 512 * 1024:
                d = peer.recv(256 * 1024)
                if not d:
                    break
                received.extend(d)
            if reported.wait(6):
                time.sleep(stall)                          # the stall: nothing is read, the window is closed, the rest waits in the send buffer
            while len(received) < size:
                d = peer.recv(256 * 1024)
                if not d:
                    break
                received.extend(d)
        except OSError as exc:
            err.append(repr(exc))
        reader_done.set()
    threading.Thread(target=reader, daemon=True).start()
    result = []
    finished = threading.Event()

    def sender():
        result.append(conn.send_data(payload))
        reported.set()
        finished.set()
    threading.Thread(target=sender, daemon=True).start()
    if not M.wait_event(finished, bound):
        reported.set()
        res.violate("loopback-send-hang", f"send_data() did not return within {bound:.0f} s although the peer reads", case, None, result)
        return
    M.wait_event(reader_done, stall + 20)
    res.count(("stalled-peer", size, t8, stall), sample={"op": "active transport: send reported, peer stalls longer than T8, then reads on", **case,
                                                         "send_data": result, "peer_read": len(received)})
    res.bump("stalled_peer", f"send_data={result} complete={bytes(received[:size]) == payload}")
    if result == [True] and bytes(received[:size]) != payload:
        good = 0
        while good < min(len(received), size) and received[good] == payload[good]:
            good += 1
        res.violate("stall-discards-accepted-bytes", f"send_data returned True; the peer did not read for {stall} s (T8 = {t8} s) and then read on: "
                    "it did not get all bytes of that send (the connection was given up on a peer that was only slow)", case, size,
                    {"peer_read": len(received), "correct_prefix": good, "reader_error": err})
    threading.Thread(target=conn.disable, daemon=True).start()
    peer.close()
    srv.close()


def send_message_once_case(res, rng):
    """A write that fails after part of the frame was accepted, while the next write would succeed (scripted socket: accept k, error,
    then accept everything).  Either `send_message` reports failure, or — if it reports success — the peer has received exactly the bytes of
    the message once: never a torn frame followed by the whole frame with success reported."""
    for k in (0, 5, 13):
        s = TcpSettings(connect_mode=secsgem.hsms.HsmsConnectMode.PASSIVE)
        p = secsgem.hsms.HsmsProtocol(s)
        conn = p._connection
        toks = (["a%d" % k] if k else []) + ["e"] + ["a100000"] * 6
        conn._sock = FakeSock(toks)
        p._thread.start()                      # receiver + dispatcher threads only: nothing else writes to the scripted socket
        msg = secsgem.hsms.HsmsMessage(secsgem.hsms.HsmsStreamFunctionHeader(rng.range(1, 2**32 - 1), 1, 13, True, 0), rng.bytes(20))
        frame = msg.blocks[0].encode()
        out, done = [], threading.Event()
        threading.Thread(target=lambda: (out.append(p.send_message(msg)), done.set()), daemon=True).start()
        finished = M.wait_event(done, 5)
        wire = bytes(conn._sock.got)
        case = {"kind": "send-message-once", "oracle": toks[:4], "frame": frame.hex()}
        res.count(("send-message-once", k), sample={"op": "send_message, first write fails after k bytes, next would succeed", "k": k, "result": out[:1], "wire_len": len(wire)} if k == 5 else None)
        res.bump("send_message_once", f"k={k} result={out[:1]}")
        if not finished:
            res.violate("send-message-hang", "send_message did not return within 5 s on a scripted socket that answers every call", case, None, out)
        elif out[0] is True and wire != frame:
            res.violate("send-message-torn-frame", "send_message returned True, but the bytes on the wire are not exactly the message once "
                        "(a torn frame precedes / duplicates it)", case, frame.hex(), wire.hex())
        elif out[0] is False and not frame.startswith(wire):
            res.violate("send-message-torn-frame", "send_message returned False, but more than a prefix of the message is on the wire", case,
                        frame.hex(), wire.hex())
        p._thread._stop_receiver_thread = True
        p._thread.trigger_receiver()


def one_way_send_case(res):
    """`send_stream_function` of a function that needs no reply (S6F12, S1F2): the transport fails the write — the caller must be told
    (False), exactly as for a function that is answered."""
    import secsgem.secs.functions as F
    for name, fn in (("S6F12", F.SecsS06F12(0)), ("S1F2", F.SecsS01F02())):
        s, p, c = M.new_protocol()
        c.send_result = False
        p._thread.start()
        out, done = [], threading.Event()
        threading.Thread(target=lambda: (out.append(p.send_stream_function(fn)), done.set()), daemon=True).start()
        finished = M.wait_event(done, 5)
        case = {"kind": "one-way-send", "function": name, "send_data": "returns False"}
        res.count(("one-way-send", name), sample={"op": "send_stream_function without reply, transport fails", "function": name, "result": out[:1]} if name == "S6F12" else None)
        res.bump("one_way_send", f"{name} result={out[:1]}")
        if finished and out and out[0] is not False:
            res.violate("send-true-on-failure", f"send_stream_function({name}) returned {out[0]!r} although the connection's send_data returned False",
                        case, False, out[0])
        elif not finished:
            res.violate("send-message-hang", "send_stream_function did not return within the bound", case)
        p._thread._stop_receiver_thread = True
        p._thread.trigger_receiver()


def interleaved_writer_case(res, rng, size=200 * 1024):
    """A message larger than the socket buffers goes to a slowly draining peer (many partial writes) while another thread sends
    Linktest.req.  Whatever the timing: the byte stream the peer reads has to be a concatenation of WHOLE frames — the data frame intact, the
    control frames before or after it, never inside it."""
    sk = socket.socket()
    sk.bind(("127.0.0.1", 0))
    port = sk.getsockname()[1]
    sk.close()
    p = secsgem.hsms.HsmsProtocol(secsgem.hsms.HsmsSettings(address="127.0.0.1", port=port, connect_mode=secsgem.hsms.HsmsConnectMode.PASSIVE, t6=1))
    p.enable()
    case = {"kind": "interleaved-writer", "size": size}
    peer = socket.socket()
    peer.setsockopt(socket.SOL_SOCKET, socket.SO_RCVBUF, 16 * 1024)
    end = time.monotonic() + M.bound(3.0)
    while True:
        try:
            peer.connect(("127.0.0.1", port))
            break
        except OSError:
            if time.monotonic() >= end:
                res.violate("loopback-listen", "passive endpoint does not accept a connection", case)
                return
            time.sleep(0.05)
    M.wait_until(lambda: p._connection._sock is not None and p._connection._thread_running, 5.0)
    p._connection._sock.setsockopt(socket.SOL_SOCKET, socket.SO_SNDBUF, 16 * 1024)       # capacity only: forces partial writes
    body = rng.bytes(size)
    msg = secsgem.hsms.HsmsMessage(secsgem.hsms.HsmsStreamFunctionHeader(4711, 7, 3, False, 0), body)
    frame = msg.blocks[0].encode()
    received = bytearray()
    stop = threading.Event()

    def reader():
        peer.settimeout(0.2)
        while not stop.is_set():
            try:
                d = peer.recv(8 * 1024)
            except OSError:
                continue
            if not d:
                break
            received.extend(d)
            time.sleep(0.004)
    threading.Thread(target=reader, daemon=True).start()
    result, sent_done = [], threading.Event()
    threading.Thread(target=lambda: (result.append(p.send_message(msg)), sent_done.set()), daemon=True).start()
    M.wait_until(lambda: len(received) > 20000, 10.0)                     # the large frame is on its way, partially written
    lt_done = threading.Event()

    def linktests():
        for _ in range(3):
            p.send_linktest_req()                                         # T6 = 1 s: returns without an answer
        lt_done.set()
    threading.Thread(target=linktests, daemon=True).start()
    ok_send = M.wait_event(sent_done, 60)
    M.wait_event(lt_done, 20)
    M.wait_until(lambda: len(received) >= len(frame) + 3 * 14, 10.0)
    stop.set()
    raw = bytes(received)
    # parse into whole frames
    frames, i, broken = [], 0, None
    while i < len(raw):
        if len(raw) - i < 14:
            broken = f"{len(raw) - i} stray bytes at offset {i}"
            break
        n = int.from_bytes(raw[i:i + 4], "big") + 4
        if n < 14 or n > len(frame) or i + n > len(raw) or raw[i + 9] not in (0, 5):
            broken = f"no whole frame at offset {i} (length field {n - 4}, SType byte {raw[i + 9]})"
            break
        frames.append(raw[i:i + n])
        i += n
    res.count(("interleaved-writer", size), sample={"op": "large send to a slow peer + Linktest.req from another thread", "size": size,
                                                   "send_message": result, "frames_read": [len(f) for f in frames][:6]})
    res.bump("interleaved_writer", f"send_message={result} whole_frames={broken is None and frame in frames}")
    if not ok_send:
        res.violate("loopback-send-hang", "send_message of the large frame did not return within the bound although the peer reads", case)
    elif result == [True] and (broken is not None or frames.count(frame) != 1):
        res.violate("frames-interleaved", "send_message returned True for the large frame, but the peer's byte stream is not a concatenation of "
                    "whole frames with that frame in it exactly once (another writer's bytes landed between its partial writes)", case,
                    "whole frames", {"parse": broken, "frame_lengths": [len(f) for f in frames][:8], "bytes_read": len(raw), "frame_len": len(frame)})
    threading.Thread(target=p.disable, daemon=True).start()
    peer.close()


def send_message_truthful_case(res):
    """`Protocol.send_message` may say True only for blocks that were sent: a send that is still in progress after T3 (1 s here) and then
    fails must not have been reported as successful in the meantime."""
    s, p, c = M.new_protocol(t3=1)
    release = threading.Event()

    def slow_failing_send(data):
        release.wait(2.5)
        return False
    c.send_data = slow_failing_send
    c.on_connected({"source": c})
    out = []
    done = threading.Event()
    msg = secsgem.hsms.HsmsMessage(secsgem.hsms.HsmsLinktestRspHeader(77), b"")
    t0 = time.monotonic()
    threading.Thread(target=lambda: (out.append(p.send_message(msg)), out.append(round(time.monotonic() - t0, 2)), done.set()), daemon=True).start()
    finished = M.wait_event(done, 6)
    case = {"kind": "send-message-truthful", "t3": 1, "send_data": "pending 2.5 s, then False"}
    res.count(("send-message-truthful",), sample={"op": "send_message while send_data is pending beyond T3, then fails", "result": out})
    res.bump("send_message_truthful", str(out[:1]))
    if finished and out and out[0] is True:
        res.violate("send-message-true-unsent", "send_message returned True although the block's send_data had not finished (and then failed): "
                    "success reported for bytes that were never sent", case, False, out)
    elif not finished:
        res.violate("send-message-hang", "send_message did not return within 6 s although send_data returned after 2.5 s", case, False, out)


def loopback_part(res, rng, big):
    close_after_send_case(res, rng, (3 if big else 2) * 1024 * 1024 + 5)
    stalled_peer_case(res, rng, 1024 * 1024 + 5, t8=1, stall=2.5)
    if big:
        stalled_peer_case(res, rng, 2 * 1024 * 1024 + 5, t8=5, stall=7.0)      # the default T8
    cid = 0
    if big:
        plans = []
        for pacing in ("immediate", "delayed", "1-byte"):
            plans.append(([1, 2, 3, 1000, 65535, 65536, 65537], pacing, 4096))
            plans.append(([1048575, 1048576, 1048577], pacing, 0))
            plans.append(([8 * 1024 * 1024], pacing, 0))
            plans.append(([2 * 1024 * 1024 + 7, 1], pacing, 65536))      # send_data hex-formats the whole data per iteration: keep iterations x size bounded
            plans.append(([rng.range(1, 300000) for _ in range(8)], pacing, rng.choice([0, 2048, 65536])))
    else:
        plans = [([1, 2, 1000, 70000], "immediate", 4096), ([120000, 5], "delayed", 4096), ([1, 40000, 1], "1-byte", 4096), ([1048577], "immediate", 0)]
    for sizes, pacing, sndbuf in plans:
        loopback_case(res, rng, sizes, pacing, sndbuf, cid)
        cid += 1


def replay_cases(res, violations):
    for v in violations:
        case = v.get("case") or {}
        if case.get("kind") == "send":
            data = bytes.fromhex(case["data"])
            outcome, got, rest = real_send(data, case["oracle"])
            check_send(res, data, case["oracle"], outcome, got, case)
            res.count(("replay", data, tuple(case["oracle"])))


def main():
    a = hlib.std_args()
    recorded = M.apply_replay(a)
    res = hlib.Result("C10", a.tier, a.seed)
    rng = hlib.Rng(a.seed ^ 0xC10)
    drv = M.Driver()
    big = a.tier == "thorough" or a.search
    res.rule = ("send_data on a scripted socket: every oracle sequence over {accept 1/2/3/5, EWOULDBLOCK, error, select time-out} up to length 5 "
                "(thorough 6) x several data lengths (exhaustive) + random longer oracles with accept sizes around the data length; "
                "_process_send_queue with packet sizes 1..16 over 1-3 blocks and random oracles, one block just above the real packet size; "
                "real loopback pairs with a small SO_SNDBUF and immediate / delayed / small-read peers (thorough: up to 8 MiB). "
                "distinct = distinct (data, oracle); non-trivial = the oracle is not empty")
    import types
    tcp_mod.select = types.SimpleNamespace(select=fake_select)      # only the name `select` inside secsgem.common.tcp_connection
    try:
        if recorded:
            replay_cases(res, recorded)
        M.guarded(res, "fake", lambda: fake_part(res, rng.fork("fake"), drv, big))
        M.guarded(res, "queue", lambda: queue_part(res, rng.fork("queue"), drv, big))
        M.guarded(res, "send once", lambda: send_message_once_case(res, rng.fork("once")))
    finally:
        tcp_mod.select = REAL_SELECT_MODULE
    M.guarded(res, "send_message", lambda: send_message_truthful_case(res))
    M.guarded(res, "one-way send", lambda: one_way_send_case(res))
    M.guarded(res, "interleaved writer", lambda: interleaved_writer_case(res, rng.fork("ilw")))
    M.guarded(res, "loopback", lambda: loopback_part(res, rng.fork("loop"), big))
    res.notes.append("the scripted socket raises a BaseException when its oracle is exhausted: that run is 'pending' (the real loop would go on)")
    res.notes.append("kernel TCP (bytes accepted by send() arrive once, in order) is assumed by the theorems and exercised only by the loopback part")
    res.dump(a.out)
    sys.stdout.flush()
    os._exit(0)


if __name__ == "__main__":
    main()
