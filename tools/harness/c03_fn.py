"""C03 (part b) — the value round trip of every catalogued stream/function against `Model.Fn` (driver domain `fn`).

Called from tools/harness/c03.py:   import c03_fn;  c03_fn.run(res, rng.fork("fn"), drv, a.tier)

Correspondence (C), real classes vs the Lean model:
  * `fn struct s f`  — the codec structure `structOf` derives from the generated SFDL text and data item table, against the
                       variable tree the live class builds (`cls().data`: Dynamic type lists, leaf types, counts, arrays, records);
  * `fn enc s f v`   — `cls(value).encode()` for type-directed conforming values (every alternative type of every Dynamic item,
                       list lengths 0/1/2/n, count limits at count and count+1);
  * `fn dec s f b`   — `StreamsFunctions().decode(message)` looked up by the header numbers only: valid bodies, truncations, bodies of
                       other functions, random bytes, empty body, unknown numbers;
  * `fn match/setget`— `Dynamic(types, count)._match_type(p)` and `set(p); get()` for plain scalars over every distinct type list
                       of the data item table.
Direct oracle (O): `decode(header numbers, cls(value).encode())` is an object of the same class holding an equal value
(class `fn-roundtrip`).
"""
from __future__ import annotations

import os
import sys
import types

sys.path.insert(0, os.path.dirname(os.path.abspath(__file__)))
import codeclib as K  # noqa: E402
from codeclib import hlib, V  # noqa: E402

from secsgem.secs.functions import StreamsFunctions  # noqa: E402
from secsgem.secs.functions._all import secs_streams_functions  # noqa: E402
from secsgem.secs.variables import functions as vfunctions  # noqa: E402
import secsgem.secs.data_items as D  # noqa: E402


def tag_of_cls(c) -> str:
    if c is V.Array:
        return "ARR"
    for cls, name in K.NAME_OF_VARCLS.items():
        if c is cls:
            return name
    raise KeyError(c)


def struct_of_obj(obj):
    """codec structure of a live variable tree"""
    if isinstance(obj, V.Dynamic):
        return ("dyn", [tag_of_cls(c) for c in (obj.types or [])], obj.count)
    if isinstance(obj, V.Array):
        return ("arr", struct_of_obj(vfunctions.generate(obj.item_decriptor)), obj.count)
    if isinstance(obj, V.List):
        return ("rec", [struct_of_obj(obj.data[k]) for k in obj.data])
    for cls, name in K.NAME_OF_VARCLS.items():
        if isinstance(obj, cls):
            return ("leaf", name, obj.count)
    raise TypeError(type(obj))


def gen_len(rng, t, count, over=False):
    """element count of a leaf under a count limit (text/binary: 0 < count < len rejects; others: 0 <= count < len rejects)"""
    textual = t in ("A", "J", "B")
    limited = count > 0 if textual else count >= 0
    if not limited:
        return rng.choice([0, 1, 2, 3, rng.range(0, 12)])
    if over:
        return count + 1
    return rng.choice([count, count, max(count - 1, 0), 0, rng.range(0, count)])


def gen_for(rng, s, depth=0, allow_nested=False, over=None):
    """a value conforming to structure s; `over` = [flag]: make ONE leaf exceed its count limit (non-conforming input)"""
    k = s[0]
    if k == "leaf":
        ov = bool(over and over[0] and (s[2] > 0 or (s[2] == 0 and s[1] not in ("A", "J", "B"))))
        if ov:
            over[0] = False
        return (s[1], K.gen_elems(rng, s[1], gen_len(rng, s[1], s[2], ov), "finite"))
    if k == "dyn":
        tags = s[1] or [g for g in K.LEAVES if g != "J"]
        leaf_tags = [g for g in tags if g != "ARR"]
        if allow_nested and "ARR" in tags and depth < 3 and rng.chance(1, 4):
            return ("L", [gen_for(rng, ("any",), depth + 1, True) for _ in range(rng.below(3))])
        t = rng.choice(leaf_tags)
        return gen_for(rng, ("leaf", t, s[2]), depth, over=over)
    if k == "any":
        if allow_nested and depth < 3 and rng.chance(1, 4):
            return ("L", [gen_for(rng, ("any",), depth + 1, True) for _ in range(rng.below(3))])
        return K.gen_leaf(rng, rng.choice([g for g in K.LEAVES if g != "J"]), flavour="finite", maxlen=6)
    if k == "arr":
        n = rng.choice([0, 1, 2, 3]) if depth else rng.choice([0, 1, 2, 5])
        return ("L", [gen_for(rng, s[1], depth + 1, allow_nested, over) for _ in range(n)])
    return ("L", [gen_for(rng, f, depth + 1, allow_nested, over) for f in s[1]])


def plain_for(s, v):
    """the constructor argument standing for v: typed objects for Dynamic items, plain lists / str / bytes elsewhere"""
    k = s[0]
    t, xs = v
    if k == "leaf":
        return K.leaf_payload(t, xs) if t != "B" else bytes(xs)
    if k in ("dyn", "any"):
        return K.VARCLS[t](K.leaf_payload(t, xs) if t != "B" else bytes(xs))
    if k == "arr":
        return [plain_for(s[1], x) for x in xs]
    return [plain_for(f, x) for f, x in zip(s[1], xs)]


def has_nested(s, v):
    k = s[0]
    t, xs = v
    if k in ("dyn", "any"):
        return t == "L"
    if k == "arr":
        return any(has_nested(s[1], x) for x in xs)
    if k == "rec":
        return any(has_nested(f, x) for f, x in zip(s[1], xs))
    return False


def message(stream, function, body):
    return types.SimpleNamespace(header=types.SimpleNamespace(stream=stream, function=function), data=body)


def real_decode(sf, stream, function, body):
    def f():
        fn = sf.decode(message(stream, function, body))
        if fn.data is None:
            return f"{type(fn).__name__} header-only"
        return f"{type(fn).__name__} {K.show_obj(fn.data)}"
    return K.impl(f)


SCALARS = None


def scalar_pool(rng):
    ints = [0, 1, -1, 2, 127, 128, 255, 256, -128, -129, 65535, 65536, 2 ** 31 - 1, 2 ** 31, 2 ** 32, 2 ** 63 - 1, 2 ** 63, 2 ** 64 - 1, 2 ** 64,
            -(2 ** 63), -(2 ** 63) - 1, 10 ** 30, 2 ** 128, int(K.b2f(K.FLT_MAX64)), int(K.b2f(K.FLT_MAX64)) + 1, 12345]
    out = [("int", n) for n in ints] + [("bool", 0), ("bool", 1), ("none",)]
    out += [("float", b) for b in K.F64_SPECIAL[:9] + [K.FLT_MAX64, K.FLT_MAX64 + 1, K.DBL_MAX64, 0x4004000000000000] + K.NANS[:2] + K.INFS]
    for s in ("", "a", "abc", "12", "-5", "300", "TRUE", "no", "x" * 21, "é", "€", "1.5"):
        out.append(("str", [ord(c) for c in s]))
    for b in (b"", b"a", b"12", b"\xff\x00", b"abcd" * 6):
        out.append(("bytes", list(b)))
    for _ in range(10):
        out.append(("int", rng.range(-(2 ** rng.range(1, 70)), 2 ** rng.range(1, 70))))
    return out


def py_modelled(tags, count, p):
    """mirrors the `unmodelled` answers of Model.Fn.supportsScalar for the types the search may reach (conservative)"""
    k = p[0]
    if k not in ("int", "bool", "float", "str", "bytes", "none"):
        return False
    for g in tags:
        if g == "ARR":
            continue
        if g in ("F4", "F8") and k in ("str", "bytes"):
            return False
        if g in ("A", "J") and k == "float" and count > 0:
            return False
    return True


def run(res, rng, drv, tier):
    big = tier == "thorough"
    sf = StreamsFunctions()
    classes = list(secs_streams_functions)

    # ------------------------------------------------------------------ structure of every function
    cases, lines, answers = [], [], []
    structs = {}
    for cls in classes:
        obj = cls()
        if obj.data is None:
            ans = "ok header-only"
        else:
            st = struct_of_obj(obj.data)
            structs[cls] = st
            ans = "ok " + K.show_struct(st)
        cases.append(cls.__name__)
        lines.append(f"fn struct {cls.stream} {cls.function}")
        answers.append(ans)
        res.count(("fn-struct", cls.__name__))
    hlib.compare_batch(res, drv, "variable tree of cls() vs Model.Fn.structOf (Gen.Catalogue text + Gen.DataItems)", cases, lines, answers)
    res.exhaustive_parts.append(f"codec structure of all {len(classes)} catalogued functions against the live classes")

    # ------------------------------------------------------------------ encode / decode of conforming values
    cases, lines, answers = [], [], []
    dcases, dlines, danswers = [], [], []
    encoded = []
    per = 10 if big else 3
    for cls in classes:
        s, f = cls.stream, cls.function
        if cls not in structs:
            cases.append(cls.__name__)
            lines.append(f"fn enc {s} {f} -")
            answers.append(K.impl(lambda cls=cls: hlib.hexs(cls().encode())))
            for body in (b"", b"\x01\x00", rng.bytes(3)):
                dcases.append({"fn": cls.__name__, "body": body.hex()})
                dlines.append(f"fn dec {s} {f} {K.data_tokens(body)}")
                danswers.append(real_decode(sf, s, f, body))
            res.count(("fn-header-only", cls.__name__))
            continue
        st = structs[cls]
        for i in range(per):
            v = gen_for(rng, st, allow_nested=(i == per - 1))
            case = {"kind": "fn", "fn": cls.__name__, "val": K.show_val(v)[:300]}
            res.count(("fn-val", cls.__name__, K.show_val(v)), sample={"op": "function round trip", "fn": cls.__name__, "val": K.show_val(v)[:100]} if len(encoded) % 97 == 0 else None)
            res.bump("fn_value_depth", K.depth_of(v))
            if has_nested(st, v):
                enc = K.own_encode(v)          # a list under a Dynamic cannot be given as a plain value (open finding of c03.py): wire only
            else:
                try:
                    enc = cls(plain_for(st, v)).encode()
                except Exception as exc:  # noqa: BLE001
                    res.violate("fn-ctor-raises", f"{cls.__name__} refused a value conforming to its structure: {type(exc).__name__}: {exc}", case)
                    continue
                cases.append(case)
                lines.append(f"fn enc {s} {f} {K.send_val(v)}")
                answers.append("ok " + hlib.hexs(enc))
                if enc != K.own_encode(v):
                    res.violate("fn-encode-not-E5", f"{cls.__name__}(value).encode() differs from the E5 bytes of the value", case, K.own_encode(v).hex()[:200], enc.hex()[:200])
            encoded.append((cls, enc))
            # oracle: found by the header numbers only, same class, equal value
            try:
                back = sf.decode(message(s, f, enc))
                ok = type(back) is cls and K.val_of_var(back.data) == K.norm_val(v)
                got = K.show_obj(back.data)[:200]
            except Exception as exc:  # noqa: BLE001
                ok, got = False, f"{type(exc).__name__}: {exc}"
            if not ok:
                res.violate("fn-roundtrip", f"S{s}F{f}: the body of a conforming value does not decode to the same function with an equal value",
                            case, K.show_val(K.norm_val(v))[:200], got)
            dcases.append({"fn": cls.__name__, "body": enc.hex()[:200]})
            dlines.append(f"fn dec {s} {f} {K.data_tokens(enc)}")
            danswers.append(real_decode(sf, s, f, enc))
        # one value that breaks a count limit (if the structure has one): both sides must refuse / answer alike
        ov = [True]
        v = gen_for(rng, st, over=ov)
        if not ov[0]:
            enc = K.own_encode(v)
            dcases.append({"fn": cls.__name__, "body": enc.hex()[:200], "over_count": True})
            dlines.append(f"fn dec {s} {f} {K.data_tokens(enc)}")
            danswers.append(real_decode(sf, s, f, enc))
            res.bump("fn_over_count", danswers[-1].split()[0] if danswers[-1].startswith("ok") else danswers[-1])
    hlib.compare_batch(res, drv, "cls(value).encode() vs Model.Fn.encode", cases, lines, answers)

    # a function object given a second value (set(), and field by field through attribute assignment) holds exactly the second value
    for cls in classes:
        if cls not in structs:
            continue
        st = structs[cls]
        v1, v2 = gen_for(rng, st), gen_for(rng, st)
        if has_nested(st, v1) or has_nested(st, v2):
            continue
        case = {"kind": "fn-settwice", "fn": cls.__name__, "v1": K.show_val(v1)[:200], "v2": K.show_val(v2)[:200]}
        res.count(("fn-settwice", cls.__name__, K.show_val(v1), K.show_val(v2)))
        try:
            want = cls(plain_for(st, v2)).encode()
            fn = cls(plain_for(st, v1))
        except Exception:  # noqa: BLE001
            continue
        try:
            fn.set(plain_for(st, v2))
            got = fn.encode()
        except Exception as exc:  # noqa: BLE001
            got = f"{type(exc).__name__}: {exc}".encode()
        if got != want:
            res.violate("fn-set-twice-stale", f"{cls.__name__}: set(v2) on an object built from v1 does not leave v2", case, want.hex()[:200], got.hex()[:200])
        if st[0] == "rec":
            try:
                fn = cls(plain_for(st, v1))
                for key, f, x in zip(list(fn.data.data.keys()), st[1], v2[1]):
                    if f[0] in ("dyn", "any"):
                        fn.data.data[key].set(plain_for(f, x))
                    else:
                        setattr(fn, key, plain_for(f, x))
                got = fn.encode()
            except Exception as exc:  # noqa: BLE001
                got = f"{type(exc).__name__}: {exc}".encode()
            if got != want:
                res.violate("fn-set-twice-stale", f"{cls.__name__}: assigning the fields of v2 to an object built from v1 does not leave v2", case, want.hex()[:200], got.hex()[:200])

    # malformed bodies / foreign bodies / unknown numbers
    for cls, enc in rng.shuffle(encoded)[: (400 if big else 120)]:
        s, f = cls.stream, cls.function
        other_cls, other = rng.choice(encoded)
        for body in (enc[: rng.below(len(enc))], other, enc + b"\x00", b"", rng.bytes(rng.choice([1, 2, 4, 7]))):
            dcases.append({"fn": cls.__name__, "body": body.hex()[:200]})
            dlines.append(f"fn dec {s} {f} {K.data_tokens(body)}")
            danswers.append(real_decode(sf, s, f, body))
    for s, f in ((99, 1), (1, 99), (0, 1), (127, 255), (1, 4), (6, 11)):
        body = rng.bytes(2)
        dcases.append({"stream": s, "function": f})
        dlines.append(f"fn dec {s} {f} {K.data_tokens(body)}")
        danswers.append(real_decode(sf, s, f, body))
    for a in danswers:
        res.bump("fn_decode_outcome", "ok" if a.startswith("ok") else a)
    hlib.compare_batch(res, drv, "StreamsFunctions.decode(header numbers, body) vs Model.Fn.decode", dcases, dlines, danswers)
    res.evaluations += len(dlines)

    # ------------------------------------------------------------------ Dynamic._match_type / set / get on plain scalars
    type_lists = []
    for name in dir(D):
        c = getattr(D, name)
        if isinstance(c, type) and issubclass(c, D.DataItemBase) and c is not D.DataItemBase and getattr(c, "__type__", None) is V.Dynamic:
            key = (tuple(tag_of_cls(t) for t in (c.__allowedtypes__ or [])), c.__count__)
            if key not in type_lists:
                type_lists.append(key)
    type_lists += [((), -1), (("A", "U1"), 3), (("U1", "A"), 2), (("BOOLEAN", "U1"), -1), (("U1", "BOOLEAN"), -1), (("B", "A"), 4), (("F4", "U8"), -1)]
    pool = scalar_pool(rng)
    mlines, manswers, mcases = [], [], []
    for tags, count in type_lists:
        clss = [V.Array if g == "ARR" else K.VARCLS[g] for g in tags]
        near = [q for q in K.boundary_values(count) if q[0] in ("bytes", "str", "int", "bool")] if count > 0 else []
        for p in (pool if big else rng.shuffle(pool)[:28]) + near:
            if not py_modelled(tags or [g for g in K.LEAVES if g != "J"], count, p):
                continue
            x = K.py_real(p)

            def fm(clss=clss, count=count, x=x):
                mt = V.Dynamic(list(clss), count=count)._match_type(x)
                return "none" if mt is None else tag_of_cls(mt)

            def fs(clss=clss, count=count, x=x):
                d = V.Dynamic(list(clss), count=count)
                d.set(x)
                return f"{tag_of_cls(type(d.value))} {K.show_py(K.py_of_real(d.get()))}"
            head = f"{count}" + "".join(" " + g for g in tags) + " | " + K.show_py(p)
            for op, fn_ in (("match", fm), ("setget", fs)):
                mcases.append({"types": list(tags), "count": count, "value": K.show_py(p)[:120], "op": op})
                mlines.append(f"fn {op} {head}")
                manswers.append(K.impl(fn_))
    if drv.available and mlines:
        res.driver_used = True
        outs = drv.run(mlines)
        n_un = 0
        for case, line, m, i in zip(mcases, mlines, outs, manswers):
            m = hlib.strip_branch(m)
            if m == "unmodelled":
                n_un += 1
                continue
            res.traces_validated += 1
            res.count(("fn-match", line))
            if m != i:
                res.disagree("Dynamic._match_type / set / get on plain scalars vs Model.Fn.matchType / setGet", {"case": case, "line": line[:400]}, m[:300], i[:300])
        res.bump("fn_match", "unmodelled (skipped)", n_un)
        res.bump("fn_match", "compared", len(mlines) - n_un)
