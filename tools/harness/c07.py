"""C07 — GEM communication state follows the E30 establish-communications model.

REAL `GemHostHandler` / `GemEquipmentHandler` over a real `HsmsProtocol` on an in-memory connection (tools/harness/gemrig.py);
T3 and the establish-communications delay are fired by the harness (fake `threading.Timer` in the module namespace).
Each history is a list of letters of the alphabet
    en dis sel lost t3 dly  rx S1F13  rx S1F14{matching|old|foreign system bytes} x COMMACK{0,1,63,undecodable}  rx other
    con (the transport connection comes up without a Select: connected but not selected)  cfg (the configured delay changes)
After each letter: bounded wait for quiescence, then the communication state, the timers, the frames written, the callbacks
invoked, the `handler_communicating` events and the `WrongSourceStateError`s raised are recorded.
  (C) the same history goes to the Lean model (`gemcomm run …`) and the per-step records are compared;
  (O) the four clauses of the property text are evaluated on the recorded history of the implementation.
"""
from __future__ import annotations

import json
import os
import sys
import threading
import time

sys.path.insert(0, os.path.dirname(os.path.abspath(__file__)))
import gemrig  # noqa: E402
from gemrig import Rig, Stuck  # noqa: E402
import hlib  # noqa: E402

import secsgem.common  # noqa: E402
import secsgem.gem  # noqa: E402
import secsgem.secs  # noqa: E402

EN, DIS, SEL, LOST, T3, DLY = ("en",), ("dis",), ("sel",), ("lost",), ("t3",), ("dly",)
FAIL = ("fail",)  # fault: the socket refuses the next write (send_data returns False once)
CON = ("con",)  # the transport connection comes up, no Select.req yet (connected but not selected)
CFG = ("cfg",)  # the application changes the configured establish-communications delay (public settings setter)
RX13 = ("rx", 1, 13, 1, "in", None)
RX13Z = ("rx", 1, 13, 1, "zero", None)  # system bytes 0x00000000
DELAYS = [3, 0.8, 17, 0, 2.5, 10, 1, 25]
ENSEL = ("ensel",)  # enable() on a transport that brings the link up (connected + selected) before enable() returns


def setcfg(value, what="delay", via="settings"):
    """the application sets a timer setting after construction: through the settings object it passed in, or through
    `handler.settings`; what: delay (public property) | t3 (attribute of `settings.timeouts`)"""
    return ("cfg", value, what, via)


def init(delay, t3=None):
    """first letter of a history: the settings the handler is constructed with (None = not passed: the documented default)"""
    return ("init", delay, t3)


S1F17 = ("rx", 1, 17, 1, "in", None)  # Request ON-LINE: brings the equipment's control state ON-LINE (REMOTE)
USER_CB = (64, 1)  # an uncatalogued stream/function with a user callback (counts calls, returns None)
USER_CB9 = (9, 1)  # a stream-9 function (the peer's complaint about a message of ours) with a user callback
USER_CBS = [USER_CB, USER_CB9]


def rx14(kind, commack):
    return ("rx", 1, 14, 0, kind, commack)


# COMMACK of an inbound S1F14: a value, None = body that cannot be decoded, or a shape:
#   "empty"  <L <B> <L>>        zero-length COMMACK: `.get()` is b"" != 0, a refusal
#   "two"    <L <B 0 0> <L>>    two bytes where one is allowed: decode raises
#   "nolist" <L [0]>            no COMMACK at all: the default value is not 0, a refusal
SHAPES = {"empty": bytes.fromhex("010221000100"), "two": bytes.fromhex("0102210200000100"), "nolist": bytes.fromhex("0100")}


def commack_sem(c):
    """0 = accepted, None = undecodable (nothing happens), "refused" otherwise"""
    if c in (None, "two"):
        return None
    return 0 if c == 0 else "refused"


RX14_ALL = [rx14(k, c) for k in ("match", "old", "foreign") for c in (0, 1, 63, None)] + [rx14("match", c) for c in SHAPES] \
    + [rx14("foreign", "empty")]
RX14_KEY = [rx14("match", 0), rx14("match", 1), rx14("match", 63), rx14("foreign", 0), rx14("old", 0), rx14("match", "empty")]
OTHER = [("rx", 1, 1, 1, "in", None), ("rx", 1, 1, 0, "in", None), ("rx", USER_CB[0], USER_CB[1], 1, "in", None),
         ("rx", 99, 1, 1, "in", None), ("rx", 1, 3, 1, "in", None), ("rx", 1, 0, 0, "in", None),
         ("rx", USER_CB9[0], USER_CB9[1], 0, "in", None), ("rx", 9, 5, 0, "in", None)]
S9F1 = OTHER[6]


def letter_name(lt):
    if lt[0] == "with":
        return f"with({lt[1]}:{'_'.join(letter_name(tuple(x)) for x in lt[2])})"
    if lt[0] == "cfg" and len(lt) > 1:
        return f"cfg({lt[2]}={lt[1]},{lt[3]})"
    if lt[0] == "init":
        return f"init(delay={lt[1]},t3={lt[2]})"
    if lt[0] != "rx":
        return lt[0]
    s, f, w, kind, c = lt[1:]
    if (s, f) == (1, 14):
        return f"S1F14/{kind}/{'x' if c is None else c}"
    return f"S{s}F{f}{'W' if w else ''}"


def s1f14_body(commack):
    if commack is None:
        return b"\xff\xff"
    if commack in SHAPES:
        return SHAPES[commack]
    return secsgem.secs.functions.SecsS01F14({"COMMACK": commack, "MDLN": []}).encode()


class Run:
    """one history against one real handler"""

    def __init__(self, role, commack_req, delay=None, t3=None):
        self.rig = Rig(role, commack_req, user_cbs=USER_CBS, delay=delay, t3=t3)
        self.dead = False
        self.role, self.commack_req = role, commack_req
        self.sys2id: dict[int, int] = {}
        self.ids: list[int] = []  # real system bytes of the S1F13 seen on the wire, in order
        self.tokens: list[str] = []
        self.steps: list[dict] = []

    def timers(self):
        m = self.rig.h._communication_state
        t3, dl = m._wait_cra_timer, m._comm_delay_timer
        return (t3 is not None and t3.armed), (dl is not None and dl.armed)

    def resolve_sys(self, kind):
        """real and abstract system bytes of an inbound message"""
        n = self.rig.fresh()
        if kind == "match" and self.ids:
            return self.ids[-1], len(self.ids) - 1
        if kind == "old" and len(self.ids) >= 2:
            return self.ids[-2], len(self.ids) - 2
        if kind == "in":
            return Rig.INBOUND + n, Rig.INBOUND + n
        if kind == "zero":
            return 0, 0
        return Rig.FOREIGN + n, Rig.FOREIGN + n

    def apply(self, lt):
        rig = self.rig
        before = rig.comm()
        link_before = rig.link
        conn_before = rig.connected
        t3_b, dl_b = self.timers()
        mark = len(rig.log)
        token = lt[0]
        info = {}
        m = rig.h._communication_state
        timers_before = (id(m._wait_cra_timer), id(m._comm_delay_timer))
        if lt[0] in ("init", "with"):
            token = "cfg"  # settings given to the constructor / a second handler in the process; for the model: nothing happens
        elif lt[0] == "cfg":
            token = "cfg"
            if lt == CFG:
                self.ncfg = getattr(self, "ncfg", 0) + 1
                value, what, via = DELAYS[self.ncfg % len(DELAYS)], "delay", ("settings" if self.ncfg % 2 else "handler")
            else:
                _, value, what, via = lt
            target = rig.settings if via == "settings" else rig.h.settings
            if what == "delay":
                rig.configured_delay = value
                target.establish_communication_timeout = value
            else:
                rig.configured_t3 = value
                target.timeouts.t3 = value
        elif lt == ENSEL:
            rig.sync_enable = True
            try:
                rig.bounded(rig.h.enable, "enable()")
                token = "en+sel"
            except Stuck:
                raise
            except Exception as exc:  # noqa: BLE001  (not DISABLED: enable() raises before the transport is touched)
                info["raised"] = type(exc).__name__
                token = "en"
            finally:
                rig.sync_enable = False
        elif lt == EN:
            try:
                rig.bounded(rig.h.enable, "enable()")
            except Stuck:
                raise
            except Exception as exc:  # noqa: BLE001
                info["raised"] = type(exc).__name__
        elif lt == DIS:
            try:
                rig.bounded(rig.h.disable, "disable()")
            except Stuck:
                raise
            except Exception as exc:  # noqa: BLE001
                info["raised"] = type(exc).__name__
        elif lt == FAIL:
            rig.c.refuse = 1
        elif lt in (CON, SEL, LOST):
            try:
                {CON: rig.connect, SEL: rig.select, LOST: rig.lose}[lt]()
            except Stuck as exc:
                if lt != LOST:
                    raise
                # the connection reported the loss and the handler has not come back within the bound: the history ends here,
                # what is observable now is judged (the rig's helper thread is abandoned)
                info["wedged"] = str(exc)
                self.dead = True
            except Exception as exc:  # noqa: BLE001  (the protocol layer refuses the event: recorded, the history goes on)
                info["raised"] = type(exc).__name__
        elif lt in (T3, DLY):
            # the pending timer of that kind that was armed first fires (there is at most one unless a stale one was left behind)
            live = rig.timers("_on_wait_cra_timeout" if lt == T3 else "_on_wait_comm_delay_timeout")
            if live:
                info["fired_current"] = live[0] is (m._wait_cra_timer if lt == T3 else m._comm_delay_timer)
                if rig.fire(live[0]):
                    rig.log.append(("blk",))
        else:
            _, s, f, w, kind, c = lt
            real, abst = self.resolve_sys(kind)
            sem = commack_sem(c) if (s, f) == (1, 14) else c
            token = f"rx:{s}:{f}:{w}:{abst}:{'-' if sem is None else (256 if sem == 'refused' and not isinstance(c, int) else c)}"
            info["sys"] = abst
            if rig.connected:  # not selected: the protocol layer answers Reject.req, the handler sees nothing
                body = s1f14_body(c) if (s, f) == (1, 14) else b""
                rig.feed(rig.data_message(s, f, bool(w), real, body))
        # ---- observe, once nothing is in flight any more
        if not self.dead:
            rig.quiesce()
        outs = []
        for e in rig.frames(rig.log[mark:]):
            if e[0] == "frame":
                hd = e[1].header
                if hd.s_type.value != 0:
                    continue
                if (hd.stream, hd.function) == (1, 13):
                    if hd.system not in self.sys2id:
                        self.sys2id[hd.system] = len(self.ids)
                        self.ids.append(hd.system)
                    outs.append(("13", self.sys2id[hd.system]))
                elif (hd.stream, hd.function) == (1, 14):
                    fn = secsgem.secs.functions.SecsS01F14()
                    fn.decode(e[1].data)
                    ck = fn.COMMACK.get()
                    ck = ck if isinstance(ck, int) else int.from_bytes(bytes(ck), "big")
                    outs.append(("14", self.sys2id.get(hd.system, hd.system), ck))
                else:
                    info.setdefault("other_frames", []).append(f"S{hd.stream}F{hd.function}")
            elif e[0] in ("cb", "unk", "ws", "evt", "blk"):
                outs.append(tuple(e))
            elif e[0] == "refused":
                info["refused"] = info.get("refused", 0) + 1
        t3_a, dl_a = self.timers()
        # a timer armed by this step must carry the duration that is configured now
        if t3_a and id(m._wait_cra_timer) != timers_before[0]:
            info["t3_armed_with"] = (m._wait_cra_timer.interval, rig.configured_t3)
        if dl_a and id(m._comm_delay_timer) != timers_before[1]:
            info["delay_armed_with"] = (m._comm_delay_timer.interval, rig.configured_delay)
        # timers that are pending although the machine is not in their state, or that are not the one armed on entering it
        stale = [("T3", t) for t in rig.timers("_on_wait_cra_timeout") if rig.comm() != "WAIT_CRA" or t is not m._wait_cra_timer] + \
                [("delay", t) for t in rig.timers("_on_wait_comm_delay_timeout") if rig.comm() != "WAIT_DELAY" or t is not m._comm_delay_timer]
        if stale:
            info["stale_timers"] = [k for k, _ in stale]
        # what the application is told: waitfor_communicating() without waiting
        wfc = bool(rig.h.waitfor_communicating(0))
        st = {"letter": lt, "wfc": wfc, "before": before, "after": rig.comm(), "link_before": link_before, "link_after": rig.link,
              "conn_before": conn_before, "conn_after": rig.connected,
              "t3_before": t3_b, "dly_before": dl_b, "t3_after": t3_a, "dly_after": dl_a, "outs": outs,
              "queued": rig.p._send_queue.qsize(), "info": info}
        cs = rig.p.connection_state.current.name
        if (cs == "CONNECTED_SELECTED") != rig.link or (cs != "NOT_CONNECTED") != rig.connected:
            info["link_mismatch"] = cs
        self.tokens.append(token)
        self.steps.append(st)
        return st

    def close(self):
        self.rig.close()


def show_out(o):
    if o[0] == "13":
        return f"13.{o[1]}"
    if o[0] == "14":
        return f"14.{o[1]}.{o[2]}"
    if o[0] == "cb":
        return f"cb.{o[1]}.{o[2]}"
    if o[0] == "unk":
        return f"unk.{o[1]}.{o[2]}.{1 if o[3] else 0}"
    if o[0] == "ws":
        return f"ws.{o[1]}"
    return o[0]


def show_step(st):
    return (f"{st['after']}/{int(st['conn_after'])}{int(st['link_after'])}{int(st['t3_after'])}{int(st['dly_after'])}{int(st['wfc'])}/{st['queued']}:"
            + "+".join(show_out(o) for o in st["outs"]))


# ------------------------------------------------------------------------------------------------ direct oracle
FAULT_CLASSES = ("established-after-loss", "wedged", "handlers-not-isolated", "reported-established-wrongly", "callback-while-not-established", "stale-timer",
                 "event-without-establishment")


def oracle(steps):
    """The property text evaluated on a recorded history.  Returns [(class, what, step index)].
    In a history with a refused write only the clauses that do not speak about frames are judged."""
    bad = _oracle(steps)
    if any(st["letter"] == FAIL for st in steps):
        bad = [b for b in bad if b[0] in FAULT_CLASSES]
    return bad


def _oracle(steps):
    bad = []
    on_link: set[int] = set()  # ids of the S1F13 written on the current link
    last_id = None
    for i, st in enumerate(steps):
        lt, before, after, outs = st["letter"], st["before"], st["after"], st["outs"]
        ids = [o[1] for o in outs if o[0] == "13"]
        on_link_before = set(on_link)
        if lt in (SEL, CON) and not st["conn_before"]:
            on_link = set(ids)       # a new connection: what it writes first (the send queue) is written on it
        elif lt == LOST and st["conn_before"]:
            on_link = set()
        elif st["conn_after"]:
            on_link |= set(ids)
        entered = after == "COMMUNICATING" and before != "COMMUNICATING"
        # clause 1: established only after a completed S1F13/S1F14 exchange with COMMACK 0 on the current link
        if entered:
            ok, klass, why = False, "established-without-exchange", "COMMUNICATING entered without an S1F13/S1F14 exchange"
            if not st["link_after"]:
                why = "COMMUNICATING entered while the link is down"
            elif lt[0] == "rx" and (lt[1], lt[2]) == (1, 13):
                sent = [o for o in outs if o[0] == "14" and o[1] == st["info"]["sys"]]
                ok = any(o[2] == 0 for o in sent)
                if not ok and sent:
                    klass = "c07-commack-denied-still-communicating"
                    why = f"inbound S1F13 answered with S1F14 COMMACK={sent[0][2]}, communication reported as established all the same"
            elif lt[0] == "rx" and (lt[1], lt[2]) == (1, 14) and commack_sem(lt[5]) == 0:
                ok = st["info"]["sys"] in on_link_before
                if not ok:
                    klass = "c07-s1f14-system-unchecked"
                    why = ("S1F14 COMMACK=0 whose system bytes answer no S1F13 sent on the current link "
                           f"({lt[4]}) moved the handler to COMMUNICATING")
            if not ok:
                bad.append((klass, why, i))
        if ("evt",) in outs and not entered:
            bad.append(("event-without-establishment", "handler_communicating fired without entering COMMUNICATING", i))
        if after == "COMMUNICATING" and not st["link_after"]:
            bad.append(("established-after-loss", "COMMUNICATING while the link is down", i))
        # clause 3: loss of the link / disabling leaves the established state
        if (lt == DIS or (lt == LOST and st["conn_before"])) and after == "COMMUNICATING":
            bad.append(("established-after-loss", f"still COMMUNICATING after {lt[0]}"
                        + (f" (still so when the bounded wait ran out after the connection reported the loss; the handler is blocked in {st['info']['wedged']})"
                           if "wedged" in st["info"] else ""), i))
        elif "wedged" in st["info"]:
            bad.append(("wedged", f"the handler blocks for ever in {st['info']['wedged']}", i))
        # clause 2: an unanswered / refused attempt is retried after the delay, as long as the link stays up
        if st["link_after"]:
            if after == "WAIT_CRA" and not st["t3_after"]:
                bad.append(("no-retry", "WAIT_CRA with the link up and no reply timer pending", i))
            if after == "WAIT_DELAY" and not st["dly_after"]:
                bad.append(("no-retry", "WAIT_DELAY with the link up and no delay timer pending", i))
        if st["link_before"] and st["link_after"]:
            if lt == T3 and before == "WAIT_CRA" and st["t3_before"] and not (after == "WAIT_DELAY" and st["dly_after"]):
                bad.append(("no-retry", "reply timeout in WAIT_CRA did not start the establish-communications delay", i))
            if (lt[0] == "rx" and (lt[1], lt[2]) == (1, 14) and commack_sem(lt[5]) == "refused" and before == "WAIT_CRA"
                    and last_id is not None and st["info"]["sys"] == last_id and last_id in on_link_before
                    and not (after == "WAIT_DELAY" and st["dly_after"])):
                bad.append(("no-retry" if after != "COMMUNICATING" else "established-on-refusal",
                            f"S1F14 COMMACK={lt[5]} (refusal) in WAIT_CRA did not start the establish-communications delay", i))
            if lt == DLY and before == "WAIT_DELAY" and st["dly_before"] and not (after == "WAIT_CRA" and ids and st["t3_after"]):
                bad.append(("no-retry", "delay expiry in WAIT_DELAY did not send S1F13 again", i))
        elif st["conn_before"] and st["conn_after"] and lt == DLY and before == "WAIT_DELAY" and st["dly_before"] \
                and not (after == "WAIT_CRA" and ids and st["t3_after"]):
            bad.append(("no-retry", "delay expiry in WAIT_DELAY on a connected (not yet selected) link did not write S1F13 again", i))
        # what the application is told (waitfor_communicating) is the established state, nothing else
        if st["wfc"] != (after == "COMMUNICATING"):
            bad.append(("reported-established-wrongly", f"waitfor_communicating(0) returns {st['wfc']} in {after}", i))
        # every timer armed on entering WAIT_CRA / WAIT_DELAY is cancelled on leaving it; a retry happens only when the timer armed
        # for the current WAIT_DELAY fires
        if st["info"].get("stale_timers"):
            bad.append(("stale-timer", f"a {st['info']['stale_timers'][0]} timer armed in an earlier state is still pending in {after}", i))
        if lt == DLY and before == "WAIT_DELAY" and after == "WAIT_CRA" and st["info"].get("fired_current") is False:
            bad.append(("retry-before-configured-delay", "S1F13 retried by a delay timer left over from an earlier attempt, not by the one armed for this WAIT_DELAY", i))
        for key, what in (("delay_armed_with", "establish-communications delay"), ("t3_armed_with", "reply timeout T3")):
            if key in st["info"] and st["info"][key][0] != st["info"][key][1]:
                bad.append(("wrong-timer-duration", f"the timer armed for the {what} runs {st['info'][key][0]} s, configured are {st['info'][key][1]} s", i))
        # handlers of one process are independent of each other
        if "isolation" in st["info"]:
            bad.append(("handlers-not-isolated", st["info"]["isolation"], i))
        # no S1F13 between entering WAIT_DELAY and the expiry of the delay timer armed for it, whatever arrives in between (what a new
        # connection writes first is the send queue of earlier attempts, not a retry)
        if before == "WAIT_DELAY" and st["dly_before"] and lt != DLY and ids and not (lt in (SEL, CON, ENSEL) and not st["conn_before"]):
            bad.append(("retry-before-configured-delay", f"S1F13 written in WAIT_DELAY on {letter_name(lt)} while the establish-communications "
                        "delay timer is still pending", i))
        # the link came up, selected, while the handler was being enabled: the attempt must start (S1F13 written, reply timer pending)
        if lt == ENSEL and before == "DISABLED" and "raised" not in st["info"] and st["link_after"] and not st["link_before"] \
                and not (after == "WAIT_CRA" and ids and st["t3_after"]):
            bad.append(("no-attempt-after-enable", f"enable() on a transport that selects the link before it returns: no S1F13 was sent, state {after}", i))
        # clause 4: nothing is handed to the callbacks unless established
        if before != "COMMUNICATING":
            cbs = [o for o in outs if o[0] == "cb"]
            if cbs:
                bad.append(("callback-while-not-established", f"S{cbs[0][1]}F{cbs[0][2]} callback invoked in {before}", i))
        if ids:
            last_id = ids[-1]
    return bad


# ------------------------------------------------------------------------------------------------ histories
def history_tokens(role, commack_req, flags, tokens):
    return f"gemcomm run {role} {commack_req} {flags} {','.join(f'{a}.{b}' for a, b in USER_CBS)} " + ",".join(tokens)


def with_companion(role_b, letters_b):
    """first letter of a history: a second, independent handler lives in the same process and goes through `letters_b`,
    one letter after each letter of the history"""
    return ("with", role_b, [list(x) for x in letters_b])


def observables(r):
    m = r.rig.h._communication_state
    return (r.rig.comm(), bool(r.rig.h.waitfor_communicating(0)), r.timers(), id(m._wait_cra_timer), id(m._comm_delay_timer), len(r.rig.log))


def run_history(role, commack_req, letters):
    cfg = next((lt for lt in letters[:2] if lt[0] == "init"), ("init", None, None))
    comp = next((lt for lt in letters[:2] if lt[0] == "with"), None)
    r = Run(role, commack_req, delay=cfg[1], t3=cfg[2])
    b = Run(comp[1], 0) if comp else None
    r.companion = b
    script = [tuple(x) for x in comp[2]] if comp else []
    try:
        k = 0
        for lt in letters:
            if r.dead:
                break
            r.apply(lt)
            if b is not None and lt[0] not in ("with", "init") and k < len(script):
                # the other handler takes a step of its own; nothing observable of this one may change.  A caller blocked in
                # waitfor_communicating() of this handler must not be released by the other handler's establishment.
                before = observables(r)
                waiter = None
                if r.rig.comm() != "COMMUNICATING" and script[k][0] == "rx" and (script[k][1], script[k][2]) in ((1, 13), (1, 14)):
                    box = []
                    waiter = threading.Thread(target=lambda: box.append(r.rig.h.waitfor_communicating(0.1)), daemon=True)
                    n0 = len(getattr(r.rig.h, "_wait_event_list", ()))
                    waiter.start()
                    Rig.wait(lambda: len(getattr(r.rig.h, "_wait_event_list", (0,))) > n0 or not waiter.is_alive(), "waiter registered")
                b.apply(script[k])
                k += 1
                if waiter is not None:
                    waiter.join(gemrig.deadline())
                    if box and box[0] and r.rig.comm() != "COMMUNICATING":
                        r.steps[-1]["info"]["isolation"] = (f"waitfor_communicating(0.1) of this handler ({r.rig.comm()}) returned True when the "
                                                            f"other handler did {letter_name(script[k - 1])} and is {b.rig.comm()}")
                after = observables(r)
                if after != before and "isolation" not in r.steps[-1]["info"]:
                    r.steps[-1]["info"]["isolation"] = f"a step of the other handler ({letter_name(script[k - 1])}) changed this handler: {before[:3]} -> {after[:3]}"
    finally:
        r.close()
        if b is not None:
            b.close()
    return r


def detect_flags():
    """Which variant is the code?  (replays the witnesses of the two recorded findings)"""
    r = run_history("equipment", 0, [EN, SEL, rx14("foreign", 0)])
    sys_checked = r.steps[-1]["after"] != "COMMUNICATING"
    r = run_history("equipment", 1, [EN, SEL, RX13])
    gate = r.steps[-1]["after"] != "COMMUNICATING"
    return f"{int(sys_checked)}{int(gate)}"


BASES = [[], [EN], [EN, SEL], [EN, SEL, T3], [EN, SEL, rx14("match", 0)], [EN, SEL, LOST], [EN, SEL, T3, LOST], [EN, SEL, RX13],
         [EN, SEL, LOST, T3, DLY]]
# connected but not selected: in NOT_COMMUNICATING, in WAIT_DELAY, in WAIT_CRA with an S1F13 in the send queue
CON_BASES = [[EN, CON], [EN, SEL, T3, LOST, CON], [EN, SEL, T3, LOST, DLY, CON], [EN, SEL, rx14("match", 0), LOST, CON], [CON, EN]]


def variants(rng, cls):
    if cls == "rx14":
        return rng.choice(RX14_ALL)
    if cls == "other":
        return rng.choice(OTHER)
    return cls


CLASSES = [EN, DIS, SEL, LOST, T3, DLY, RX13, "rx14", "other"]
CLASSES_CON = CLASSES + [CON]


def product(n, k):
    idx = [0] * k
    while True:
        yield list(idx)
        j = k - 1
        while j >= 0:
            idx[j] += 1
            if idx[j] < n:
                break
            idx[j] = 0
            j -= 1
        if j < 0:
            return


def gen_histories(rng, tier, search):
    big = tier == "thorough" or search
    out = []  # (role, commack_req, letters, kind)
    depth = 4 if tier == "thorough" else 3
    wide = RX14_KEY + [OTHER[0], OTHER[2], S9F1] + [EN, DIS, SEL, LOST, T3, DLY, RX13]
    wide_cfg = wide + [CFG, RX13Z]
    for role in ("equipment", "host"):
        for bi, base in enumerate(BASES):
            # the wide alphabet (key S1F14 variants spelled out), all words of length <= 2
            # (quick: the two-letter words from the prefixes that differ most; the other role mirrors them in thorough)
            for k in ((1, 2) if big or (role == "equipment" and bi in (2, 3, 4, 5, 7)) or (role == "host" and bi in (2, 4)) else (1,)):
                for idx in product(len(wide), k):
                    out.append((role, 0, base + [wide[i] for i in idx], "exh-wide"))
            # the 9-letter alphabet, all words of length `depth` (variant of the two parameterised letters drawn per occurrence)
            if not big and (bi in (0, 1, 5, 6, 8) or (role == "host" and bi in (3, 4, 7)) or (role == "equipment" and bi == 3)):
                continue  # quick: the long words start from the prefixes that differ most (all of them in thorough)
            for idx in product(len(CLASSES), depth):
                out.append((role, 0, base + [variants(rng, CLASSES[i]) for i in idx], f"exh-{depth}"))
    # connected but not selected: all words of length <= 2 over the wide alphabet + `con`, and of length 3 over the 10 letters
    for role in ("equipment", "host"):
        for bi, base in enumerate(CON_BASES):
            for k in ((1, 2) if big or (role == "equipment" and bi in (0, 1, 2)) or (role == "host" and bi in (1, 3)) else (1,)):
                for idx in product(len(wide) + 1, k):
                    out.append((role, 0, base + [(wide + [CON])[i] for i in idx], "exh-con"))
            if big or (role == "equipment" and bi == 2):
                for idx in product(len(CLASSES_CON), 3):
                    out.append((role, 0, base + [variants(rng, CLASSES_CON[i]) for i in idx], "exh-con-3"))
    # fault: the socket refuses a write shortly before the connection reports the loss (judged by the oracle only: the
    # model has no refused writes)
    for role in ("equipment", "host"):
        for base in ([EN, SEL, rx14("match", 0)], [EN, SEL, RX13], [EN, SEL], [EN, SEL, T3]):
            for trig in (OTHER[0], RX13, OTHER[3], T3, DLY):
                for tail in ([], [SEL], [EN], [SEL, rx14("match", 0)]):
                    out.append((role, 0, base + [FAIL, trig, LOST] + tail, "fault"))
                    out.append((role, 0, base + [FAIL, trig, trig, LOST] + tail, "fault"))
    # the settings the handler is constructed with (0 s, small, default) x an attempt that fails: the timers must carry them
    for role in ("equipment", "host"):
        for cfg in (init(0), init(3), init(None), init(0, 0), init(None, 7), init(1, 120)):
            for fail in ([T3], [rx14("match", 1)], [rx14("match", "empty")]):
                for tail in ([], [DLY], [DLY, T3], [CFG, DLY, T3], [LOST, DLY, SEL, T3]):
                    out.append((role, 0, [cfg, EN, SEL] + fail + tail, "exh-settings"))
    # settings changed after construction through the public property (fractional values too), before enable / between attempts
    for role in ("equipment", "host"):
        for value in (0, 0.8, 1, 2.5, 10):
            for via in ("settings", "handler"):
                c = setcfg(value, "delay", via)
                for hist in ([c, EN, SEL, T3], [EN, c, SEL, rx14("match", 1)], [EN, SEL, T3, c, DLY, rx14("match", 1)],
                             [init(3), EN, SEL, T3, DLY, c, T3], [EN, SEL, c, rx14("match", "empty"), DLY]):
                    out.append((role, 0, hist, "exh-settings"))
        for value in (0, 0.5, 7):
            for via in ("settings", "handler"):
                c = setcfg(value, "t3", via)
                for hist in ([c, EN, SEL], [EN, SEL, T3, c, DLY], [EN, c, SEL, T3, DLY]):
                    out.append((role, 0, hist, "exh-settings"))
    # messages that have a registered callback (user: S64F1, S9F1; built-in: S1F1) arriving in every state that is not established
    for role in ("equipment", "host"):
        for pre in ([], [EN], [EN, CON], [EN, SEL], [EN, SEL, T3], [EN, SEL, rx14("match", 0), LOST], [EN, SEL, rx14("match", 0), DIS],
                    [EN, SEL, T3, LOST, SEL], [EN, SEL, rx14("match", 0), LOST, SEL]):
            for msg in (S9F1, OTHER[2], OTHER[0], OTHER[7]):
                out.append((role, 0, pre + [msg, msg], "exh-callback"))
    # a second, independent handler in the same process goes through its own establish sequence, letter by letter
    scripts = ([EN, SEL, rx14("match", 0), OTHER[0], LOST, SEL, T3], [EN, SEL, RX13, DIS, EN], [EN, SEL, T3, DLY, rx14("match", 0), LOST],
               [EN, CON, SEL, rx14("match", 1), DLY, rx14("match", 0)])
    mains = ([EN, SEL, T3, DLY, T3], [EN, SEL, OTHER[0], RX13Z, LOST], [EN, SEL, rx14("match", 0), OTHER[0], OTHER[2], LOST, SEL],
             [EN, CON, DLY, SEL, rx14("foreign", 63), T3], [EN, SEL, rx14("match", 1), OTHER[0], DLY, DIS])
    for role in ("equipment", "host"):
        for rb in ("equipment", "host"):
            for sc in scripts:
                for mn in mains:
                    out.append((role, 0, [with_companion(rb, sc)] + mn, "iso"))
    # a transport whose enable() brings the link up before it returns
    for role in ("equipment", "host"):
        for pre in ([], [EN, DIS], [EN, SEL, LOST, DIS], [CON], [EN, SEL, rx14("match", 0), DIS, LOST]):
            for tail in ([], [rx14("match", 0)], [RX13], [T3, DLY], [ENSEL], [DIS, ENSEL], [LOST, SEL]):
                out.append((role, 0, pre + [ENSEL] + tail, "exh-ensel"))
    # the equipment is brought ON-LINE (S1F17) before the link is lost / the handler is disabled
    for role in ("equipment", "host"):
        for est in ([rx14("match", 0)], [RX13]):
            for mid in ([S1F17], [S1F17, OTHER[0]], [S1F17, ("rx", 1, 15, 1, "in", None)], [S1F17, ("rx", 1, 15, 1, "in", None), S1F17]):
                for end in ([LOST], [LOST, SEL], [DIS], [LOST, CON, DLY], [LOST, SEL, rx14("match", 0), S1F17, LOST]):
                    out.append((role, 0, [EN, SEL] + est + mid + end, "exh-online"))
    n_rand = 3000 if big else 500
    weights = [CON] * 3 + [S1F17] + [ENSEL] + [EN] * 2 + [DIS] + [SEL] * 3 + [LOST] * 2 + [T3] * 3 + [DLY] * 3 + [RX13] * 2 + ["rx14"] * 5 + ["other"] * 3 + [CFG] * 2 + [RX13Z]
    # the configured delay changes, then an attempt fails; an S1F13 with system bytes 0: all words of length <= 2 from three prefixes
    for role in ("equipment", "host"):
        for nb, base in enumerate(([EN, SEL], [CFG, EN, SEL, T3, DLY], [EN, SEL, rx14("match", 0), CFG, LOST])):
            for k in ((1, 2) if big or role == "equipment" or nb == 0 else (1,)):
                for idx in product(len(wide_cfg), k):
                    w = [wide_cfg[i] for i in idx]
                    if CFG in w or RX13Z in w or CFG in base:
                        out.append((role, 0, base + w, "exh-cfg"))
    for i in range(n_rand):
        role = "equipment" if i % 2 else "host"
        ck = rng.choice([0, 0, 0, 1, 63])
        n = rng.range(4, 30)
        out.append((role, ck, [EN] * rng.below(2) + [variants(rng, rng.choice(weights)) for _ in range(n)], "random"))
    # a subclass that refuses (on_commack_requested() != 0): short words from the states where S1F13 matters
    for role in ("equipment", "host"):
        for base in ([EN, SEL], [EN, SEL, T3], [EN, SEL, rx14("match", 0)]):
            for idx in product(len(wide), 2 if big else 1):
                out.append((role, 1, base + [wide[i] for i in idx], "exh-deny"))
    return out


def case_of(role, ck, letters):
    return {"role": role, "commack_req": ck, "history": [list(lt) for lt in letters], "text": " ".join(letter_name(lt) for lt in letters)}


def letters_of(case):
    return [tuple(x) for x in case["history"]]


def shrink(role, ck, letters, klass):
    """ddmin over the letters: the shortest sub-history that still shows a violation of the same class"""

    def fails(sub):
        try:
            r = run_history(role, ck, sub)
        except Stuck:
            return False
        return any(b[0] == klass for b in oracle(r.steps))

    return hlib.ddmin(list(letters), fails)


WORKERS = 6


# ------------------------------------------------------------------------------------------------ GEM over SECS-I
class LineConn(secsgem.common.Connection):
    """in-memory serial line with the peer's side of the SECS-I line protocol scripted: EOT to our ENQ and ACK to our block
    (unless `mute`), our EOT is followed by the block the peer wants to send (`pending`)"""

    ENQ, EOT, ACK = 5, 4, 6

    def __init__(self, settings):
        super().__init__(settings)
        self.blocks, self.pending, self.mute = [], [], False
        self.n_enq = self.n_eot = 0

    def enable(self):
        pass

    def disable(self):
        pass

    def send_data(self, data):
        data = bytes(data)
        if data == bytes([self.ENQ]):
            self.n_enq += 1
            if not self.mute:
                self.on_data({"source": self, "data": bytes([self.EOT])})
        elif data == bytes([self.EOT]):
            self.n_eot += 1
            if self.pending:
                self.on_data({"source": self, "data": self.pending.pop(0)})
        elif len(data) > 1:
            self.blocks.append(data)
            if not self.mute:
                self.on_data({"source": self, "data": bytes([self.ACK])})
        return True


def secsi_loss_cases(res):
    """GEM over SECS-I: the link is lost while the protocol thread waits for line bytes (peer's ENQ answered, block missing; own ENQ
    unanswered; own block not acknowledged).  The `disconnected` event must reach the handler although that thread cannot be
    stopped: COMMUNICATING is left within the bound."""
    from secsgem.secsi import SecsISettings
    from secsgem.secsi.message import SecsIBlock, SecsIMessage
    from secsgem.secsi.header import SecsIHeader

    class LineSettings(SecsISettings):
        def create_connection(self):
            self.conn = LineConn(self)
            return self.conn

    def wait(cond, what, bound=None):
        bound = gemrig.deadline() if bound is None else bound
        end = time.monotonic() + bound
        while not cond():
            if time.monotonic() > end:
                return False
            time.sleep(0.002)
        return True

    for role in ("equipment", "host"):
        for where in ("peer-enq-answered-block-missing", "own-enq-unanswered", "own-block-unacknowledged", "idle"):
            case = {"role": role, "commack_req": 0, "transport": "SECS-I", "lost": where, "text": f"GEM over SECS-I, established, link lost: {where}"}
            cls = secsgem.gem.GemEquipmentHandler if role == "equipment" else secsgem.gem.GemHostHandler
            st = LineSettings(port="mem", device_type=secsgem.common.DeviceType.EQUIPMENT if role == "equipment" else secsgem.common.DeviceType.HOST)
            h = cls(st)
            c = h.protocol._connection
            helpers = []

            def bg(fn):
                t = threading.Thread(target=fn, daemon=True)
                t.start()
                helpers.append(t)
                return t

            try:
                h.enable()
                bg(lambda: c.on_connected({"source": c}))           # `communicating` -> WAIT_CRA -> S1F13 over the line
                if not wait(lambda: len(c.blocks) >= 1 and h.communication_state.current.name == "WAIT_CRA", "S1F13 over SECS-I"):
                    res.notes.append(f"SECS-I rig ({role}): no S1F13 seen, case skipped")
                    continue
                s1f13 = SecsIBlock.decode(c.blocks[-1])
                body = secsgem.secs.functions.SecsS01F14({"COMMACK": 0, "MDLN": []}).encode()
                reply = SecsIMessage(SecsIHeader(s1f13.header.system, st.device_id, 1, 14, from_equipment=(role == "host")), body).blocks[0].encode()
                c.pending.append(reply)
                c.on_data({"source": c, "data": bytes([LineConn.ENQ])})
                if not wait(lambda: h.communication_state.current.name == "COMMUNICATING", "COMMUNICATING over SECS-I"):
                    res.notes.append(f"SECS-I rig ({role}): not COMMUNICATING, case skipped")
                    continue
                res.count(("secsi", role, where), sample=case if len(res.samples) < 12 else None)
                res.bump("history_kind", "secsi-loss")
                if where == "peer-enq-answered-block-missing":
                    n0 = c.n_eot
                    c.on_data({"source": c, "data": bytes([LineConn.ENQ])})  # handler answers EOT and waits for the length byte
                    wait(lambda: c.n_eot > n0, "EOT to the peer's ENQ")
                elif where == "own-enq-unanswered":
                    c.mute = True
                    n0 = c.n_enq
                    bg(lambda: h.send_stream_function(secsgem.secs.functions.SecsS01F01()))
                    wait(lambda: c.n_enq > n0, "own ENQ")
                elif where == "own-block-unacknowledged":
                    n0 = len(c.blocks)
                    orig = c.send_data

                    def half(data, orig=orig):
                        if len(bytes(data)) > 1:
                            c.mute = True
                        return orig(data)
                    c.send_data = half
                    bg(lambda: h.send_stream_function(secsgem.secs.functions.SecsS01F01()))
                    wait(lambda: len(c.blocks) > n0, "own block")
                bg(lambda: (c.on_disconnecting({"source": c}), c.on_disconnected({"source": c})))
                bound = gemrig.deadline()
                left = wait(lambda: h.communication_state.current.name != "COMMUNICATING", "leave COMMUNICATING", bound)
                if not left:
                    gemrig.STALLS[0] += 1
                if not left or h.waitfor_communicating(0):
                    res.violate("established-after-loss", f"GEM over SECS-I, link lost ({where}): still COMMUNICATING {bound:g} s after the connection "
                                "reported the loss (the `disconnected` event has not reached the handler)", case)
            finally:
                # release whatever still waits for line bytes
                h.protocol._thread._stop_receiver_thread = True
                for _ in range(3):
                    c.on_data({"source": c, "data": bytes([0]) * 16})
                    time.sleep(0.01)
                h.protocol._thread._stop_dispatcher_thread = True
                h.protocol._thread._dispatcher_thread_trigger.set()


def run_slice(hs, idxs):
    """run the histories `idxs` of `hs` on the implementation; plain data back (this runs in a worker process)"""
    out = []
    wedged = 0
    for i in idxs:
        role, ck, letters, kind = hs[i]
        if wedged >= 3:
            out.append({"i": i, "skipped": True})  # the implementation blocks for ever on several histories: do not wait them all out
            continue
        try:
            r = run_history(role, ck, letters)
        except Stuck as exc:
            wedged += 1
            out.append({"i": i, "stuck": str(exc)})
            continue
        if any("wedged" in st["info"] for st in r.steps):
            wedged += 1
        stats = {}

        def bump(h, k):
            stats.setdefault(h, {})
            stats[h][k] = stats[h].get(k, 0) + 1

        for st in r.steps:
            bump("letter", letter_name(st["letter"]).split("/")[0])
            bump("state_before", st["before"])
            if st["before"] != st["after"]:
                bump("transition", f"{st['before']}>{st['after']}")
            for o in st["outs"]:
                bump("output", o[0])
        bad = oracle(r.steps)
        if r.companion is not None:
            bad += [(k, "the second handler of the process: " + why, len(r.steps) - 1) for k, why, _ in oracle(r.companion.steps)
                    if k not in ("c07-s1f14-system-unchecked",)]
        out.append({"i": i, "tokens": r.tokens, "answer": "ok " + ";".join(show_step(st) for st in r.steps),
                    "bad": bad, "stats": stats,
                    "nontrivial": any(st["after"] != "DISABLED" for st in r.steps),
                    "rig": any("link_mismatch" in st["info"] for st in r.steps)})
    return out


def worker_main(spec):
    """C07_WORKER=<k>/<n>/<tier>/<seed>/<search>/<out>: the parent's history list is regenerated from the seed"""
    k, n, tier, seed, search, outp = spec.split("/", 5)
    rng = hlib.Rng(int(seed) ^ 0xC07)
    hs = gen_histories(rng, tier, search == "1")
    res = run_slice(hs, range(int(k), len(hs), int(n)))
    with open(outp, "w") as fh:
        json.dump(res, fh)
    sys.stdout.flush()
    os._exit(0)


def run_parallel(a, hs):
    import subprocess
    import tempfile
    own = not os.environ.get("VERIF_SCRATCH")
    scratch = os.environ.get("VERIF_SCRATCH") or tempfile.mkdtemp(prefix="c07-")
    procs = []
    for k in range(WORKERS):
        outp = os.path.join(scratch, f"c07-w{k}.json")
        env = dict(os.environ, C07_WORKER=f"{k}/{WORKERS}/{a.tier}/{a.seed}/{int(bool(a.search))}/{outp}")
        procs.append((subprocess.Popen([sys.executable, os.path.abspath(__file__), "--out", os.devnull], env=env,
                                       stdout=subprocess.DEVNULL, stderr=subprocess.PIPE), outp))
    results = {}
    for pr, outp in procs:
        try:
            _, err = pr.communicate(timeout=3000 if a.tier == "thorough" else 600)
        except subprocess.TimeoutExpired:
            pr.kill()
            raise RuntimeError("worker timeout")
        if pr.returncode != 0 or not os.path.exists(outp):
            raise RuntimeError(f"worker failed rc={pr.returncode}: {err.decode(errors='replace')[-800:]}")
        for rec in json.load(open(outp)):
            results[rec["i"]] = rec
        os.remove(outp)
    if own:
        try:
            os.rmdir(scratch)
        except OSError:
            pass
    return [results[i] for i in range(len(hs))]


def main():
    if os.environ.get("C07_WORKER"):
        worker_main(os.environ["C07_WORKER"])
    a = hlib.std_args()
    res = hlib.Result("C07", a.tier, a.seed)
    rng = hlib.Rng(a.seed ^ 0xC07)
    drv = hlib.Driver()
    res.rule = ("histories over {enable, disable, linkSelected, linkLost, t3Expired, delayExpired, rx S1F13, rx S1F14 "
                "(matching | older | foreign system bytes) x COMMACK (0, 1, 63, undecodable), rx other (S1F1 W/no W, user callback S64F1, "
                "S99F1, S1F3, S1F0)} for host and equipment: from base prefixes (one per reachable communication state / link situation) "
                "all words of length <= 2 over a 14-letter alphabet that spells the key S1F14 variants out, all words of length 3 "
                "(quick) / 4 (thorough) over the 9-letter alphabet, seeded random histories of length 4..30, and short words with a subclass "
                "whose on_commack_requested() refuses; phases in which the link is connected but not selected (letter con: 5 prefixes, all words of "
                "length <= 2 over 15 letters, length 3 over 10 letters), a letter that changes the configured delay, S1F13 with system bytes 0; "
                "after every letter also waitfor_communicating(0) and every fake timer ever armed are looked at.  distinct = distinct (role, refusal code, letter sequence); non-trivial = the history "
                "leaves DISABLED")
    flags = detect_flags()
    res.notes.append(f"variant detected on the implementation: sysChecked={flags[0]} commackGate={flags[1]}")
    if a.replay:
        body = json.load(open(a.replay))
        hs = [(v["case"]["role"], v["case"]["commack_req"], letters_of(v["case"]), "replay") for v in body.get("violations", [])
              if isinstance(v.get("case"), dict) and "history" in v["case"]]
        for b in body.get("breaks", []):
            m = b.get("case") if isinstance(b, dict) else None
            if isinstance(m, dict) and "history" in m:
                hs.append((m["role"], m["commack_req"], letters_of(m), "replay"))
        recs = run_slice(hs, range(len(hs))) if hs else None
        if recs is None:
            a.search = True
            hs = gen_histories(rng, a.tier, True)
            recs = run_parallel(a, hs)
    else:
        hs = gen_histories(rng, a.tier, a.search)
        recs = run_parallel(a, hs)
    # two fresh handlers of one process own their mutable state (lists, dicts, events, queues, machines, callback tables)
    if not a.replay:
        for role in ("equipment", "host"):
            ra, rb = Rig(role), Rig(role)
            shared = gemrig.shared_mutables(ra.h, rb.h)
            ra.close()
            rb.close()
            if shared:
                res.violate("handlers-share-state", f"two independently constructed {role} handlers share mutable objects: {shared[:4]}",
                            {"role": role, "commack_req": 0, "text": "construct two handlers", "shared": shared[:8]})
        try:
            secsi_loss_cases(res)
        except Exception as exc:  # noqa: BLE001
            res.notes.append(f"SECS-I rig failed: {type(exc).__name__}: {exc}")
    lines, cases, answers = [], [], []
    seen_classes: dict[str, int] = {}
    stuck = skipped = 0
    for (role, ck, letters, kind), rec in zip(hs, recs):
        if "skipped" in rec:
            skipped += 1
            continue
        if "stuck" in rec:
            stuck += 1
            res.violate("wedged", f"the handler blocks for ever (bounded wait of {gemrig.WAIT_FIRST} s, {gemrig.WAIT_LATER} s after the first stall, ran out in {rec['stuck']})", case_of(role, ck, letters))
            continue
        res.count((role, ck, tuple(letters)), nontrivial=rec["nontrivial"],
                  sample=case_of(role, ck, letters) if kind in ("random", "exh-deny") or len(res.samples) < 3 else None)
        res.bump("history_kind", kind)
        res.bump("history_len", len(letters))
        for h, d in rec["stats"].items():
            for k, n in d.items():
                res.bump(h, k, n)
        for klass, why, i in rec["bad"]:
            seen_classes[klass] = seen_classes.get(klass, 0) + 1
            if seen_classes[klass] <= 3:
                small = shrink(role, ck, letters[: i + 1], klass)
                res.violate(klass, why, case_of(role, ck, small), None, show_step(run_history(role, ck, small).steps[-1]))
        if rec["rig"] and seen_classes.get("link-state-not-followed", 0) < 3:
            seen_classes["link-state-not-followed"] = seen_classes.get("link-state-not-followed", 0) + 1
            res.violate("link-state-not-followed", "after the connection events of this history the HSMS connection state is not the one the "
                        "connection reported (connected / selected / closed)", case_of(role, ck, letters))
        if FAIL not in letters:
            lines.append(history_tokens(role, ck, flags, rec["tokens"]))
            cases.append(case_of(role, ck, letters))
            answers.append(rec["answer"])
    for k, n in seen_classes.items():
        res.bump("oracle_findings", k, n)
    # ---- correspondence
    if drv.available and lines:
        res.driver_used = True
        outs = gemrig.driver_run(lines)
        for case, line, m, i in zip(cases, lines, outs, answers):
            res.traces_validated += 1
            if m != i:
                ms, is_ = m.split(";"), i.split(";")
                k = next((j for j in range(min(len(ms), len(is_))) if ms[j] != is_[j]), min(len(ms), len(is_)))
                if len(res.disagreements) < 5:
                    # shrink: shortest prefix already disagrees at step k
                    case = dict(case, history=case["history"][: k + 1], text=" ".join(case["text"].split()[: k + 1]))
                res.disagree("GemHandler communication handling vs Model.GemComm.step", {"case": case, "step": k, "line": line[:400]},
                             ms[k] if k < len(ms) else m[:200], is_[k] if k < len(is_) else i[:200])
    else:
        res.notes.append("driver unavailable: correspondence skipped")
    res.exhaustive_parts.append(f"all words of length <= 2 over the 14-letter alphabet and of length {4 if a.tier == 'thorough' else 3} over the 9-letter "
                                f"alphabet from {len(BASES)} base prefixes, both roles: {sum(1 for h in hs if h[3].startswith('exh'))} histories")
    if stuck:
        res.notes.append(f"{stuck} histories hit a bounded wait; {skipped} histories not run after three wedged ones in a worker")
    res.dump(a.out)
    sys.stdout.flush()
    os._exit(0)


if __name__ == "__main__":
    main()
