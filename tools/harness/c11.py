"""C11 — GEM control state: real GemEquipmentHandler on an in-memory HSMS link vs Model.Gem.Ctrl (driver `gemctrl run`) and vs the
E30 table (driver `gemctrl spec`, direct oracle).

After every step: control state, `active` flag of each control-machine state, S1F16/S1F18 acknowledge code, SVID 1002 via S1F3/S1F4 (when
communicating), the CEIDs handed to `trigger_collection_events` (recorded synchronously) and, in the event-enabled rigs, the CEIDs of the
S6F11 messages actually sent.
"""
from __future__ import annotations

import itertools
import json
import logging
import os
import queue
import struct
import sys
import threading
import time

sys.path.insert(0, os.path.dirname(os.path.dirname(os.path.abspath(__file__))))
import hlib  # noqa: E402

import secsgem.common  # noqa: E402
import secsgem.gem  # noqa: E402
import secsgem.hsms  # noqa: E402
import secsgem.secs  # noqa: E402
from secsgem.common.state_machine import UnknownTransitionError, WrongSourceStateError  # noqa: E402
from secsgem.gem.collection_event_capability import CollectionEventCapability  # noqa: E402

logging.disable(logging.CRITICAL)

WAIT = 90.0       # bound of every wait; every wait ends on a condition (reply arrived, event recorded, thread returned), so the bound is
                  # only reached when something is wedged: a broken check (Stuck), never a pass and never an observation
T3_LONG = 600.0   # reply timeout while a reply is going to come (also while the harness deliberately holds an S6F12 back)
T3_SHORT = 0.02   # reply timeout for a probe the peer does not answer
STATE_ATTRS = ["init", "control", "offline", "equipment_offline", "attempt_online", "host_offline", "online", "online_local", "online_remote"]
INITIALS = ["EQUIPMENT_OFFLINE", "ATTEMPT_ONLINE", "HOST_OFFLINE", "ONLINE"]
SUBS = ["LOCAL", "REMOTE"]


class Stuck(Exception):
    pass


# ------------------------------------------------------------------------------------------------ recording of trigger_collection_events
TRIGGERED: dict[int, list] = {}
CONSTRUCTING: list = []
_orig_trigger = CollectionEventCapability.trigger_collection_events


SENDERS: dict[int, list] = {}   # handler id -> the sender threads `trigger_collection_events` started (to know when "nothing was sent" is final)


def _rec_trigger(self, ceids):
    vals = [c.value if hasattr(c, "value") else c for c in ceids]
    TRIGGERED.get(id(self), CONSTRUCTING).extend(vals)
    before = set(threading.enumerate())
    r = _orig_trigger(self, ceids)
    SENDERS.setdefault(id(self), []).extend((t, len(vals)) for t in threading.enumerate() if t not in before)   # one that already finished is not needed
    return r


CollectionEventCapability.trigger_collection_events = _rec_trigger


# ------------------------------------------------------------------------------------------------ in-memory link, harness = host
class MemConn(secsgem.common.Connection):
    def __init__(self, settings):
        super().__init__(settings)
        self.rig = None

    def enable(self):
        pass

    def disable(self):
        pass

    def send_data(self, data):
        raw = bytes(data)
        while raw:
            n = struct.unpack(">L", raw[:4])[0] + 4
            blk = secsgem.hsms.HsmsBlock.decode(raw[:n])
            raw = raw[n:]
            if self.rig is not None:
                self.rig.on_frame(blk)
        return True


class MemSettings(secsgem.hsms.HsmsSettings):
    def create_connection(self):
        self.conn = MemConn(self)
        return self.conn


class Rig:
    """one real equipment handler; the harness plays host and operator"""

    def __init__(self, initial, sub, comm, events):
        self.initial, self.sub, self.events = initial, sub, events
        self.settings = MemSettings(connect_mode=secsgem.hsms.HsmsConnectMode.PASSIVE, device_type=secsgem.common.DeviceType.EQUIPMENT,
                                    t3=T3_LONG, establish_communication_timeout=10 ** 6)
        del CONSTRUCTING[:]
        self.h = secsgem.gem.GemEquipmentHandler(self.settings, initial_control_state=initial, initial_online_control_state=sub)
        self.ctor_ceids = list(CONSTRUCTING)
        TRIGGERED[id(self.h)] = []
        self.c = self.h.protocol._connection
        self.c.rig = self
        self.h.protocol._linktest_timeout = 10 ** 6   # no Linktest.req in the middle of a (slow, loaded) run
        self.sys = 100
        self.pending: dict[int, queue.Queue] = {}
        self.lock = threading.Lock()
        self.probe_mode = "answers"
        self.probe_seen = threading.Event()
        self.probe_system = None
        self.s6f11: list[int] = []
        self.link = False
        self.s1f13_mode = "accept"
        self.s1f13_seen = threading.Event()
        self.hold_s6f12 = False
        self.held: list[int] = []
        self.sent_by: dict = {}   # sender thread -> number of S6F11 it has written
        self.unexpected: list[str] = []
        self.comm = False
        self.op_thread = None
        self.op_result = None
        self.h.enable()
        if comm:
            self.link_up()
            if events:
                self.enable_events()

    # ---- frames written by the equipment
    def on_frame(self, blk):
        hd = blk.header
        if hd.s_type.value != 0:
            return
        with self.lock:
            q = self.pending.get(hd.system)
        if q is not None:
            q.put(blk)
            return
        s, f = hd.stream, hd.function
        if (s, f) == (1, 13):
            mode = self.s1f13_mode
            self.s1f13_seen.set()
            if mode == "accept":
                self.reply(hd.system, 1, 14, {"COMMACK": 0, "MDLN": []})
            elif mode == "deny":
                self.reply(hd.system, 1, 14, {"COMMACK": 1, "MDLN": []})
        elif (s, f) == (1, 1):
            self.probe_system = hd.system
            mode = self.probe_mode
            self.probe_seen.set()
            if mode == "answers":
                self.reply(hd.system, 1, 2, [])
            elif mode == "aborts":
                self.reply(hd.system, 1, 0, None)
        elif (s, f) == (6, 11):
            fn = self.h.stream_function(6, 11)()
            fn.decode(blk.data)
            self.s6f11.append(fn.CEID.get())
            if self.hold_s6f12:
                self.held.append(hd.system)    # the host confirms late (inside T3): released by the harness, not by a clock
            else:
                self.reply(hd.system, 6, 12, 0)
        else:
            self.unexpected.append(f"S{s}F{f}")

    def feed(self, msg):
        for b in msg.blocks:
            self.c.on_data({"source": self.c, "data": b.encode()})

    def reply(self, system, s, f, val):
        fn = self.h.stream_function(s, f)(val) if val is not None else self.h.stream_function(s, f)()
        self.feed(secsgem.hsms.HsmsMessage(secsgem.hsms.HsmsStreamFunctionHeader(system, s, f, False, 0), fn.encode()))

    def request(self, s, f, val=None):
        """host primary with W bit; returns the decoded reply function object"""
        with self.lock:
            self.sys += 1
            system = self.sys
            q = self.pending[system] = queue.Queue()
        fn = self.h.stream_function(s, f)(val) if val is not None else self.h.stream_function(s, f)()
        self.feed(secsgem.hsms.HsmsMessage(secsgem.hsms.HsmsStreamFunctionHeader(system, s, f, True, 0), fn.encode()))
        try:
            blk = q.get(True, WAIT)
        except queue.Empty:
            raise Stuck(f"no reply to S{s}F{f}") from None
        finally:
            with self.lock:
                self.pending.pop(system, None)
        hd = blk.header
        if hd.function == 0:
            return ("abort", hd.stream)
        out = self.h.stream_function(hd.stream, hd.function)()
        out.decode(blk.data)
        return (f"S{hd.stream}F{hd.function}", out.get())

    # ---- link
    def link_up(self, mode="accept"):
        """mode: accept = S1F13 answered COMMACK 0 (COMMUNICATING); hold = S1F13 left unanswered (the handler stays in WAIT_CRA);
        deny = S1F13 answered COMMACK 1 (WAIT_DELAY); noselect = connected, never selected (NOT_COMMUNICATING)"""
        self.s1f13_mode = mode
        self.s1f13_seen.clear()
        self.c.on_connected({"source": self.c})
        self.link = True
        if mode != "noselect":
            self.feed(secsgem.hsms.HsmsMessage(secsgem.hsms.HsmsSelectReqHeader(77), b""))
        if mode == "accept":
            if not self.h.waitfor_communicating(WAIT):
                raise Stuck("communication not established")
            self.comm = True
            return
        want = {"hold": "WAIT_CRA", "deny": "WAIT_DELAY", "noselect": "NOT_COMMUNICATING"}[mode]
        if mode != "noselect" and not self.s1f13_seen.wait(WAIT):
            raise Stuck("no S1F13 after select")
        end = time.time() + WAIT
        while self.h.communication_state.current.name != want:
            if time.time() > end:
                raise Stuck(f"communication state {self.h.communication_state.current.name}, wanted {want}")
            time.sleep(0.001)

    def link_down(self):
        self.c.on_disconnecting({"source": self.c})
        self.c.on_disconnected({"source": self.c})
        self.comm = False
        self.link = False

    def enable_events(self):
        r = self.request(2, 33, {"DATAID": 1, "DATA": [{"RPTID": 1, "VID": [1002]}]})
        r2 = self.request(2, 35, {"DATAID": 1, "DATA": [{"CEID": ce, "RPTID": [1]} for ce in (1, 2, 3)]})
        r3 = self.request(2, 37, {"CEED": True, "CEID": [1, 2, 3]})
        if (r[1], r2[1], r3[1]) != (0, 0, 0):
            raise Stuck(f"event set-up refused: {r} {r2} {r3}")

    def close(self):
        try:
            TRIGGERED.pop(id(self.h), None)
            SENDERS.pop(id(self.h), None)
            if self.held:
                self.release()
            if self.op_thread is not None and self.op_thread.is_alive():
                if self.probe_system is not None:
                    self.reply(self.probe_system, 1, 0, None)
                self.op_thread.join(2)
            p = self.h.protocol
            if self.link:
                self.link_down()
            d = p._thread
            d._stop_dispatcher_thread = True
            d._dispatcher_thread_trigger.set()
            d._stop_receiver_thread = True
            d._receiver_thread_trigger.set()
            if getattr(p, "_linktest_timer", None):
                p._linktest_timer.cancel()
        except Exception:  # noqa: BLE001
            pass

    # ---- observation
    def observe(self, outs):
        cs = self.h.control_state
        name = cs.current.name
        bits = "".join("1" if getattr(cs, a).active else "0" for a in STATE_ATTRS)
        if self.comm:
            r = self.request(1, 3, [1002])
            sv = str(r[1][0]) if r[0] == "S1F4" and isinstance(r[1], list) and len(r[1]) == 1 else f"?{r}"
        else:
            sv = str(self.h._get_control_state_id())
        return f"{name}:{sv}:{bits}:{'+'.join(outs) or '-'}"

    def take_ceids(self):
        lst = TRIGGERED[id(self.h)]
        vals = list(lst)
        del lst[:len(vals)]
        return [f"ceid{v}" for v in vals]

    def operator(self, fn):
        try:
            fn()
            return []
        except WrongSourceStateError:
            return ["raised.WrongSource"]
        except UnknownTransitionError:
            return ["raised.UnknownTransition"]

    def set_t3(self, v):
        self.settings.timeouts._data["t3"] = v

    # ---- one input
    def step(self, tok):
        """returns the list of outputs of this step in the model's order (ceids, ack, raised)"""
        h = self.h
        if tok.startswith("on."):
            mode = tok[3:]
            if (mode == "nocomm") == self.comm:
                raise Stuck("generator: probe outcome does not fit the link state")
            self.probe_mode = mode
            self.probe_seen.clear()
            self.set_t3(T3_SHORT if mode == "silent" else T3_LONG)
            raised = self.operator(h.control_switch_online)
            self.set_t3(T3_LONG)
            return self.take_ceids() + raised
        if tok == "begin":
            self.probe_mode = "hold"
            self.probe_seen.clear()
            self.probe_system = None
            self.op_result = None

            def run():
                self.op_result = self.operator(h.control_switch_online)
            self.op_thread = threading.Thread(target=run, daemon=True)
            self.op_thread.start()
            # either the probe goes out, or the call returns at once (rejected)
            end = time.time() + WAIT
            while not self.probe_seen.is_set() and self.op_thread.is_alive() and time.time() < end:
                time.sleep(0.001)
            if not self.probe_seen.is_set():
                self.op_thread.join(WAIT)
                if self.op_thread.is_alive():
                    raise Stuck("control_switch_online neither probed nor returned")
                self.op_thread = None
                return self.take_ceids() + (self.op_result or [])
            return self.take_ceids()
        if tok.startswith("probe."):
            mode = tok[6:]
            if self.op_thread is None:
                return []
            if mode == "answers":
                self.reply(self.probe_system, 1, 2, [])
            elif mode == "aborts":
                self.reply(self.probe_system, 1, 0, None)
            else:
                raise Stuck("generator: outstanding probe must be answered or aborted")
            self.op_thread.join(WAIT)
            if self.op_thread.is_alive():
                raise Stuck("control_switch_online did not return after the probe was resolved")
            self.op_thread = None
            return self.take_ceids() + (self.op_result or [])
        if tok == "off":
            raised = self.operator(h.control_switch_offline)
            return self.take_ceids() + raised
        if tok == "local":
            raised = self.operator(h.control_switch_online_local)
            return self.take_ceids() + raised
        if tok == "remote":
            raised = self.operator(h.control_switch_online_remote)
            return self.take_ceids() + raised
        if tok in ("s1f15", "s1f17"):
            r = self.request(1, 15 if tok == "s1f15" else 17)
            want = "S1F16" if tok == "s1f15" else "S1F18"
            ack = f"ack{r[1]}" if r[0] == want else f"?{r}"
            return self.take_ceids() + [ack]
        if tok == "linklost":
            if not self.link:
                raise Stuck("generator: link loss without a link")
            self.link_down()
            return self.take_ceids()
        if tok == "linkup":   # harness-only (not a model input): re-establish communication
            self.link_up()
            return None
        if tok.startswith("linkup."):   # harness-only: a link that does not get as far as COMMUNICATING (WAIT_CRA / WAIT_DELAY / NOT_COMMUNICATING)
            self.link_up(tok[7:])
            return None
        if tok == "hold":     # harness-only: from now on the host keeps its S6F12 confirmations back
            self.hold_s6f12 = True
            return None
        if tok == "release":  # harness-only: the host confirms every report it has kept back
            self.release()
            return None
        raise Stuck("unknown token " + tok)

    def release(self):
        self.hold_s6f12 = False
        held, self.held = self.held, []
        for system in held:
            self.reply(system, 6, 12, 0)

    def settle_s6f11(self, want):
        """event-enabled rigs: the S6F11 actually sent for this step.  Ends when the expected number has arrived, or when every sender
        thread `trigger_collection_events` started has finished (then "fewer were sent" is final) - not on a clock."""
        end = time.time() + WAIT
        senders = SENDERS.get(id(self.h), [])
        while len(self.s6f11) < want and time.time() < end:
            # senders still "to come" = live sender threads minus those that have written their report and wait for an S6F12 the harness
            # holds back (frames are written by the protocol's own thread, so they are counted, not attributed)
            if sum(1 for t, _n in senders if t.is_alive()) - len(self.held) <= 0:
                break
            time.sleep(0.002)
        senders[:] = [(t, n) for t, n in senders if t.is_alive()]
        got = self.s6f11[:]
        del self.s6f11[:len(got)]
        return got


# ------------------------------------------------------------------------------------------------ histories
ALPHA_COMM = ["on.answers", "on.silent", "off", "local", "remote", "s1f15", "s1f17"]
ALPHA_NOCOMM = ["on.nocomm", "off", "local", "remote"]


def gen_random_history(rng, comm, allow_link=True):
    """random history; `comm` = link established at the start.  Returns tokens incl. harness-only `linkup`."""
    toks = []
    n = rng.range(4, 14)
    outstanding = False
    while len(toks) < n:
        if outstanding:
            x = rng.below(10)
            if x < 4:
                toks.append(rng.choice(["probe.answers", "probe.aborts"]))
                outstanding = False
            else:
                toks.append(rng.choice(["s1f15", "s1f17", "s1f17", "off", "local", "remote", "begin"]))
            continue
        if not comm:
            if rng.chance(1, 4):
                toks.append("linkup")
                comm = True
            else:
                toks.append(rng.choice(ALPHA_NOCOMM))
            continue
        x = rng.below(20)
        if x == 0 and not allow_link:
            x = 5
        if x == 0:
            toks.append("linklost")
            comm = False
        elif x < 3:
            toks.append("begin")
            outstanding = True   # (only if accepted; the rig copes with both)
        elif x == 3:
            toks.append("on.aborts")
        else:
            toks.append(rng.choice(ALPHA_COMM))
    if outstanding:
        toks.append("probe.aborts")
    return toks


def run_history(res, initial, sub, comm, events, toks):
    """returns (model input tokens, canonical implementation answer, list of (token, outs) for the s6f11 check)"""
    rig = Rig(initial, sub, comm, events)
    try:
        steps = [rig.observe([f"ceid{v}" for v in rig.ctor_ceids])]
        model_toks = []
        begun = False
        for tok in toks:
            if tok == "begin":
                if begun:
                    continue  # a second operator call while the first one blocks would be a concurrent trigger (C18), not a C11 history
                st = rig.h.control_state.current.name
                begun = st == "EQUIPMENT_OFFLINE"
            outs = rig.step(tok)
            if tok.startswith("probe."):
                begun = False
            if outs is None:
                continue
            model_toks.append(tok)
            if events and rig.comm:
                want = [int(o[4:]) for o in outs if o.startswith("ceid")]
                got = rig.settle_s6f11(len(want))
                if sorted(got) != sorted(want):
                    res.violate("c11-s6f11", "the S6F11 reports sent differ from the collection events triggered (all three enabled)",
                                {"initial": initial, "sub": sub, "comm": comm, "events": events, "history": toks, "at": tok}, sorted(want), sorted(got))
            steps.append(rig.observe(outs))
            res.bump("inputs", tok)
        if rig.unexpected:
            res.notes.append(f"unexpected primaries from the equipment: {sorted(set(rig.unexpected))}")
        return model_toks, "ok " + "|".join(steps)
    finally:
        rig.close()


def strip_for_spec(ans):
    """model/impl answer -> what the E30 table speaks about: state, SVID, acknowledge codes, collection events (no flags, no raises)"""
    out = []
    for st in ans[3:].split("|"):
        name, sv, _bits, outs = st.split(":")
        keep = [o for o in outs.split("+") if o.startswith(("ack", "ceid"))]
        out.append(f"{name}:{sv}:*:{'+'.join(keep) or '-'}")
    return "ok " + "|".join(out)


def spec_vs_impl(res, drv, case, toks):
    """(E30 answer, implementation answer reduced to what E30 speaks about) for one history on a fresh handler"""
    scratch = hlib.Result("C11", "quick", 0)
    model_toks, ans = run_history(scratch, case["initial"], case["sub"], case["comm"], case["events"], toks)
    sp = hlib.strip_branch(drv.run([f"gemctrl spec {case['initial']} {case['sub']} " + (",".join(model_toks) or "-")])[0])
    return sp, strip_for_spec(ans)


def minimise(res, drv, case, toks, k):
    """shortest sub-history on which implementation and E30 table still differ (delta debugging on fresh handlers)"""
    # step k of the answer is the k-th model input (step 0 = constructor); harness-only tokens do not count
    cut, n = 0, 0
    for i, t in enumerate(toks):
        if t != "linkup":
            n += 1
        if n >= k:
            cut = i + 1
            break
    prefix = toks[:cut] if cut else list(toks)

    def fails(cand):
        try:
            sp, got = spec_vs_impl(res, drv, case, cand)
        except Stuck:
            return False
        return sp != got
    try:
        if not fails(prefix):
            return list(toks)
        return hlib.ddmin(prefix, fails) if len(prefix) > 1 else prefix
    except Exception:  # noqa: BLE001
        return prefix


def private_driver():
    import shutil
    import tempfile
    for _ in range(120):
        if os.path.exists(hlib.DRIVER) and os.access(hlib.DRIVER, os.X_OK):
            try:
                dst = os.path.join(os.environ.get("VERIF_SCRATCH") or tempfile.mkdtemp(prefix="verif-c11-"), "driver-c11")
                shutil.copy2(hlib.DRIVER, dst)
                hlib.DRIVER = dst
                return
            except OSError:
                pass
        time.sleep(0.5)


# spec-level planner used only to steer the real handler to a wanted resting state (the comparison is against the model/spec answers)
def plan_to(cur, remote, want, want_remote):
    """inputs that bring a communicating handler from resting state (cur, remote) to (want, want_remote)"""
    toks = []
    online = cur in ("ONLINE_LOCAL", "ONLINE_REMOTE")
    if remote != want_remote:
        if not online:
            toks += ["s1f17"] if cur == "HOST_OFFLINE" else ["on.answers"]
            online = True
        toks.append("remote" if want_remote else "local")
        remote = want_remote
        cur = "ONLINE_REMOTE" if remote else "ONLINE_LOCAL"
    if want in ("ONLINE_LOCAL", "ONLINE_REMOTE"):
        if not online:
            toks += ["s1f17"] if cur == "HOST_OFFLINE" else ["on.answers"]
    elif want == "EQUIPMENT_OFFLINE":
        if cur != "EQUIPMENT_OFFLINE":
            toks.append("off")
    elif want == "HOST_OFFLINE":
        if online:
            toks.append("s1f15")
        elif cur == "EQUIPMENT_OFFLINE":
            toks += ["on.answers", "s1f15"]
    return toks


START_OF = {("EQUIPMENT_OFFLINE", "LOCAL"): ("EQUIPMENT_OFFLINE", False), ("EQUIPMENT_OFFLINE", "REMOTE"): ("EQUIPMENT_OFFLINE", True),
            ("ATTEMPT_ONLINE", "LOCAL"): ("HOST_OFFLINE", False), ("ATTEMPT_ONLINE", "REMOTE"): ("HOST_OFFLINE", True),
            ("HOST_OFFLINE", "LOCAL"): ("HOST_OFFLINE", False), ("HOST_OFFLINE", "REMOTE"): ("HOST_OFFLINE", True),
            ("ONLINE", "LOCAL"): ("ONLINE_LOCAL", False), ("ONLINE", "REMOTE"): ("ONLINE_REMOTE", True)}


def covering_walks(rng, depth, max_len):
    """long histories whose windows of `depth` consecutive inputs cover every (resting state, remembered, input sequence) combination.
    Steering uses SpecSim (planner knowledge only); what is compared is the model's / the E30 table's answer for the whole history."""
    states = [("EQUIPMENT_OFFLINE", False), ("EQUIPMENT_OFFLINE", True), ("HOST_OFFLINE", False), ("HOST_OFFLINE", True),
              ("ONLINE_LOCAL", False), ("ONLINE_REMOTE", True)]
    todo = {(st, seq) for st in states for seq in itertools.product(ALPHA_COMM, repeat=depth)}
    total = len(todo)
    by_state = {st: [seq for seq in itertools.product(ALPHA_COMM, repeat=depth)] for st in states}
    for st in states:
        by_state[st] = rng.shuffle(by_state[st])
    walks = []
    configs = rng.shuffle(list(START_OF))
    k = 0
    while todo:
        ini, sub = configs[k % len(configs)]
        k += 1
        sim = SpecSim(*START_OF[(ini, sub)])
        toks, hist = [], []   # hist: (state before the input, input)

        def do(t):
            hist.append(((sim.cur, sim.remote), t))
            toks.append(t)
            sim.step(t)
            if len(hist) >= depth:
                w = hist[-depth:]
                todo.discard((w[0][0], tuple(x[1] for x in w)))
        while todo and len(toks) < max_len:
            here = (sim.cur, sim.remote)
            pick = None
            lst = by_state.get(here, [])
            while lst and (here, lst[-1]) not in todo:
                lst.pop()
            if lst:
                pick = lst.pop()
                for t in pick:
                    do(t)
                continue
            # steer to the nearest state that still has uncovered sequences
            targets = [st for st in states if any((st, q) in todo for q in by_state[st][-50:]) or any(x[0] == st for x in todo)]
            if not targets:
                break
            tgt = targets[0]
            path = plan_to(sim.cur, sim.remote, tgt[0], tgt[1])
            if not path:
                break
            for t in path:
                do(t)
        walks.append((ini, sub, toks))
        if k > 5000:
            break
    return walks, total


def main():
    a = hlib.std_args()
    res = hlib.Result("C11", a.tier, a.seed)
    rng = hlib.Rng(a.seed ^ 0xC11)
    private_driver()
    drv = hlib.Driver()
    big = a.tier == "thorough" or a.search
    depth = 5 if big else 3
    res.rule = ("real GemEquipmentHandler per initial configuration (4 defaults x LOCAL/REMOTE) on an in-memory HSMS link, harness = host + operator; "
                f"exhaustive: every input sequence of length {depth} over {{on.answers, on.silent, off, local, remote, S1F15, S1F17}} from every resting "
                "state x remembered sub-state (reached through the handler's own inputs), every initial configuration x every single input and pair; "
                "event-enabled rigs in which the host keeps its S6F12 confirmations back over several transitions (released by the harness); "
                "link loss in every communication state (COMMUNICATING, WAIT_CRA with the S1F14 held back, WAIT_DELAY after COMMACK 1, NOT_COMMUNICATING without select) "
                "x control state; random histories (4-14 inputs) incl. aborted probes, probes held open while S1F15/S1F17/operator actions arrive, link loss and "
                "re-establishment, not-communicating handlers. distinct = distinct (configuration, history); all are non-trivial")
    jobs = []  # (initial, sub, comm, events, tokens)
    if a.replay:
        body = json.load(open(a.replay))
        for v in body.get("violations", []) + body.get("cases", []):
            c = v.get("case", v)
            c = c.get("case", c)
            if "history" in c:
                jobs.append((c["initial"], c["sub"], c.get("comm", True), c.get("events", False), c["history"]))
    else:
        # every initial configuration x every single input / pair (communicating), single inputs (not communicating)
        for ini in INITIALS:
            for sub in SUBS:
                for seq in itertools.product(ALPHA_COMM, repeat=2 if big else 1):
                    jobs.append((ini, sub, True, False, list(seq)))
                jobs.append((ini, sub, False, False, ALPHA_NOCOMM + ["on.nocomm", "off"]))
                jobs.append((ini, sub, True, True, rng.shuffle(ALPHA_COMM) + ["on.aborts", "local", "s1f17", "remote", "off"]))
                # link loss while the communication state is WAIT_CRA / WAIT_DELAY / NOT_COMMUNICATING (and COMMUNICATING), from every control
                # state a handler can be in without communication (the configured one, EQUIPMENT_OFFLINE after `off`, HOST_OFFLINE after the probe)
                # (one such link episode per handler: after a link loss in WAIT_CRA/WAIT_DELAY the communication state machine does not start over)
                for mode in ("hold", "deny", "noselect"):
                    for pre in ([], ["off"], ["on.nocomm"], ["off", "on.nocomm", "off"]):
                        jobs.append((ini, sub, False, False, pre + [f"linkup.{mode}", "linklost", "off", "on.nocomm", "local", "off"]))
                # the host confirms S6F11 late: transitions that repeat an event while its earlier report is still unconfirmed
                jobs.append((ini, sub, True, True, ["on.answers", "s1f17", "hold", "local", "remote", "local", "remote", "s1f15", "s1f17", "s1f15",
                                                    "release", "s1f17", "off", "on.answers", "local", "remote"]))
        # exhaustive: every window of `depth` consecutive inputs from every reachable resting (state, remembered) pair, covered by long walks
        walks, n_windows = covering_walks(rng, depth, 400)
        res.exhaustive_parts.append(f"every input sequence of length {depth} over 7 inputs from each of the 6 reachable resting (state, remembered sub-state) pairs: "
                                    f"{n_windows} (state, sequence) windows, executed as consecutive windows of {len(walks)} long histories on fresh handlers "
                                    "(ATTEMPT_ONLINE is covered by the held-open probes of the random histories)")
        for ini, sub, toks in walks:
            jobs.append((ini, sub, True, False, ("walk", toks)))
        for i in range(600 if big else 300):
            ini, sub = rng.choice(INITIALS), rng.choice(SUBS)
            comm = rng.chance(5, 6)
            events = comm and rng.chance(1, 4)
            # S6F11 are written by sender threads that block while the link is down and deliver later: the link stays up in the event rigs
            toks = gen_random_history(rng, comm, allow_link=not events)
            if events and rng.chance(1, 2):
                a_ = rng.below(len(toks))
                toks = toks[:a_] + ["hold"] + toks[a_:]
                toks.insert(rng.range(a_ + 2, len(toks)), "release")
            jobs.append((ini, sub, comm, events, toks))

    cases, lines, answers = [], [], []
    full_history = {}
    t_start = time.time()
    for ini, sub, comm, events, toks in jobs:
        if isinstance(toks, tuple):
            toks = toks[1]
            res.bump("histories", "covering walk")
        else:
            res.bump("histories", ("events " if events else "") + ("communicating" if comm else "not communicating"))
        try:
            model_toks, ans = run_history(res, ini, sub, comm, events, toks)
        except Stuck as exc:
            res.notes.append(f"STUCK {exc} in {ini}/{sub} {toks[:12]}")
            res.disagree("harness wait ran out (check broken or implementation wedged)", {"initial": ini, "sub": sub, "history": toks[:30]}, "completes", str(exc))
            continue
        case = {"initial": ini, "sub": sub, "comm": comm, "events": events, "history": toks if len(toks) < 60 else toks[:60] + ["…"]}
        full_history[id(case)] = list(toks)
        cases.append(case)
        lines.append(f"gemctrl run {ini} {sub} " + (",".join(model_toks) or "-"))
        answers.append(ans)
        res.count((ini, sub, comm, events, tuple(toks)), sample={"line": lines[-1][:200], "impl": ans[:300]} if len(cases) <= 3 else None)
        res.evaluations += max(0, len(model_toks) - 1)
        for st in ans[3:].split("|"):
            res.bump("state_after_step", st.split(":")[0])
            for o in st.split(":")[3].split("+"):
                res.bump("outputs", o)
    res.notes.append(f"{len(jobs)} handlers, {time.time() - t_start:.1f}s of implementation runs")
    hlib.compare_batch(res, drv, "GemEquipmentHandler control state vs Model.Gem.Ctrl.step", cases, lines, answers)

    # ---- direct oracle: the implementation against the E30 table (Spec.E30 through the driver)
    if drv.available and lines:
        spec_lines = ["gemctrl spec" + ln[len("gemctrl run"):] for ln in lines]
        spec_out = drv.run(spec_lines)
        n_min = 0
        for case, ln, sp, im in zip(cases, spec_lines, spec_out, answers):
            sp = hlib.strip_branch(sp)
            if "linklost" in ln:
                continue  # link loss is not an E30 trigger: covered by the correspondence with the model only
            got = strip_for_spec(im)
            if sp != got:
                k = next((i for i, (x, y) in enumerate(zip(sp.split("|"), got.split("|"))) if x != y), None)
                hist = full_history[id(case)]
                if n_min < 3 and k is not None:
                    n_min += 1
                    hist = minimise(res, drv, case, hist, k)
                    sp, got = spec_vs_impl(res, drv, case, hist)
                res.violate("c11-e30", "control state / acknowledge code / collection events / SVID 1002 differ from the E30 table",
                            dict(case, history=hist), sp[:600], got[:600])
    # ---- link loss (not an E30 trigger): what `on_connection_closed` does is the reference - ON-LINE and EQUIPMENT OFF-LINE end in HOST
    # OFF-LINE whatever the communication state was (Props.C11.link_loss_effect); a difference AT a link-loss step is reported with the history
    if drv.available and lines:
        ll = [(c_, ln, im) for c_, ln, im in zip(cases, lines, answers) if "linklost" in ln]
        outs = drv.run([ln for _, ln, _ in ll]) if ll else []
        n_ll = 0
        for (case, ln, im), mo in zip(ll, outs):
            mo = hlib.strip_branch(mo)
            if mo == im:
                continue
            toks_m = ln.split(" ")[4].split(",")
            k = next((i for i, (x, y) in enumerate(zip(mo[3:].split("|"), im[3:].split("|"))) if x != y), None)
            if k is not None and 1 <= k <= len(toks_m) and toks_m[k - 1] == "linklost" and n_ll < 3:
                n_ll += 1
                full = full_history[id(case)]
                cut, n = len(full), 0
                for i, t in enumerate(full):
                    if not (t.startswith("linkup") or t in ("hold", "release")):
                        n += 1
                    if n >= k:
                        cut = i + 1
                        break
                res.violate("c11-linkloss", "after the link was lost the control state is not what on_connection_closed prescribes "
                            "(ON-LINE / EQUIPMENT OFF-LINE -> HOST OFF-LINE, whatever the communication state)",
                            dict(case, history=full[:cut]), mo.split("|")[k], im.split("|")[k])
    res.dump(a.out)
    os._exit(0)


class SpecSim:
    """tiny planner-side tracker of (state, remembered) for steering; NOT an oracle (the E30 oracle is Spec.E30 through the driver)"""

    def __init__(self, cur, remote):
        self.cur, self.remote = cur, remote

    def online(self):
        return self.cur in ("ONLINE_LOCAL", "ONLINE_REMOTE")

    def step(self, t):
        c = self.cur
        if t.startswith("on."):
            if c == "EQUIPMENT_OFFLINE":
                self.cur = ("ONLINE_REMOTE" if self.remote else "ONLINE_LOCAL") if t == "on.answers" else "HOST_OFFLINE"
        elif t == "off":
            if self.online() or c == "HOST_OFFLINE":
                self.cur = "EQUIPMENT_OFFLINE"
        elif t == "local":
            if c == "ONLINE_REMOTE":
                self.cur, self.remote = "ONLINE_LOCAL", False
        elif t == "remote":
            if c == "ONLINE_LOCAL":
                self.cur, self.remote = "ONLINE_REMOTE", True
        elif t == "s1f15":
            if self.online():
                self.cur = "HOST_OFFLINE"
        elif t == "s1f17":
            if c == "HOST_OFFLINE":
                self.cur = "ONLINE_REMOTE" if self.remote else "ONLINE_LOCAL"


if __name__ == "__main__":
    main()
