"""C05 — HSMS session follows the E37 connect/select state model for every history.

A REAL `HsmsProtocol` (active and passive mode) runs on an in-memory `Connection` (`MemConn`, which keeps TcpConnection's event
discipline).  Histories over the property's alphabet are replayed input by input; after each input the harness waits (bounded) for
quiescence and records the frames written, `connection_state.current`, the events fired and what was delivered.

  C  correspondence: the same (concretised) history goes to the Lean driver (`hsmsfsm run …`), answers are compared as strings.
  O  direct oracle : the property text evaluated step by step on the implementation against an E37 table written here
                     (`e37_next`), independent of the Lean model.
  accept race      : Select.req buffered before `on_connected`; `ProtocolDispatcher.start` wrapped so that it returns only after the
                     buffered request was dispatched (and the mirror schedule where the dispatcher is held back); "Select.rsp sent =>
                     SELECTED"; compared with `hsmsfsm race gen eager|lazy`.

Finding classes (stable):  c05-select-rsp-unchecked (F-4), c05-separate-ignored (F-5); anything else: c05-state, c05-response,
c05-gate, c05-deliver, c05-accept-race, c05-stall.

  loopback         : a handful of enable/disable/connect/select histories on the REAL TcpServerConnection / TcpClientConnection (raw socket
                     peer on 127.0.0.1): disable while idle / connected / selected, twice in a row, peer close, both modes; the session
                     must answer Select.req, Linktest.req and data as on a fresh endpoint (`run_loopback`).

  queued dispatch  : a data block that waited in the dispatch queue (busy `message_received` handler) is dispatched after the peer has
                     closed — "never delivered while not SELECTED" also holds in NOT CONNECTED (`datq` as last input of a history, and the
                     faithful two-frames/peer-close/release scenario `run_slow_handler`).
"""
from __future__ import annotations

import itertools
import json
import os
import socket
import struct
import sys
import threading
import time
import types

sys.path.insert(0, os.path.dirname(os.path.dirname(os.path.abspath(__file__))))
import hlib  # noqa: E402

import logging  # noqa: E402

import secsgem.common  # noqa: E402
import secsgem.hsms  # noqa: E402
import secsgem.hsms.protocol as hsms_protocol_module  # noqa: E402
from secsgem.hsms import HsmsConnectMode, HsmsProtocol, HsmsSettings  # noqa: E402
from secsgem.hsms.connection_state_machine import ConnectionState  # noqa: E402

logging.disable(logging.CRITICAL)

WAIT = 20.0  # bound of every wait (seconds); never reached unless the endpoint hangs
WAIT_AFTER_STALL = 4.0  # once an endpoint of this process has hung, later waits use this bound ...
MAX_STALLS = 10  # ... and after this many hung histories the process stops replaying further ones (they are reported as skipped)
STALLS = 0


def load_factor() -> float:
    """every wait of this harness is on a logical condition (a counter around the library call, a queue, a thread having ended); the
    bound only decides when a missing answer is called a hang.  It stretches with the machine load, so that library threads which merely
    have not been scheduled yet are not mistaken for a hang (1 x on an idle machine, up to 8 x)."""
    try:
        per_cpu = os.getloadavg()[0] / (os.cpu_count() or 1)
    except OSError:
        per_cpu = 0.0
    return min(8.0, max(1.0, 2.0 * per_cpu))


def bound() -> float:
    return (WAIT if STALLS == 0 else WAIT_AFTER_STALL) * load_factor()
CTR0 = 1000  # the system counter every run starts from (the real one is random)
UNSOL = 4242  # system bytes that never match an open request
FALLBACK = 77  # what a "matching" token resolves to when nothing is open (so it is unsolicited)

STYPE = {"selreq": 1, "selrsp": 2, "desreq": 3, "desrsp": 4, "lnkreq": 5, "lnkrsp": 6, "rejreq": 7, "sepreq": 9}
REQ_KIND = {1: "sel", 3: "des", 5: "lnk"}
RSP_OF = {1: 2, 3: 4, 5: 6}
CONN = {ConnectionState.NOT_CONNECTED: "NC", ConnectionState.CONNECTED_NOT_SELECTED: "NS", ConnectionState.CONNECTED_SELECTED: "SEL",
        ConnectionState.CONNECTED: "CONNECTED?"}
# data message flavours: (stream, function, W, body)
DATA = {
    "cw": (1, 1, True, b""),             # catalogued, W            S1F1 W
    "cn": (1, 2, False, b"\x01\x00"),    # catalogued, no W         S1F2 <L>
    "uw": (99, 1, True, b""),            # uncatalogued, W          S99F1 W
    "un": (99, 3, False, b"\x41\x01x"),  # uncatalogued, no W
    "mw": (1, 3, True, b"\xff\xff\xff"),  # catalogued, malformed body, W
    "mn": (1, 4, False, b"\xff\xff\xff"),  # catalogued, malformed body, no W
    # W-bit and function parity are independent: a primary may be sent without W (S5F1, S6F11, S9Fx ...), and a peer may set W on an even function
    "pn": (1, 1, False, b""),            # PRIMARY (odd function) without W      S1F1
    "ew": (1, 2, True, b"\x01\x00"),     # even function WITH W                  S1F2 W <L>
}


# ------------------------------------------------------------------------------------------- the boundary
TIMERS: list = []  # every linktest timer the endpoint under test has created (reset per endpoint)


class FakeTimer:
    """`threading.Timer` for the linktest timer: pending until the harness fires it (input `lt`) or the code cancels it."""

    def __init__(self, _interval, function, *_a, **_k):
        self.function = function
        self.state = "new"
        self.daemon = True
        self.name = ""
        TIMERS.append(self)

    def start(self):
        self.state = "pending"

    def cancel(self):
        if self.state == "pending":
            self.state = "cancelled"


hsms_protocol_module.threading = types.SimpleNamespace(Timer=FakeTimer, Thread=threading.Thread)


def errname(exc) -> str:
    n = type(exc).__name__
    return {"WrongSourceStateError": "WrongSource", "UnknownTransitionError": "UnknownTransition"}.get(n) or hlib.errkind(exc).replace("Other:", "Other")


class MemConn(secsgem.common.Connection):
    """In-memory connection with TcpConnection's event discipline: `on_connected` only when down; the close sequence is
    `on_disconnecting; on_disconnected` (each guarded like TcpConnection's receiver thread guards them); data only while up."""

    def __init__(self, settings):
        super().__init__(settings)
        self.obs = []

    def enable(self):
        pass

    def disable(self):
        self.begin_disable()
        self.finish_disable()

    def send_data(self, data):
        self.obs.append(("tx", bytes(data)))
        return True

    def up(self):
        if self._connected:
            return
        self._connected = True
        try:
            self.on_connected({"source": self})
        except Exception as exc:  # noqa: BLE001 - TcpServerConnection/TcpClientConnection log and go on
            self.obs.append(("err", errname(exc)))

    def _close_seq(self):
        try:
            self.on_disconnecting({"source": self})
        except Exception as exc:  # noqa: BLE001
            self.obs.append(("err", errname(exc)))
        try:
            self.on_disconnected({"source": self})
        except Exception as exc:  # noqa: BLE001
            self.obs.append(("err", errname(exc)))
        self._connected = False
        self._disconnecting = False

    def peer_close(self):
        if self._connected:
            self._close_seq()

    def begin_disable(self):
        if self._connected:
            self._disconnecting = True

    def finish_disable(self):
        if self._connected and self._disconnecting:
            self._close_seq()

    def feed(self, data: bytes):
        if self._connected:
            self.on_data({"source": self, "data": data})


class Settings(HsmsSettings):
    def create_connection(self):
        self.conn = MemConn(self)
        return self.conn


class RecLogger:
    """stands in for the protocol's logger: records the exceptions `_dispatch_block` swallows"""

    def __init__(self, obs):
        self.obs = obs

    def exception(self, *_a, **_k):
        exc = sys.exc_info()[1]
        self.obs.append(("err", errname(exc) if exc is not None else "Other"))

    def debug(self, *_a, **_k):
        pass

    info = warning = error = critical = debug


class EventTap:
    """event target: sees every event the protocol fires"""

    def __init__(self, obs):
        self.obs = obs

    def _on_event(self, name, data):
        if name == "message_received":
            self.obs.append(("dl", "app", data["message"].header.system))
        else:
            self.obs.append(("ev", name))


def frame(stype: int, system: int, b2: int = 0, b3: int = 0, body: bytes = b"", session: int = 0xFFFF) -> bytes:
    """an HSMS frame, built here byte by byte (not with secsgem's encoder)"""
    hdr = struct.pack(">HBBBBL", session, b2, b3, 0, stype, system)
    return struct.pack(">L", len(hdr) + len(body)) + hdr + body


def parse_frames(raw: bytes):
    out = []
    while raw:
        n = struct.unpack(">L", raw[:4])[0]
        session, b2, b3, ptype, stype, system = struct.unpack(">HBBBBL", raw[4:14])
        out.append({"stype": stype, "sys": system, "b2": b2, "b3": b3, "len": n, "session": session, "ptype": ptype})
        raw = raw[4 + n:]
    return out


class Endpoint:
    """one real HsmsProtocol on a MemConn, instrumented from outside"""

    def __init__(self, active: bool):
        self.active = active
        del TIMERS[:-50]  # keep the registry short; stray late timers of earlier endpoints are filtered by owner
        self.timer_threads = set()
        mode = HsmsConnectMode.ACTIVE if active else HsmsConnectMode.PASSIVE
        self.settings = Settings(connect_mode=mode, t6=3600, t3=3600)
        self.p = HsmsProtocol(self.settings)
        self.p._system_counter = CTR0
        self.c = self.p._connection
        self.obs = self.c.obs
        self.p._logger = RecLogger(self.obs)
        self.p.events.targets += EventTap(self.obs)
        self.cv = threading.Condition()
        self.fed = 0
        self.dispatched = 0
        self.sent_by = {}  # thread -> completed send_message calls
        self.owner = {}  # system -> thread that waits on its queue
        self.dispatchers = []
        self.stalled = False
        self.hold_dispatch = None  # threading.Event: the dispatcher waits for it (lazy schedule of the accept race)
        p = self.p

        orig_target = p._thread._dispatcher_target

        def target(*a):
            if self.hold_dispatch is not None:
                self.hold_dispatch.wait(bound())
            try:
                orig_target(*a)
            except Exception as exc:  # noqa: BLE001
                self.obs.append(("err", errname(exc)))
                raise
            finally:
                with self.cv:
                    self.dispatched += 1
                    self.cv.notify_all()
        p._thread._dispatcher_target = target

        orig_send = p.send_message

        def send_message(message):
            r = orig_send(message)
            with self.cv:
                t = threading.current_thread()
                self.sent_by[t] = self.sent_by.get(t, 0) + 1
                self.cv.notify_all()
            return r
        p.send_message = send_message

        orig_gq = p._get_queue_for_system

        def get_queue(system_id):
            q = orig_gq(system_id)
            real = q.put_nowait

            def put_nowait(item):
                self.obs.append(("dl", "wait", item.header.system))
                real(item)
            q.put_nowait = put_nowait
            self.owner[system_id] = threading.current_thread()
            return q
        p._get_queue_for_system = get_queue

        orig_start = p._thread.start

        def start():
            orig_start()
            self.dispatchers.append(p._thread._dispatcher_thread)
            if self.after_start is not None:
                self.after_start()
        self.after_start = None
        p._thread.start = start

    # ---- waiting
    def wait_for(self, pred) -> bool:
        """no answer within the bound is an observation (`stalled`), never a hang of the harness"""
        global STALLS
        end = time.time() + bound()
        with self.cv:
            while not pred():
                left = end - time.time()
                if left <= 0:
                    if not self.stalled:
                        STALLS += 1
                    self.stalled = True
                    return False
                self.cv.wait(min(left, 0.002))  # some conditions (thread ended, queue removed) are not notified: poll
        return True

    def wait_sent(self, th):
        self.wait_for(lambda: self.sent_by.get(th, 0) >= 1 or not th.is_alive())

    def wait_owner_gone(self, system):
        th = self.owner.get(system)
        if th is not None:
            self.wait_for(lambda: system not in self.p._response_queues)
            # the requester then ends (a linktest-timer requester re-arms its timer first): part of this step's effects
            self.wait_for(lambda: not th.is_alive())

    # ---- linktest timers
    def stored_timer_pending(self) -> bool:
        t = self.p._linktest_timer
        return isinstance(t, FakeTimer) and t.state == "pending"

    def my_timers(self):
        # a requester of an EARLIER endpoint of this process may still re-arm its timer while it is being cleaned up: only this protocol's count
        return [t for t in list(TIMERS) if getattr(t.function, "__self__", None) is self.p]

    def orphan_timers(self) -> int:
        return len([t for t in self.my_timers() if t.state == "pending" and t is not self.p._linktest_timer])

    def pending_timer(self):
        """the timer that fires: the stored one if it is pending, else a stray one"""
        if self.stored_timer_pending():
            return self.p._linktest_timer
        return next((t for t in self.my_timers() if t.state == "pending"), None)

    def kind_of(self, system, kinds):
        k = kinds.get(system)
        if (k in (None, "lnk")) and self.owner.get(system) in self.timer_threads:
            return "ltm"
        return k

    # ---- state
    def conn(self) -> str:
        return CONN.get(self.p.connection_state.current, "?")

    def open_systems(self):
        return list(self.p._response_queues.keys())

    # ---- one input
    def apply(self, op: str):
        """op is concrete (see `concretise`)"""
        p, c = self.p, self.c
        parts = op.split(".")
        k = parts[0]
        if k == "con":
            before = p._select_req_thread
            c.up()
            th = p._select_req_thread
            if th is not None and th is not before:
                self.wait_sent(th)
        elif k == "pcl":
            c.peer_close()
        elif k == "dib":
            c.begin_disable()
        elif k == "die":
            c.finish_disable()
        elif k in ("rx", "dat"):
            if k == "rx":
                data = frame(STYPE[parts[1]], int(parts[2]), 0, int(parts[3]))
            else:
                s, f, w, system = int(parts[1]), int(parts[2]), parts[3] == "1", int(parts[4])
                body = bytes.fromhex(parts[6]) if len(parts) > 6 and parts[6] != "-" else b""
                data = frame(0, system, s | (0x80 if w else 0), f, body, session=0)
            if c.connected:
                queued_before = [s for s in self.open_systems()]
                self.fed += 1
                c.feed(data)
                want = self.fed
                self.wait_for(lambda: self.dispatched >= want)
                # a requester that was handed a message finishes and removes its queue
                for kind, *rest in self.obs[self.mark:]:
                    if kind == "dl" and rest[0] == "wait" and rest[1] in queued_before:
                        self.wait_owner_gone(rest[1])
        elif k == "datq":
            # a block that was received earlier and is still in the dispatch queue (behind a busy handler) is dispatched now:
            # what `_process_received_data` does after decoding a frame, without the connection
            s, f, w, system = int(parts[1]), int(parts[2]), parts[3] == "1", int(parts[4])
            body = bytes.fromhex(parts[6]) if len(parts) > 6 and parts[6] != "-" else b""
            block = secsgem.hsms.HsmsBlock.decode(frame(0, system, s | (0x80 if w else 0), f, body, session=0))
            queued_before = [x for x in self.open_systems()]
            self.fed += 1
            want = self.fed
            p._thread.queue_block(p, block)
            # without a connection the dispatcher blocks in `send_message` (no receiver thread): the Reject.req sits in the send queue
            self.wait_for(lambda: self.dispatched >= want or (not c.connected and p._send_queue.qsize() > 0))
            for kind, *rest in self.obs[self.mark:]:
                if kind == "dl" and rest[0] == "wait" and rest[1] in queued_before:
                    self.wait_owner_gone(rest[1])
        elif k == "api":
            if c.connected:
                fn = {"sel": p.send_select_req, "des": p.send_deselect_req, "lnk": p.send_linktest_req}[parts[1]]
                th = threading.Thread(target=fn, daemon=True)
                th.start()
                self.wait_sent(th)
        elif k == "lt":
            t = self.pending_timer()
            if t is not None:
                t.state = "fired"
                th = threading.Thread(target=t.function, daemon=True)  # what `threading.Timer` does when the interval is over
                self.timer_threads.add(th)
                th.start()
                # `_on_linktest_timer`: Linktest.req written (or, without a connection, left in the send queue), then it waits for the answer
                self.wait_for(lambda: self.sent_by.get(th, 0) >= 1 or not th.is_alive() or (not c.connected and p._send_queue.qsize() > 0))
        elif k == "t6":
            system = int(parts[1])
            q = p._response_queues.get(system)
            if q is not None:
                q.put(None)  # the requester's `get(True, t6)` returns None exactly as on queue.Empty, then removes its queue
                self.wait_owner_gone(system)
        else:
            raise ValueError(op)

    def step(self, op: str):
        self.mark = len(self.obs)
        pre = self.conn()
        self.apply(op)
        got = self.obs[self.mark:]
        raw = b"".join(x[1] for x in got if x[0] == "tx")
        frames = parse_frames(raw)
        blocked = []
        if not self.c.connected:
            blocked = parse_frames(b"".join(bytes(b.data) for b in list(self.p._send_queue.queue)))
        rec = {"op": op, "pre": pre, "post": self.conn(), "frames": frames, "blocked": blocked,
               "ev": [x[1] for x in got if x[0] == "ev"],
               "dl": [(x[1], x[2]) for x in got if x[0] == "dl"],
               "err": [x[1] for x in got if x[0] == "err"], "stall": self.stalled}
        return rec

    def cleanup(self):
        """after the observations: let every lingering thread of this endpoint end (bounded, best effort)"""
        p = self.p
        try:
            while not p._send_queue.empty():
                p._send_queue.get_nowait().resolve(False)  # a sender blocked on a dead connection
            for system in list(p._response_queues.keys()):
                q = p._response_queues.get(system)
                if q is not None:
                    q.put(None)
            if self.hold_dispatch is not None:
                self.hold_dispatch.set()
            if p._thread._receiver_thread is not None and p._thread._receiver_thread.is_alive():
                p._thread._stop_receiver_thread = True
                p._thread._receiver_thread_trigger.set()
            for _ in range(len(self.dispatchers) + 1):
                alive = [t for t in self.dispatchers if t.is_alive()]
                if not alive:
                    break
                p._thread._stop_dispatcher_thread = True
                p._thread._dispatcher_thread_trigger.set()
                alive[0].join(0.2)
                for t in alive:
                    t.join(0.02)
        except Exception:  # noqa: BLE001
            pass


def show_step(rec) -> str:
    def j(xs):
        return ";".join(xs) if xs else "-"
    if rec["stall"]:
        return "STALL"
    blk = rec.get("blocked") or []
    return (f"{rec['post']} tx={j([f'{f['stype']}/{f['sys']}/{f['b2']}/{f['b3']}' for f in rec['frames']])} ev={j(rec['ev'])} "
            f"dl={j([f'{a}/{b}' for a, b in rec['dl']])} err={j(rec['err'])}"
            + (f" blk={j([f'{f['stype']}/{f['sys']}/{f['b2']}/{f['b3']}' for f in blk])}" if blk else ""))


# ------------------------------------------------------------------------------------------- histories
def concretise(aop: str, ep: Endpoint, kinds: dict) -> str:
    """abstract op -> concrete op; symbolic system bytes are resolved against the implementation's open requests:
    Ms/Md/Ml = newest open Select/Deselect/Linktest request, Ma = newest open request of any kind, U = unsolicited."""
    parts = aop.split(".")

    def resolve(tok):
        if tok == "U":
            return UNSOL
        if tok in ("Ms", "Md", "Ml", "Ma"):
            want = {"Ms": ("sel",), "Md": ("des",), "Ml": ("lnk", "ltm"), "Ma": None}[tok]
            for system in reversed(ep.open_systems()):
                if want is None or ep.kind_of(system, kinds) in want:
                    return system
            return FALLBACK
        return int(tok)
    if parts[0] == "rx":
        return f"rx.{parts[1]}.{resolve(parts[2])}.{parts[3]}"
    if parts[0] in ("dat", "datq"):
        s, f, w, body = DATA[parts[1]]
        return f"{parts[0]}.{s}.{f}.{1 if w else 0}.{resolve(parts[2])}.X.{body.hex() or '-'}"
    if parts[0] == "t6":
        return f"t6.{resolve(parts[1])}"
    return aop


def decodable(ep: Endpoint, s, f, w, system, body) -> bool:
    try:
        msg = secsgem.hsms.HsmsMessage(secsgem.hsms.HsmsStreamFunctionHeader(system, s, f, w, 0), body)
        return ep.settings.streams_functions.decode(msg) is not None
    except Exception:  # noqa: BLE001
        return False


def run_history(active: bool, aops: list[str]):
    """-> (concrete ops for the driver, per-step records, final summary line, endpoint-independent oracle context)"""
    ep = Endpoint(active)
    kinds = {}  # system -> sel|des|lnk, learnt from the request frames on the wire
    recs, cops = [], []
    for idx, aop in enumerate(aops):
        if aop == "lt" and not ep.c.connected and ep.pending_timer() is not None and idx != len(aops) - 1:
            # a timer firing without a connection leaves its thread blocked in `send_message`; like a queued block dispatched without a
            # connection this is followed only as the LAST input of a history (the send queue across a reconnect is C06/C09's subject)
            continue
        cop = concretise(aop, ep, kinds)
        if cop.startswith(("dat.", "datq.")):
            pp = cop.split(".")
            d = decodable(ep, int(pp[1]), int(pp[2]), pp[3] == "1", int(pp[4]), bytes.fromhex(pp[6]) if pp[6] != "-" else b"")
            cop = ".".join(pp[:5] + ["1" if d else "0"] + pp[6:])
        open_before = {s: ep.kind_of(s, kinds) for s in ep.open_systems()}
        closing_before = bool(ep.c.disconnecting)
        rec = ep.step(cop)
        rec["open_before"] = open_before
        rec["closing"] = closing_before
        rec["aop"] = aop
        for fr in rec["frames"]:
            if fr["stype"] in REQ_KIND:
                kinds[fr["sys"]] = REQ_KIND[fr["stype"]]
        recs.append(rec)
        cops.append(cop)
        if rec["stall"]:
            break
    opn = ";".join(f"{s}/{ep.kind_of(s, kinds) or '?'}" for s in ep.open_systems()) or "-"
    final = (f"ok {ep.conn()} dis={1 if ep.c.disconnecting else 0} ctr={ep.p._system_counter} open={opn} "
             f"lt={1 if ep.stored_timer_pending() else 0}/{ep.orphan_timers()}")
    ep.cleanup()
    return cops, recs, final


def driver_op(cop: str) -> str:
    pp = cop.split(".")
    return ".".join(pp[:6]) if pp[0] in ("dat", "datq") else cop


def impl_answer(recs, final) -> str:
    return " | ".join([final] + [show_step(r) for r in recs])


# ------------------------------------------------------------------------------------------- the direct oracle
def e37_next(conn: str, closing: bool, trig: tuple) -> set:
    """the E37 session table (DESIGN.md C05) written out independently of the Lean model: the set of admissible successor states"""
    k = trig[0]
    if k == "tcp-up":
        return {"NS"} if conn == "NC" else {conn}
    if k == "tcp-down":
        return {"NC"}
    if k == "selreq":
        return {"SEL"} if conn == "NS" and not closing else {conn}
    if k == "selrsp":
        return {"SEL"} if conn == "NS" and trig[1] and trig[2] == 0 else {conn}
    if k == "desreq":
        return {"NS"} if conn == "SEL" and not closing else {conn}
    if k == "desrsp":
        return {"NS"} if conn == "SEL" and trig[1] and trig[2] == 0 else {conn}
    if k == "sepreq":
        return {"NS", "NC"} if conn == "SEL" else {conn}  # "not SELECTED": NOT SELECTED per E37, NOT CONNECTED per E37.1
    return {conn}


def trigger_of(rec) -> tuple:
    pp = rec["op"].split(".")
    k = pp[0]
    if k == "con":
        return ("tcp-up",)
    if k == "pcl":
        return ("tcp-down",) if rec["pre"] != "NC" else ("other",)
    if k == "die":
        return ("tcp-down",) if rec["closing"] and rec["pre"] != "NC" else ("other",)
    if k == "rx" and rec["pre"] != "NC":
        st = pp[1]
        system, status = int(pp[2]), int(pp[3])
        if st == "selrsp":
            return ("selrsp", rec["open_before"].get(system) == "sel", status)
        if st == "desrsp":
            return ("desrsp", rec["open_before"].get(system) == "des", status)
        if st in ("selreq", "desreq", "sepreq", "lnkreq"):
            return (st,)
    return ("other",)


def oracle(rec):
    """-> list of (class, what) the property text is violated by in this step"""
    out = []
    if rec["stall"]:
        return [("c05-stall", "the endpoint did not finish handling the input within the bound")]
    pre, post, closing = rec["pre"], rec["post"], rec["closing"]
    trig = trigger_of(rec)
    allowed = e37_next(pre, closing, trig)
    if post not in allowed:
        if trig[0] in ("selrsp", "desrsp") and not (trig[1] and trig[2] == 0):
            cls = "c05-select-rsp-unchecked"
        elif trig[0] == "sepreq" and pre == "SEL" and post == "SEL":
            cls = "c05-separate-ignored"
        else:
            cls = "c05-state"
        out.append((cls, f"state after {trig} in {pre}{' (closing)' if closing else ''} is {post}, E37 allows {sorted(allowed)}"))
    pp = rec["op"].split(".")
    frames = rec["frames"]
    if pp[0] == "rx" and pre != "NC" and STYPE[pp[1]] in RSP_OF:
        st, system = STYPE[pp[1]], int(pp[2])
        ok_rsp = len(frames) == 1 and frames[0]["stype"] == RSP_OF[st] and frames[0]["sys"] == system
        ok_rej = closing and len(frames) == 1 and frames[0]["stype"] == 7 and frames[0]["sys"] == system
        if not (ok_rsp or ok_rej):
            out.append(("c05-response", f"{pp[1]} sys={system} in {pre}{' (closing)' if closing else ''} answered by "
                        f"{[(f['stype'], f['sys']) for f in frames]}, expected exactly one {'response or Reject' if closing else 'response'} with its system bytes"))
    if pp[0] == "datq" and pre == "NC":
        # dispatched after the connection it came on was closed: "a data message received while not SELECTED is never delivered";
        # no connection, so no Reject.req is demanded (what becomes of the queued one is C06/C09's subject)
        if rec["dl"]:
            out.append(("c05-gate", f"data message sys={int(pp[4])} dispatched while NOT CONNECTED was delivered: {rec['dl']}"))
    if pp[0] in ("dat", "datq") and pre != "NC":
        system = int(pp[4])
        dl = rec["dl"]
        if pre != "SEL":
            if dl:
                out.append(("c05-gate", f"data message sys={system} delivered while {pre}: {dl}"))
            if not (len(frames) == 1 and frames[0]["stype"] == 7 and frames[0]["sys"] == system and frames[0]["b3"] == 4):
                out.append(("c05-gate", f"data message sys={system} while {pre} answered by {[(f['stype'], f['sys'], f['b3']) for f in frames]}, "
                            "expected exactly one Reject.req reason 4 with its system bytes"))
        else:
            mine = [d for d in dl if d[1] == system]
            if len(dl) > 1 or (pp[5] == "1" and len(mine) != 1):
                out.append(("c05-deliver", f"well-formed data message sys={system} while SELECTED delivered {len(mine)} times ({dl})"))
            elif pp[5] == "1":
                # only a reply (even function code, F0 included) can belong to an open transaction of this endpoint; a primary whose
                # system bytes collide with one is a new transaction of the peer and must reach the application
                is_reply = int(pp[2]) % 2 == 0
                want = "wait" if (is_reply and system in rec["open_before"]) else "app"
                if mine[0][0] != want:
                    out.append(("c05-deliver", f"{'reply' if is_reply else 'primary'} S{pp[1]}F{pp[2]} sys={system} went to {mine[0][0]}, expected {want} "
                                f"(a requester {'was' if system in rec['open_before'] else 'was not'} waiting on these system bytes)"))
    return out


# ------------------------------------------------------------------------------------------- the accept race
def run_race(policy: str):
    """Select.req (system 55) is in the receive buffer when `on_connected` fires.
    eager: `ProtocolDispatcher.start` returns only after the buffered request was dispatched.
    lazy : the dispatcher is held until `_on_connected` has returned."""
    ep = Endpoint(False)
    ep.mark = 0
    if policy == "eager":
        ep.after_start = lambda: ep.wait_for(lambda: ep.dispatched >= 1)
    else:
        ep.hold_dispatch = threading.Event()
    ep.c._connected = True  # accepted; the connection's receiver already reads
    ep.c.on_data({"source": ep.c, "data": frame(1, 55)})
    try:
        ep.c.on_connected({"source": ep.c})
    except Exception as exc:  # noqa: BLE001
        ep.obs.append(("err", errname(exc)))
    if ep.hold_dispatch is not None:
        ep.hold_dispatch.set()
    ep.wait_for(lambda: ep.dispatched >= 1)
    ep.stalled = False if ep.dispatched >= 1 else ep.stalled
    if ep.dispatched >= 1:  # handled: the Select.rsp is written before `select()`; give the frame the (short) time to appear
        ep.wait_for(lambda: any(x[0] == "tx" for x in ep.obs) or ep.conn() == "SEL")
    frames = parse_frames(b"".join(x[1] for x in ep.obs if x[0] == "tx"))
    rsp = any(f["stype"] == 2 and f["sys"] == 55 for f in frames)
    raised = any(x[0] == "err" for x in ep.obs)
    started = ep.p._thread._receiver_thread is not None
    ans = f"ok conn={ep.conn()} started={1 if started else 0} rsp={1 if rsp else 0} raised={1 if raised else 0} final=1"
    conn = ep.conn()
    stalled = ep.dispatched < 1
    ep.cleanup()
    return ans, rsp, conn, stalled


# ------------------------------------------------------------------------------------------- queued behind a busy handler
def run_slow_handler(active: bool):
    """The peer sends two data messages and closes at once; the application's `message_received` handler is still busy with the first
    (it blocks until the close sequence has finished), so the second is dispatched — by the dispatcher thread, which a close does not
    stop — when the session is already NOT CONNECTED.  Real path throughout: frames fed to the connection, receiver thread, dispatch
    queue.  -> (model line, implementation's last step as the driver prints it, delivered systems after the release, state at release)"""
    ep = Endpoint(active)
    gate = threading.Event()

    def busy(data):
        if data["message"].header.system == 101:
            gate.wait(600)  # released by the harness below in every path; never by the clock
    ep.p.events.message_received += busy
    ep.step("con")
    ep.step("rx.selreq.4242.0")
    ep.mark = len(ep.obs)
    ep.fed += 1
    ep.c.feed(frame(0, 101, 0x81, 1, session=0))                      # S1F1 W: delivered, the handler blocks
    ep.wait_for(lambda: ("dl", "app", 101) in ep.obs)
    ep.fed += 1
    ep.c.feed(frame(0, 102, 0x81, 1, session=0))                      # S1F1 W: waits in the dispatch queue
    ep.wait_for(lambda: ep.p._thread._dispatch_queue.qsize() >= 1)
    ep.c.peer_close()
    at_release = ep.conn()
    ep.mark = len(ep.obs)
    pre = ep.conn()
    gate.set()
    want = ep.fed
    ep.wait_for(lambda: ep.dispatched >= want or (not ep.c.connected and ep.p._send_queue.qsize() > 0))
    got = ep.obs[ep.mark:]
    rec = {"op": "datq.1.1.1.102.1", "pre": pre, "post": ep.conn(), "frames": parse_frames(b"".join(x[1] for x in got if x[0] == "tx")),
           "blocked": parse_frames(b"".join(bytes(b.data) for b in list(ep.p._send_queue.queue))) if not ep.c.connected else [],
           "ev": [x[1] for x in got if x[0] == "ev"], "dl": [(x[1], x[2]) for x in got if x[0] == "dl"],
           "err": [x[1] for x in got if x[0] == "err"], "stall": ep.stalled, "open_before": {}, "closing": False}
    line = f"hsmsfsm run {'a' if active else 'p'} {CTR0} DD con,rx.selreq.4242.0,dat.1.1.1.101.1,pcl,datq.1.1.1.102.1"
    gate.set()
    ep.cleanup()
    return line, rec, at_release


# ------------------------------------------------------------------------------------------- the real TCP classes on loopback
class SkipScenario(Exception):
    """something only the environment explains (a port taken by another process, the harness's own socket failing): never a violation"""


class LoopbackFailure(Exception):
    def __init__(self, cls, what):
        super().__init__(what)
        self.cls, self.what = cls, what


def wait_until(pred, what=None, cls="c05-stall"):
    """logical condition with the load-scaled hang bound; raises when `what` is given and the condition never holds"""
    end = time.time() + bound()
    while not pred():
        if time.time() > end:
            if what is None:
                return False
            raise LoopbackFailure(cls, f"{what} (not within {bound():.0f} s)")
        time.sleep(0.002)
    return True


def bounded_call(fn, what):
    th = threading.Thread(target=fn, daemon=True)
    th.start()
    wait_until(lambda: not th.is_alive(), f"{what} did not return")


class RawPeer:
    """the remote entity: a plain socket speaking HSMS frames built and parsed here"""

    def __init__(self, sock):
        self.sock = sock
        self.sock.setsockopt(socket.IPPROTO_TCP, socket.TCP_NODELAY, 1)
        self.sock.settimeout(0.05)
        self.buf = b""
        self.frames = []
        self.eof = False

    def send(self, data: bytes):
        self.sock.sendall(data)

    def pump(self):
        try:
            chunk = self.sock.recv(65536)
            if not chunk:
                self.eof = True
            self.buf += chunk
        except (TimeoutError, BlockingIOError, InterruptedError):
            pass
        except OSError:
            self.eof = True
        while len(self.buf) >= 4 and len(self.buf) >= 4 + struct.unpack(">L", self.buf[:4])[0]:
            n = 4 + struct.unpack(">L", self.buf[:4])[0]
            self.frames += parse_frames(self.buf[:n])
            self.buf = self.buf[n:]

    def read_until(self, pred, what, cls="c05-response"):
        def ready():
            self.pump()
            return pred(self.frames) or self.eof
        wait_until(ready, what, cls)
        if not pred(self.frames):
            raise LoopbackFailure(cls, f"{what}: the endpoint closed the connection instead; frames so far {[(f['stype'], f['sys']) for f in self.frames]}")

    def with_sys(self, system):
        return [f for f in self.frames if f["sys"] == system]

    def close(self):
        try:
            self.sock.close()
        except OSError:
            pass


class Loopback:
    """a REAL HsmsProtocol on the REAL TcpServerConnection / TcpClientConnection, the peer a raw socket on 127.0.0.1"""

    def __init__(self, active: bool, idx: int = 0):
        self.active = active
        self.listener = None
        try:
            if active:
                # the raw peer listens on a port the kernel picks and keeps it for the whole scenario
                self.listener = socket.socket()
                self.listener.bind(("127.0.0.1", 0))
                self.listener.listen(4)
                self.listener.settimeout(0.05)
                self.port = self.listener.getsockname()[1]
            else:
                # the endpoint binds itself: a port below the ephemeral range, spread by process id so that concurrent runs do not meet,
                # checked to be free right now (a later collision shows as "cannot connect to OUR endpoint" and is skipped)
                self.port = None
                for attempt in range(200):
                    cand = 20000 + (os.getpid() * 16 + idx * 4 + attempt * 97) % 12000
                    probe = socket.socket()
                    try:
                        probe.bind(("127.0.0.1", cand))
                        self.port = cand
                        break
                    except OSError:
                        continue
                    finally:
                        probe.close()
                if self.port is None:
                    raise SkipScenario("no free port for the passive endpoint")
        except OSError as exc:
            raise SkipScenario(f"the harness's own socket failed: {exc}") from exc
        mode = HsmsConnectMode.ACTIVE if active else HsmsConnectMode.PASSIVE
        self.p = HsmsProtocol(HsmsSettings(address="127.0.0.1", port=self.port, connect_mode=mode, t5=0.5, t6=3600, t3=3600))
        self.delivered = []
        self.p.events.message_received += lambda data: self.delivered.append(data["message"].header.system)
        self.closed = [0]  # `disconnected` events: an active endpoint reconnects at once, NOT CONNECTED is only a moment there

        def on_disconnected(_data):
            self.closed[0] += 1
        self.p.events.disconnected += on_disconnected
        self.base = 5000
        self.log = []

    def conn(self):
        return CONN.get(self.p.connection_state.current, "?")

    # ---- the endpoint's side
    def enable(self):
        self.log.append("enable")
        bounded_call(self.p.enable, "enable()")

    def disable(self):
        self.log.append(f"disable[{self.conn()}]")
        bounded_call(self.p.disable, f"disable() in {self.conn()}")
        wait_until(lambda: self.conn() == "NC", "the session is not NOT CONNECTED after disable()", "c05-state")

    # ---- the peer's side
    def connect(self) -> RawPeer:
        self.log.append("connect")
        holder = []

        def attempt():
            try:
                if self.active:
                    sock, _ = self.listener.accept()
                else:
                    sock = socket.create_connection(("127.0.0.1", self.port), timeout=0.2)
                holder.append(sock)
                return True
            except OSError:
                return False
        if not wait_until(attempt):
            raise SkipScenario("no TCP connection with the endpoint (port taken by another process, or the endpoint could not bind it)")
        peer = RawPeer(holder[0])
        if not wait_until(lambda: self.conn() != "NC"):
            raise SkipScenario("a TCP connection exists but OUR endpoint did not get it (another process answers on this port)")
        return peer

    def peer_close(self, peer):
        self.log.append("peer-close")
        n = self.closed[0]
        peer.close()
        wait_until(lambda: self.closed[0] > n, "the session did not go through NOT CONNECTED (no `disconnected` event) after the peer closed", "c05-state")

    def data_not_selected(self, peer):
        """data message while NOT SELECTED: Reject.req reason 4 with its system bytes, never delivered"""
        self.log.append("data-not-selected")
        self.base += 10
        system = self.base
        peer.send(frame(0, system, 0x81, 1, session=0))
        peer.read_until(lambda fs: any(f["sys"] == system for f in fs), f"data message sys={system} while {self.conn()} got no answer", "c05-gate")
        got = peer.with_sys(system)
        if not (len(got) == 1 and got[0]["stype"] == 7 and got[0]["b3"] == 4) or system in self.delivered:
            raise LoopbackFailure("c05-gate", f"data message sys={system} while not SELECTED answered by {[(f['stype'], f['b3']) for f in got]}, "
                                  f"delivered={system in self.delivered}; expected exactly one Reject.req reason 4, not delivered")

    def session(self, peer):
        """select (the active endpoint asks, the passive one is asked), then Select.req / Linktest.req / data as the peer sends them"""
        self.log.append("session")
        self.base += 10
        b = self.base
        if self.active:
            peer.read_until(lambda fs: any(f["stype"] == 1 for f in fs), "the active endpoint sent no Select.req on the new connection")
            req = [f for f in peer.frames if f["stype"] == 1][-1]
            peer.send(frame(2, req["sys"]))
            wait_until(lambda: self.conn() == "SEL", "not SELECTED after the Select.rsp (status 0) for the endpoint's open Select.req", "c05-state")
        # both requests must be answered; a further Linktest round trip afterwards is the fence for "exactly one" (after a reconnect the
        # endpoint has more than one dispatcher thread - open class c06-dispatcher-leak - so two answers may overtake each other)
        peer.send(frame(1, b + 1))
        peer.send(frame(5, b + 2))
        peer.read_until(lambda fs: any(f["sys"] == b + 1 for f in fs) and any(f["sys"] == b + 2 for f in fs),
                        f"Select.req sys={b + 1} / Linktest.req sys={b + 2} in {self.conn()} not both answered")
        peer.send(frame(5, b + 4))
        peer.read_until(lambda fs: any(f["sys"] == b + 4 for f in fs), f"Linktest.req sys={b + 4} got no answer")
        sel, lnk = peer.with_sys(b + 1), peer.with_sys(b + 2)
        if [f["stype"] for f in sel] != [2]:
            raise LoopbackFailure("c05-response", f"Select.req sys={b + 1} answered by {[(f['stype'], f['sys']) for f in sel]}, expected exactly one Select.rsp")
        if [f["stype"] for f in lnk] != [6]:
            raise LoopbackFailure("c05-response", f"Linktest.req sys={b + 2} answered by {[(f['stype'], f['sys']) for f in lnk]}, expected exactly one Linktest.rsp")
        wait_until(lambda: self.conn() == "SEL", f"state after Select.req/Select.rsp is {self.conn()}, expected SELECTED", "c05-state")
        peer.send(frame(0, b + 3, 0x81, 1, session=0))
        wait_until(lambda: (b + 3) in self.delivered, f"well-formed data message sys={b + 3} while SELECTED was not delivered", "c05-deliver")
        if self.delivered.count(b + 3) != 1:
            raise LoopbackFailure("c05-deliver", f"data message sys={b + 3} delivered {self.delivered.count(b + 3)} times")

    def shutdown(self):
        try:
            th = threading.Thread(target=self.p.disable, daemon=True)
            th.start()
            th.join(2.0)
            if self.listener is not None:
                self.listener.close()
        except Exception:  # noqa: BLE001
            pass


def lb_passive_idle_disable(lb):
    lb.enable(); lb.disable(); lb.enable()                       # local disable while NOT CONNECTED, no peer ever connected
    peer = lb.connect(); lb.data_not_selected(peer); lb.session(peer)
    lb.disable()                                                 # local disable while SELECTED
    peer.close()
    lb.enable(); peer = lb.connect(); lb.session(peer); peer.close()


def lb_passive_twice(lb):
    lb.enable(); lb.disable(); lb.disable(); lb.enable(); lb.enable()   # twice in a row, both ways
    peer = lb.connect(); lb.data_not_selected(peer)
    lb.disable()                                                 # local disable while connected, NOT SELECTED
    peer.close()
    lb.enable(); peer = lb.connect(); lb.session(peer)
    lb.peer_close(peer)                                          # peer close, the endpoint listens again
    peer = lb.connect(); lb.data_not_selected(peer); lb.session(peer); peer.close()


def lb_active(lb):
    lb.enable(); peer = lb.connect(); lb.session(peer)
    lb.disable(); lb.disable()                                   # while SELECTED, then again
    peer.close()
    lb.enable(); peer = lb.connect(); lb.session(peer)
    lb.peer_close(peer)                                          # peer close: the active endpoint connects again
    peer = lb.connect(); lb.session(peer); peer.close()


def lb_active_not_selected(lb):
    lb.enable(); peer = lb.connect(); lb.data_not_selected(peer)  # the endpoint's Select.req stays unanswered
    lb.disable()                                                 # local disable while NOT SELECTED with an open Select.req
    peer.close()
    lb.enable(); peer = lb.connect(); lb.session(peer); peer.close()


LOOPBACK = [("passive: disable while idle, then while selected", False, lb_passive_idle_disable),
            ("passive: disable/enable twice, disable while connected, peer close", False, lb_passive_twice),
            ("active: disable while selected (twice), peer close", True, lb_active),
            ("active: disable while not selected", True, lb_active_not_selected)]


def run_loopback():
    """the scenarios run side by side (own ports): -> [(name, active, log, failure or None)]"""
    out = []

    def one(idx, name, active, script):
        lb, fail, log = None, None, []
        try:
            lb = Loopback(active, idx)
            script(lb)
        except SkipScenario as exc:
            fail = ("skipped", str(exc))
        except LoopbackFailure as exc:
            fail = (exc.cls, exc.what)
        except OSError as exc:  # the raw peer's own socket: environment
            fail = ("skipped", f"the harness's own socket failed: {type(exc).__name__}: {exc}")
        except Exception as exc:  # noqa: BLE001
            fail = ("c05-stall", f"loopback scenario died: {type(exc).__name__}: {exc}")
        finally:
            if lb is not None:
                log = list(lb.log)
                lb.shutdown()
        out.append((name, active, log, fail))
    threads = [threading.Thread(target=one, args=(i,) + x, daemon=True) for i, x in enumerate(LOOPBACK)]
    for t in threads:
        t.start()
    for t in threads:
        t.join(8 * bound())
    for (name, active, _), t in zip(LOOPBACK, threads):
        if t.is_alive():
            out.append((name, active, ["(did not finish)"], ("c05-stall", "loopback scenario did not finish")))
    return out


# ------------------------------------------------------------------------------------------- generators
CORE = ["con", "pcl", "dib", "die", "rx.selreq.U.0", "rx.desreq.U.0", "rx.lnkreq.U.0", "rx.selrsp.U.0", "rx.desrsp.U.0",
        "rx.sepreq.U.0", "rx.rejreq.U.0", "dat.cw.U", "dat.cn.U"]
FULL = CORE + ["rx.selrsp.Ms.0", "rx.selrsp.Ms.1", "rx.selrsp.Ml.0", "rx.desrsp.Md.0", "rx.desrsp.Md.1", "rx.lnkrsp.Ml.0", "rx.lnkrsp.U.0",
               "rx.rejreq.Ma.0", "rx.sepreq.Ma.0", "dat.uw.U", "dat.un.U", "dat.mw.U", "dat.mn.U", "dat.cw.Ma", "dat.cn.Ma",
               "dat.pn.U", "dat.ew.U", "dat.pn.Ma", "dat.ew.Ma",
               "api.sel", "api.des", "api.lnk", "t6.Ma", "lt"]
PREFIXES = [["con"], ["con", "rx.selreq.U.0"], ["con", "dib"], ["con", "rx.selreq.U.0", "dib"], ["con", "rx.selreq.U.0", "api.des"],
            ["con", "api.lnk"]]


QUEUED = ["datq.cw.U", "datq.un.U", "datq.mw.U", "datq.cn.Ma", "datq.pn.Ma"]
# state-establishing prefixes for the queued dispatch, including the closed connection (the dispatcher thread survives a close)
QPREFIXES = PREFIXES + [["con", "pcl"], ["con", "rx.selreq.U.0", "pcl"], ["con", "rx.selreq.U.0", "dib", "die"],
                        ["con", "rx.selreq.U.0", "pcl", "con"], ["con", "rx.selreq.U.0", "pcl", "con", "pcl"],
                        ["con", "rx.selreq.U.0", "api.lnk", "pcl"]]


def gen_queued(rng: hlib.Rng, n_random: int, big: bool = False):
    """a block dispatched from the queue is always the LAST input: while NOT CONNECTED it leaves the dispatcher blocked in `send_message`,
    and neither the model nor this harness follows the send queue across a reconnect (C06/C09)"""
    out = []
    for active in (False, True):
        for pre in QPREFIXES:
            for mid in [[]] + [[x] for x in (FULL if big else CORE)]:
                for q in QUEUED:
                    out.append((active, pre + mid + [q]))
    for active, h in gen_random(rng, n_random):
        if "con" not in h:
            h = ["con"] + h
        out.append((active, h + [rng.choice(QUEUED)]))
    return out


def gen_random(rng: hlib.Rng, n: int):
    out = []
    for _ in range(n):
        ln = rng.range(4, 14)
        h = ["con"] if rng.chance(3, 4) else []
        while len(h) < ln:
            if rng.chance(1, 6):
                h.append(rng.choice(["con", "pcl", "dib", "die"]))
            else:
                h.append(rng.choice(FULL))
        out.append((rng.chance(1, 2), h))
    return out


def work(job):
    """runs in a worker process: histories -> (active, aops, cops, impl answer, oracle findings, stats)"""
    out = []
    for active, aops in job:
        if STALLS >= MAX_STALLS:
            break  # the endpoint hangs again and again: the hung histories found so far are the finding, the rest is reported as skipped
        cops, recs, final = run_history(active, aops)
        finds = []
        for i, r in enumerate(recs):
            for cls, what in oracle(r):
                finds.append((cls, what, i))
        stats = [(r["pre"], r["op"].split(".")[0] + ("." + r["op"].split(".")[1] if r["op"].startswith(("rx.", "api.")) else ""), r["closing"]) for r in recs]
        out.append((active, aops, cops, impl_answer(recs, final), finds, stats))
    return out


def run_all(histories, workers: int):
    if workers <= 1 or len(histories) < 64:
        return work(histories)
    import multiprocessing as mp
    ctx = mp.get_context("fork")
    chunk = max(8, min(200, len(histories) // (workers * 4) + 1))
    jobs = [histories[i:i + chunk] for i in range(0, len(histories), chunk)]
    with ctx.Pool(workers) as pool:
        res = pool.map(work, jobs, chunksize=1)
    return [x for part in res for x in part]


# ------------------------------------------------------------------------------------------- main
class RetryDriver(hlib.Driver):
    """several builders share one `.lake`: the driver binary is briefly absent while another check relinks it"""

    def __init__(self):
        for _ in range(60):
            super().__init__()
            if self.available:
                break
            time.sleep(1.0)

    def run(self, lines, timeout: float = 600.0):
        last = None
        for _ in range(20):
            try:
                return super().run(lines, timeout)
            except (OSError, RuntimeError) as exc:
                last = exc
                time.sleep(1.5)
        raise last


def probe_defects():
    """replay the witnesses of the two findings repaired by 812b685 / bfe991b: which model variant describes this tree
    (Defects.none unless one of the fixes has been reverted)"""
    _, recs, _ = run_history(False, ["con", "rx.selrsp.U.0"])
    d1 = recs[-1]["post"] == "SEL"
    _, recs, _ = run_history(False, ["con", "rx.selreq.U.0", "rx.sepreq.U.0"])
    d2 = recs[-1]["post"] == "SEL"
    return d1, d2


def line_for(active, cops, defects) -> str:
    return f"hsmsfsm run {'a' if active else 'p'} {CTR0} {defects} " + (",".join(driver_op(c) for c in cops) or "-")


def main():
    a = hlib.std_args()
    res = hlib.Result("C05", a.tier, a.seed)
    rng = hlib.Rng(a.seed ^ 0xC05)
    drv = RetryDriver()
    big = a.tier == "thorough" or a.search
    workers = int(os.environ.get("VERIF_WORKERS", "0") or 0) or min(12 if a.tier == "thorough" else 8, os.cpu_count() or 1)
    watchdog = threading.Timer(3000 if a.tier == "thorough" else 850, lambda: os._exit(3))  # below check.py's harness budget
    watchdog.daemon = True
    watchdog.start()

    d1, d2 = probe_defects()
    defects = f"{1 if d1 else 0}{1 if d2 else 0}"
    res.notes.append("witness replay of the two repaired findings (F-4 fix 812b685, F-5 fix bfe991b): "
                     + ("this tree shows the repaired behaviour, model variant Defects.none" if not (d1 or d2) else
                        f"REGRESSION - this tree shows the pre-fix behaviour again (selectRspUnchecked={d1}, separateIgnored={d2}); the model is driven "
                        "as Defects.preFix so that the correspondence still localises other differences, the oracle reports the E37 deviation as "
                        "class c05-select-rsp-unchecked / c05-separate-ignored (no longer listed in known_findings.txt: a NEW violation)"))
    res.rule = ("histories over {con, pcl (peer close), dib/die (local disable begin/end), rx Select/Deselect/Linktest.req, Select/Deselect.rsp "
                "(solicited status 0 / solicited status 1 / unsolicited / matching another kind of request), Separate.req, Reject.req, Linktest.rsp, "
                "data (catalogued / uncatalogued / malformed body) x (odd / even function) x (W / no W) x (unsolicited / matching system bytes of an open own transaction), api select/deselect/linktest, "
                "T6 expiry, linktest timer firing}, active and passive; exhaustive over the 13-letter core alphabet from the initial state and over the full alphabet after "
                "six state-establishing prefixes; seeded random histories of 4-14 inputs.  distinct = distinct (mode, concretised history); "
                "non-trivial = the history leaves NOT CONNECTED")

    histories = []
    if a.replay:
        body = json.load(open(a.replay))
        for v in body.get("violations", []):
            case = v.get("case") or {}
            if case.get("kind") == "history":
                histories.append((bool(case["active"]), list(case["aops"])))
        race_only = [v["case"].get("policy") for v in body.get("violations", []) if (v.get("case") or {}).get("kind") == "race"]
        if not histories and not race_only:
            a.replay = None
    if not a.replay:
        thorough = a.tier == "thorough"
        depth_core = 4 if thorough else 3          # --search (a tie or proof broke) keeps the quick depths and widens the random part: <= 120 s
        deep_prefixes = PREFIXES[:2] if thorough else []   # NOT SELECTED and SELECTED: full alphabet to depth 3
        srng = rng.fork("sampled-continuations")
        for active in (False, True):
            if thorough:
                for combo in itertools.product(CORE, repeat=depth_core):  # shorter histories are prefixes of these
                    histories.append((active, list(combo)))
            else:
                # quick: every core history of length 3 that does not begin with `con` (those are continued exhaustively below with the full
                # alphabet); before the first `con` only `con` does anything, so nothing is lost against the thorough tier but volume
                for combo in itertools.product(CORE, repeat=depth_core):
                    if combo[0] != "con" and "con" in combo:
                        histories.append((active, list(combo)))
            for pre in PREFIXES:
                if pre in deep_prefixes:
                    depth = 3
                elif thorough or pre in PREFIXES[:2]:
                    depth = 2            # NOT SELECTED and SELECTED: every continuation of length 2 over the full alphabet
                else:
                    depth = 1            # quick, the closing / api prefixes: every single continuation, and a seeded sample of the pairs
                for combo in itertools.product(FULL, repeat=depth):
                    histories.append((active, pre + list(combo)))
                if depth == 1:
                    for _ in range(250):
                        histories.append((active, pre + [srng.choice(FULL), srng.choice(FULL)]))
        res.exhaustive_parts.append((f"all {len(CORE)}^{depth_core} histories over the core alphabet from the initial state" if thorough else
                                     f"all histories of length {depth_core} over the core alphabet that contain `con` but do not start with it")
                                    + ", active and passive")
        res.exhaustive_parts.append(f"all {len(FULL)}^2 continuations over the full alphabet after each of {len(PREFIXES) if thorough else 2} prefixes"
                                    + (f" ({len(FULL)}^3 after {deep_prefixes})" if deep_prefixes else f"; all {len(FULL)} single continuations + 250 seeded pairs after the other {len(PREFIXES) - 2}")
                                    + ", active and passive")
        histories += gen_random(rng, 3000 if big else 500)
        histories += gen_queued(rng.fork("queued"), 1500 if big else 250, big)
        res.exhaustive_parts.append(f"dispatch of a queued data block ({len(QUEUED)} flavours) as last input after each of {len(QPREFIXES)} prefixes "
                                    f"(incl. closed connections) x (nothing | one letter of the {'full' if big else 'core'} alphabet), active and passive")
        # corpus: the witnesses of the recorded findings, fixed and open
        histories += [(False, ["con", "rx.selrsp.U.0"]), (True, ["con", "rx.selrsp.Ms.1"]), (False, ["con", "rx.selreq.U.0", "rx.desrsp.U.0"]),
                      (False, ["con", "rx.selreq.U.0", "rx.sepreq.U.0"]), (False, ["con", "dat.uw.U"]), (False, ["con", "dat.mw.U"]),
                      (False, ["con", "rx.selreq.U.0", "dat.uw.U"]), (False, ["con", "rx.selreq.U.0", "rx.selreq.U.0"]),
                      (True, ["con", "rx.selreq.U.0", "rx.selrsp.Ms.0", "rx.desreq.U.0", "rx.selrsp.Ms.0"]),
                      (False, ["con", "rx.selreq.U.0", "dat.cw.U", "pcl", "datq.cw.U"]),
                      (False, ["con", "lt", "pcl", "t6.Ma", "con", "lt", "rx.lnkrsp.Ml.0", "lt"]), (True, ["con", "lt", "rx.lnkrsp.Ml.0", "lt", "pcl", "lt"]),
                      (False, ["con", "lt", "pcl", "t6.Ma", "lt"]),
                      (True, ["con", "rx.selreq.U.0", "dat.cw.Ma", "dat.cn.Ma"]),
                      # routing by function parity, not by W-bit: odd/even x W/no-W x matching/non-matching with an open own transaction
                      (True, ["con", "rx.selreq.U.0", "dat.pn.Ma", "dat.ew.Ma"]), (False, ["con", "rx.selreq.U.0", "api.lnk", "dat.pn.Ma", "dat.cw.Ma", "dat.ew.Ma"]),
                      (False, ["con", "rx.selreq.U.0", "api.lnk", "dat.pn.U", "dat.ew.U", "dat.cn.U", "dat.cw.U", "dat.cn.Ma"]), (False, ["con", "rx.selreq.U.0", "api.lnk", "dat.mw.Ma", "dat.mn.Ma"])]

    t0 = time.time()
    results = run_all(histories, workers)
    res.notes.append(f"{len(histories)} histories on the implementation in {time.time() - t0:.1f}s with {workers} workers")
    if len(results) < len(histories):
        res.notes.append(f"{len(histories) - len(results)} histories NOT replayed: the endpoint kept hanging (>= {MAX_STALLS} histories per worker without an "
                         "answer within the bound); see the c05-stall violation")

    lines, cases, answers = [], [], []
    seen_viol = {}
    for active, aops, cops, ans, finds, stats in results:
        key = (active, tuple(cops))
        res.count(key, nontrivial=any(s[0] != "NC" for s in stats), sample={"mode": "active" if active else "passive", "history": cops} if len(res.samples) < 6 and len(cops) > 3 else None)
        for pre, kind, closing in stats:
            res.bump("input_by_state", f"{pre}{'+closing' if closing else ''}:{kind}")
        res.bump("history_len", len(cops))
        lines.append(line_for(active, cops, defects))
        cases.append({"kind": "history", "active": active, "aops": aops, "cops": cops})
        answers.append(ans)
        for cls, what, idx in finds:
            res.bump("oracle_findings", cls)
            cur = seen_viol.get(cls)
            if cur is None or len(aops[:idx + 1]) < len(cur[1]):
                seen_viol[cls] = (active, aops[:idx + 1], what)
    hlib.compare_batch(res, drv, "HsmsProtocol history vs Model.Hsms.step", cases, lines, answers)

    def fails_with(cls, active):
        def f(aops):
            _, recs, _ = run_history(active, aops)
            return any(c == cls for r in recs for c, _ in oracle(r))
        return f
    for cls, (active, aops, what) in sorted(seen_viol.items()):
        small = hlib.ddmin(aops, fails_with(cls, active)) if len(aops) > 2 else aops
        cops, recs, _ = run_history(active, small)
        w = [wh for r in recs for c, wh in oracle(r) if c == cls]
        res.violate(cls, (w[0] if w else what), {"kind": "history", "active": active, "aops": small, "cops": cops},
                    expected="E37 table / property text", actual=[show_step(r) for r in recs])
    # shrink model/implementation disagreements to the shortest disagreeing prefix
    for dis in res.disagreements[:3]:
        case = dis["case"]["case"]
        for n in range(1, len(case["aops"]) + 1):
            cops, recs, final = run_history(case["active"], case["aops"][:n])
            m = hlib.strip_branch(drv.run([line_for(case["active"], cops, defects)])[0])
            if m != impl_answer(recs, final):
                dis["case"] = {"case": {"kind": "history", "active": case["active"], "aops": case["aops"][:n], "cops": cops}, "line": line_for(case["active"], cops, defects)}
                dis["model"], dis["impl"] = m, impl_answer(recs, final)
                break

    # ---- accept race
    race_policies = ["eager", "lazy"]
    rlines, rcases, ranswers = [], [], []
    for pol in race_policies:
        for rep in range(3 if not big else 10):
            ans, rsp, conn, stalled = run_race(pol)
            res.count(("race", pol, rep), sample={"accept race": pol, "answer": ans} if rep == 0 else None)
            res.bump("accept_race", f"{pol}: {ans}")
            if stalled or not rsp:
                # "every Select request is answered by exactly one response ... (e.g. a Select.req that is already in flight when the connection
                # is accepted)": the request was handed to `on_data` BEFORE `on_connected`, nothing follows it, and no Select.rsp came
                res.violate("c05-accept-race", f"accept race ({pol}): the Select.req that was in the receive buffer when the connection was accepted "
                            f"got no Select.rsp within {bound():.0f} s (endpoint {conn}, request {'never dispatched' if stalled else 'dispatched'})",
                            {"kind": "race", "policy": pol}, expected="exactly one Select.rsp with its system bytes, then SELECTED", actual=ans)
                break
            elif rsp and conn != "SEL":
                res.violate("c05-accept-race", f"accept race ({pol}): Select.rsp was sent but the endpoint ended {conn}", {"kind": "race", "policy": pol},
                            expected="Select.rsp sent => SELECTED", actual=ans)
            if rep == 0:
                rlines.append(f"hsmsfsm race gen {pol}")
                rcases.append({"kind": "race", "policy": pol})
                ranswers.append(ans)
    hlib.compare_batch(res, drv, "_on_connected vs dispatcher (accept race) vs Model.Hsms.Race", rcases, rlines, ranswers)

    # ---- a data message queued behind a busy handler, dispatched after the peer closed
    for active in (False, True):
        for rep in range(2 if not big else 6):
            line, rec, at_release = run_slow_handler(active)
            line = line.replace("DD", defects)
            res.count(("slow-handler", active, rep), sample={"slow handler": "two data frames, peer close, release", "last step": show_step(rec)} if rep == 0 else None)
            res.bump("slow_handler", f"{'active' if active else 'passive'}: released in {at_release}: {show_step(rec)}")
            case = {"kind": "slow-handler", "active": active}
            for cls, what in oracle(rec):
                res.violate(cls, "busy handler, second data frame, peer close, release: " + what, case, expected="not delivered", actual=show_step(rec))
            if rep == 0 and drv.available:
                res.driver_used = True
                m = hlib.strip_branch(drv.run([line])[0]).split(" | ")[-1]
                res.traces_validated += 1
                if m != show_step(rec):
                    res.disagree("block dispatched after the close (busy handler) vs Model.Hsms.step rxDataQueued", {"case": case, "line": line}, m, show_step(rec))

    # ---- enable / disable / connect histories through the real TCP classes (loopback), both modes
    t0 = time.time()
    for name, active, log, fail in run_loopback():
        res.count(("loopback", name), sample={"loopback": name, "steps": log})
        res.bump("loopback", f"{name}: {'ok' if fail is None else fail[0]}")
        if fail is not None and fail[0] == "skipped":
            res.notes.append(f"loopback scenario '{name}' SKIPPED (environment, not a finding): {fail[1]}; steps so far: {', '.join(log)}")
        elif fail is not None:
            res.violate(fail[0], f"real TcpServerConnection/TcpClientConnection, {name}: after {', '.join(log)}: {fail[1]}",
                        {"kind": "loopback", "name": name, "active": active, "steps": log}, expected="the session answers as on a fresh endpoint")
    res.notes.append(f"{len(LOOPBACK)} loopback scenarios on the real TCP connection classes in {time.time() - t0:.1f}s (direct oracle only)")

    res.dump(a.out)
    sys.stdout.flush()
    os._exit(0)


if __name__ == "__main__":
    main()
