"""C19 — SFDL structure definitions are read exactly as documented.

Correspondence (C): the same texts go to the real `SFDLTokenizer` / `functions.generate` and to the Lean model driver
(`sfdl split|tok|parse`), canonical dumps are compared.
Direct oracle (O): for `Def` trees drawn from the documented grammar (docs/firststeps/sfdl.md) over the catalogue's data item
names, rendered under random layouts (blanks, tabs, CR, LF, CRLF, comments incl. directly after a word, comment at EOF; plus
texts produced by the Lean `Spec.Sfdl.render` itself), the shape the real code builds (class kinds, keys in order, item classes)
must be the documented shape (`Spec.Sfdl.shape`, from the driver and from the Python twin below) whenever the tree satisfies the
stated hypotheses (non-empty lists, distinct keys, list names where the documentation shows them) — and also on every other tree on
which the validated model of the unchanged code yields the documented shape.  Definitions with a closing bracket removed or with
an unknown item name must raise.
"""
from __future__ import annotations

import json
import os
import sys

sys.path.insert(0, os.path.dirname(os.path.dirname(os.path.abspath(__file__))))
import hlib  # noqa: E402

import secsgem.secs.data_items as data_items_mod  # noqa: E402
from secsgem.secs.functions import sfdl_tokenizer as tokmod  # noqa: E402
from secsgem.secs.functions.sfdl_tokenizer import SFDLParseError, SFDLTokenizer, SFDLTokenType  # noqa: E402
from secsgem.secs.variables import Array, List  # noqa: E402
from secsgem.secs.variables import functions as vfunctions  # noqa: E402

KNOWN_CLASS = "c19-named-single-member-list"

# ------------------------------------------------------------------------------------------------ canonical encodings


def plain(s: str) -> bool:
    return len(s) > 0 and all((c.isascii() and c.isalnum()) or c == "_" for c in s)


def enc_name(s: str) -> str:
    return s if plain(s) else "%" + ".".join("%x" % ord(c) for c in s)


def hex_text(t: str) -> str:
    return hlib.hexs(t.encode("utf-8"))


def errname(exc: BaseException) -> str:
    if isinstance(exc, SFDLParseError):
        return "ParseError"
    return hlib.errkind(exc)


TT = {SFDLTokenType.OPEN_TAG: "O", SFDLTokenType.CLOSE_TAG: "C", SFDLTokenType.DATA_ITEM: "D", SFDLTokenType.LIST: "L", SFDLTokenType.LIST_NAME: "N"}

_captured: list = []
_orig_process = SFDLTokenizer._process_tokens


def _spy(self, elements, tokens=None):
    if tokens is None:
        _captured.append([v for v, _ in elements._items])  # the element list `parse_all` built
    return _orig_process(self, elements, tokens)


SFDLTokenizer._process_tokens = _spy


def impl_split(text: str) -> str:
    _captured.clear()
    try:
        SFDLTokenizer(text)
    except Exception:  # noqa: BLE001
        pass
    if not _captured:
        return "err no-elements"
    return ("ok " + " ".join(enc_name(e) for e in _captured[0])).rstrip() if _captured[0] else "ok "


def impl_tok(text: str) -> str:
    try:
        toks = SFDLTokenizer(text).tokens._tokens
    except Exception as exc:  # noqa: BLE001
        return "err " + errname(exc)
    return "ok " + " ".join(TT[t.type] + ":" + enc_name(t.value) for t in toks)


def dump_obj(v) -> str:
    if isinstance(v, Array):
        elem = vfunctions.generate(v.item_decriptor)
        return f"(arr {enc_name(v.name)} {dump_obj(elem)})"
    if isinstance(v, List):
        return f"(rec {enc_name(v.name)}" + "".join(f" ({enc_name(k)} {dump_obj(x)})" for k, x in v.data.items()) + ")"
    if v is None:
        return "(none)"
    return f"(item {enc_name(type(v).__name__)})"


def impl_parse(text: str) -> str:
    try:
        return "ok " + dump_obj(vfunctions.generate(text))
    except Exception as exc:  # noqa: BLE001
        return "err " + errname(exc)


def erase(dump: str) -> str:
    """drop the object names of a dump: (arr NAME e) -> (arr e), (rec NAME …) -> (rec …)"""
    out = []
    ws = dump.replace("(", " ( ").replace(")", " ) ").split()
    i = 0
    while i < len(ws):
        if ws[i] in ("arr", "rec") and i > 0 and ws[i - 1] == "(":
            out.append(ws[i])
            i += 2  # skip the name
        else:
            out.append(ws[i])
            i += 1
    s = " ".join(out)
    return s.replace("( ", "(").replace(" )", ")")


# ------------------------------------------------------------------------------------------------ Def trees + documented shape (twin of Spec/Sfdl.lean)
# a Def is ("I", name) or ("L", name|None, [members])


def def_sexpr(d) -> str:
    if d[0] == "I":
        return f"( I {enc_name(d[1])} )"
    return f"( L {enc_name(d[1]) if d[1] is not None else '-'} " + "".join(def_sexpr(m) + " " for m in d[2]) + ")"


def doc_key(d) -> str:
    if d[0] == "I":
        return d[1]
    if d[1] is not None:
        return d[1]
    if len(d[2]) == 1 and d[2][0][0] == "I":
        return d[2][0][1]
    return "DATA"


def doc_shape(d) -> str:
    if d[0] == "I":
        return f"(item {enc_name(d[1])})"
    if len(d[2]) == 1:
        return f"(arr {doc_shape(d[2][0])})"
    return "(rec" + "".join(f" ({enc_name(doc_key(m))} {doc_shape(m)})" for m in d[2]) + ")"


def non_empty(d) -> bool:
    return d[0] == "I" or (len(d[2]) > 0 and all(non_empty(m) for m in d[2]))


def keys_distinct(d) -> bool:
    if d[0] == "I":
        return True
    ks = [doc_key(m) for m in d[2]]
    return len(set(ks)) == len(ks) and all(keys_distinct(m) for m in d[2])


def ok_under_name(m) -> bool:
    return m[0] == "I" or m[1] is not None or (len(m[2]) > 0 and m[2][0][0] == "L")


def names_documented(d) -> bool:
    if d[0] == "I":
        return True
    ms = d[2]
    if d[1] is None:
        here = not (len(ms) == 1 and ms[0][0] == "L" and ms[0][1] is not None)
    else:
        form_a = len(ms) >= 2 and ms[0][0] == "I" and all(ok_under_name(m) for m in ms[1:])
        form_b = len(ms) == 1 and ms[0][0] == "L" and ms[0][1] is None and len(ms[0][2]) >= 2 and ms[0][2][0][0] == "I"
        here = form_a or form_b
    return here and all(names_documented(m) for m in ms)


def item_names(d):
    if d[0] == "I":
        return [d[1]]
    return [n for m in d[2] for n in item_names(m)]


def tokens_of(d):
    if d[0] == "I":
        return ["<", d[1], ">"]
    return ["<", "L"] + ([d[1]] if d[1] is not None else []) + [t for m in d[2] for t in tokens_of(m)] + [">"]


def has_named_single(d, inherited=None) -> bool:
    """the finding's pattern: a one-member list of a data item that carries a name (its own or the enclosing list's)"""
    if d[0] == "I":
        return False
    tn = d[1] if d[1] is not None else inherited
    if len(d[2]) == 1 and d[2][0][0] == "I" and tn:
        return True
    return any(has_named_single(m, d[1]) for m in d[2])


def doc_read(text: str):
    """reference reader written from the documentation: brackets, words, `#` comments to the line break -> Def (or None)"""
    toks, cur, i = [], "", 0
    while i < len(text):
        c = text[i]
        if c == "#":
            if cur:
                toks.append(cur)
                cur = ""
            while i < len(text) and text[i] not in "\n\r":
                i += 1
            continue
        if c in " \t\n\r":
            if cur:
                toks.append(cur)
                cur = ""
        elif c in "<>":
            if cur:
                toks.append(cur)
                cur = ""
            toks.append(c)
        else:
            cur += c
        i += 1
    if cur:
        toks.append(cur)
    pos = 0

    def one():
        nonlocal pos
        if pos >= len(toks) or toks[pos] != "<":
            raise ValueError
        pos += 1
        w = toks[pos]
        pos += 1
        if w != "L":
            if toks[pos] != ">":
                raise ValueError
            pos += 1
            return ("I", w)
        name = None
        if toks[pos] not in "<>":
            name = toks[pos]
            pos += 1
        ms = []
        while toks[pos] != ">":
            ms.append(one())
        pos += 1
        return ("L", name, ms)
    try:
        d = one()
        return d if pos == len(toks) else None
    except (ValueError, IndexError):
        return None


# ------------------------------------------------------------------------------------------------ generators
LIST_NAMES_PLAIN = ["REPORTS", "DS", "DV", "PARAMS", "X", "Y1", "DATA", "ERRORS", "n_1", "l", "L", "LL"]
LIST_NAMES_ODD = ["a.b", "été", "(x)", "N-1", "名", "x:y", "'q'", "%41", "a/b", "\U0001F600", "[1]", "L!"]


class Gen:
    def __init__(self, rng: hlib.Rng, items: list[str]):
        self.rng = rng
        self.items = items

    def item(self):
        return ("I", self.rng.choice(self.items))

    def list_name(self):
        r = self.rng
        if r.chance(1, 8):
            return r.choice(self.items)  # a list named like a data item
        return r.choice(LIST_NAMES_PLAIN) if r.chance(3, 4) else r.choice(LIST_NAMES_ODD)

    def free(self, depth: int, p_name=(1, 3), p_empty=(1, 40)):
        r = self.rng
        if depth <= 0 or r.chance(2, 5):
            return self.item()
        if r.chance(*p_empty):
            return ("L", self.list_name() if r.chance(1, 2) else None, [])
        k = r.choice([1, 1, 1, 2, 2, 2, 3, 3, 4, 6])
        name = self.list_name() if r.chance(*p_name) else None
        return ("L", name, [self.free(depth - 1, p_name, p_empty) for _ in range(k)])

    def documented(self, depth: int, under_name=False, sole_of_unnamed=False):
        """a tree that uses list names only where the documentation shows them, with distinct keys and no empty list"""
        r = self.rng
        if depth <= 0 or r.chance(1, 3):
            return self.item()
        form = r.choice(["u", "u", "u", "A", "B"]) if not sole_of_unnamed else "u"
        if form == "A" and depth >= 1:
            k = r.choice([2, 2, 3, 4])
            ms = [self.item()] + [self.documented(depth - 1, under_name=True) for _ in range(k - 1)]
            return self.fix(("L", self.list_name(), ms))
        if form == "B" and depth >= 1:
            k = r.choice([2, 2, 3])
            inner = ("L", None, [self.item()] + [self.documented(depth - 2) for _ in range(k - 1)])
            return ("L", self.list_name(), [self.fix(inner)])
        k = r.choice([1, 1, 2, 2, 3, 4, 5])
        if under_name:
            # an unnamed member of a named list must start with a list
            first = self.documented(max(depth - 1, 1), sole_of_unnamed=(k == 1))
            while first[0] != "L":
                first = ("L", None, [first]) if k > 1 or first[0] == "I" else first
            ms = [first] + [self.documented(depth - 1) for _ in range(k - 1)]
        else:
            ms = [self.documented(depth - 1, sole_of_unnamed=(k == 1)) for _ in range(k)]
        return self.fix(("L", None, ms))

    def fix(self, d):
        """make the member keys of a list pairwise different by replacing later duplicates with fresh data items"""
        seen = set()
        ms = []
        for i, m in enumerate(d[2]):
            k = doc_key(m)
            tries = 0
            while k in seen and tries < 50:
                m = self.item()
                k = doc_key(m)
                tries += 1
            seen.add(k)
            ms.append(m)
        return ("L", d[1], ms)


WS = [" ", " ", " ", "\t", "\n", "\r", "\r\n", "  ", "\n    "]
COMMENT_BODIES = ["", " c", " The data id", "<", ">", "#", " < L > ", "L", " é名 ", "##", " a # b ", "\t", "x" * 40]
EOLS = ["\n", "\n", "\r", "\r\n"]


def gap(rng: hlib.Rng, need: bool, style: int) -> str:
    """style 0: compact, 1: blanks, 2: blanks+comments, 3: heavy"""
    if style == 0 and not need:
        return ""
    n = rng.choice([0, 1, 1, 2]) if style >= 1 else 0
    if style == 3:
        n = rng.range(0, 4)
    out = ""
    for _ in range(n):
        if style >= 2 and rng.chance(1, 3):
            out += "#" + rng.choice(COMMENT_BODIES) + rng.choice(EOLS)
        else:
            out += rng.choice(WS)
    if need and out == "":
        out = "#" + rng.choice(COMMENT_BODIES) + rng.choice(EOLS) if style >= 2 and rng.chance(1, 2) else " "
    return out


def render(rng: hlib.Rng, d, style: int) -> str:
    if d[0] == "I":
        return "<" + gap(rng, False, style) + d[1] + gap(rng, False, style) + ">"
    s = "<" + gap(rng, False, style) + "L"
    if d[1] is not None:
        s += gap(rng, True, style) + d[1]
    s += gap(rng, False, style)
    for m in d[2]:
        s += render(rng, m, style) + gap(rng, False, style)
    return s + ">"


def render_top(rng: hlib.Rng, d, style: int) -> str:
    s = gap(rng, False, style) + render(rng, d, style) + gap(rng, False, style)
    if style >= 2 and rng.chance(1, 4):
        s += "#" + rng.choice(COMMENT_BODIES)  # comment at EOF without a line break
    return s


def render_tokens(rng: hlib.Rng, toks, style: int) -> str:
    """token list -> text; a separator is forced between two words"""
    out = ""
    for i, t in enumerate(toks):
        if i > 0:
            need = toks[i - 1] not in "<>" and t not in "<>"
            out += gap(rng, need, style)
        out += t
    return out


# ------------------------------------------------------------------------------------------------ main
class RobustDriver(hlib.Driver):
    """the driver binary is relinked whenever another check rebuilds it: wait for it instead of failing on the gap"""

    def __init__(self):
        import time
        super().__init__()
        for _ in range(60):
            if self.available:
                break
            time.sleep(1.0)
            super().__init__()

    def run(self, lines, timeout: float = 600.0):
        import time
        last = None
        for _ in range(60):
            try:
                return super().run(lines, timeout)
            except (OSError, RuntimeError) as exc:  # missing / half-written executable, or a run cut short by the relink
                last = exc
                time.sleep(1.5)
        raise RuntimeError(f"model driver unusable: {last}")


def load_facts():
    """gen/facts.json is rewritten by every check run (also concurrent ones of other properties): retry a torn read"""
    import time
    last = None
    for _ in range(25):
        try:
            with open(os.path.join(hlib.ROOT, "gen", "facts.json")) as fh:
                facts = json.load(fh)
            if "Catalogue" in facts and "DataItems" in facts:
                return facts
        except (OSError, ValueError) as exc:
            last = exc
        time.sleep(0.2)
    raise RuntimeError(f"gen/facts.json unreadable: {last}")


def main():
    a = hlib.std_args()
    if a.replay:
        # a replay is the deterministic re-execution of the recorded run: same seed, same tier, same cases
        rp = json.load(open(a.replay))
        a.seed, a.tier = int(rp.get("seed", a.seed)), rp.get("tier", a.tier)
    res = hlib.Result("C19", a.tier, a.seed)
    _violate, _per_class = res.violate, {}

    def capped_violate(klass, *args, **kw):
        """at most eight entries per finding class, so that a flood of one class cannot push another one out of the report"""
        _per_class[klass] = _per_class.get(klass, 0) + 1
        res.bump("violations_by_class", klass)
        if _per_class[klass] <= 8:
            _violate(klass, *args, **kw)
    res.violate = capped_violate
    rng = hlib.Rng(a.seed ^ 0xC19)
    drv = RobustDriver()
    big = a.tier == "thorough" or a.search
    res.rule = ("Def trees from the documented grammar (depth<=4 quick / 6 thorough, width 1..6, item names from the 124 catalogue items, list names plain/odd/"
                "equal to item names) in three families (documented name placement; free placement incl. empty lists and duplicate keys; the finding's "
                "pattern) x layouts (compact, blanks, blanks+comments, heavy; CR/LF/CRLF, comment right after a word, comment at EOF) + texts rendered by the "
                "Lean Spec.render; mutations: every single-token deletion, unknown/misspelt item names; random token soups; the 134 catalogue texts. "
                "distinct = distinct text; non-trivial = text with at least one list")

    facts = load_facts()
    items = [r["cls"] for r in facts["DataItems"]["items"]]
    item_set = set(items)
    g = Gen(rng, items)

    # ---- tie of Gen.DataItems to the live module namespace
    live = sorted(n for n in dir(data_items_mod) if getattr(data_items_mod, n, None) is not None)
    mine = sorted(facts["DataItems"]["module_attrs"])
    res.count(("module-attrs",), nontrivial=False)
    if live != mine:
        res.disagree("Gen.DataItems.moduleAttrs vs dir(secsgem.secs.data_items)", {"only_live": sorted(set(live) - set(mine)), "only_gen": sorted(set(mine) - set(live))},
                     len(mine), len(live))
    live_classes = sorted(n for n in live if isinstance(getattr(data_items_mod, n), type) and n != "DataItemBase")
    if live_classes != sorted(items):
        res.disagree("Gen.DataItems.items vs live data item classes", {"only_live": sorted(set(live_classes) - item_set), "only_gen": sorted(item_set - set(live_classes))},
                     len(items), len(live_classes))

    batch_cases, batch_lines, batch_impl = [], [], []

    def queue(kind: str, text: str, case, doc=None):
        """one text through split/tok/parse on both sides; `doc`: the documented shape of the tree the text was rendered from"""
        hx = hex_text(text)
        for op, fn in (("split", impl_split), ("tok", impl_tok), ("parse", impl_parse)):
            batch_cases.append({"op": op, "kind": kind, "text": text if len(text) < 400 else text[:400] + "…", "case": case, "doc": doc if op == "parse" else None})
            batch_lines.append(f"sfdl {op} {hx}")
            batch_impl.append(fn(text).rstrip() if op != "split" else fn(text).rstrip())

    def flush(what: str):
        if not batch_lines:
            return
        # the driver prints "ok " + "" for an empty list; normalise trailing blanks on both sides
        if drv.available:
            res.driver_used = True
            outs = drv.run(batch_lines)
            for case, line, m, i in zip(batch_cases, batch_lines, outs, batch_impl):
                res.traces_validated += 1
                if hlib.strip_branch(m).rstrip() != i.rstrip():
                    res.disagree(what + " " + case["op"], case, m[:1500], i[:1500])
                    # outside the theorem's hypotheses the oracle still judges every tree on which the validated model of the unchanged
                    # code yields the documented shape: there the code must yield it too
                    m0 = hlib.strip_branch(m).rstrip()
                    if case.get("doc") and m0.startswith("ok ") and erase(m0[3:]) == case["doc"] and not (i.startswith("ok ") and erase(i[3:]) == case["doc"]):
                        res.violate("c19-shape", "a well-formed definition does not get the documented shape",
                                    {"def": case["case"], "text": case["text"], "kind": case["kind"]}, "ok " + case["doc"], i[:600])
        else:
            res.notes.append(f"driver unavailable: correspondence '{what}' skipped ({len(batch_lines)} lines)")
        batch_cases.clear()
        batch_lines.clear()
        batch_impl.clear()

    spec_cache: dict = {}

    def spec_of(trees):
        """documented shape + hypothesis flags from the Lean Spec (driver) for a list of trees; twin-checked"""
        todo = [d for d in trees if def_sexpr(d) not in spec_cache]
        if todo and drv.available:
            outs = drv.run(["sfdl spec " + def_sexpr(d) for d in todo])
            for d, o in zip(todo, outs):
                spec_cache[def_sexpr(d)] = o
                twin = (f"ok {doc_shape(d)} words=1 known={int(all(n in item_set for n in item_names(d)))} nonempty={int(non_empty(d))} "
                        f"names={int(names_documented(d))} distinct={int(keys_distinct(d))}")
                res.traces_validated += 1
                if o.replace("words=0", "words=1") != twin:
                    res.disagree("Spec.Sfdl.shape/hypotheses (driver) vs the harness twin written from the documentation", {"def": def_sexpr(d)}, o[:1500], twin[:1500])

    def oracle_shape(d, text: str, kind: str):
        """O: the real shape is the documented shape when the hypotheses hold"""
        hyp = non_empty(d) and keys_distinct(d) and names_documented(d) and all(n in item_set for n in item_names(d))
        got = impl_parse(text)
        res.bump("real_outcome", got.split()[0] if got.startswith("ok") else got)
        if not hyp:
            res.bump("hypotheses", "outside (C only)")
            return
        res.bump("hypotheses", "inside (O judged)")
        want = "ok " + doc_shape(d)
        if not got.startswith("ok") or erase(got[3:]) != want[3:]:
            res.violate("c19-shape", "a well-formed definition does not get the documented shape", {"def": def_sexpr(d), "text": text, "kind": kind}, want, got)

    # ---- 0. the finding's witnesses (the documentation's own example)
    for wtext, wdef in (("< L\n    < TRID >\n    < DSPER >\n    < TOTSMP >\n    < REPGSZ >\n    < L SVIDS\n        < SVID >\n    >\n>",
                         ("L", None, [("I", "TRID"), ("I", "DSPER"), ("I", "TOTSMP"), ("I", "REPGSZ"), ("L", "SVIDS", [("I", "SVID")])])),
                        ("< L X < L < SVID > > >", ("L", "X", [("L", None, [("I", "SVID")])]))):
        got = impl_parse(wtext)
        want = "ok " + doc_shape(wdef)
        res.count(("witness", wtext), sample={"op": "documented S2F23 example", "text": wtext, "real": got})
        queue("witness", wtext, def_sexpr(wdef))
        if not got.startswith("ok") or erase(got[3:]) != want[3:]:
            behaviour = None
            if wdef[1] is None:
                try:
                    v = vfunctions.generate(wtext)
                    v.set({"TRID": 1, "DSPER": "000010", "TOTSMP": 1, "REPGSZ": 1, "SVIDS": [1, 2, 3]})
                    behaviour = "set accepted"
                except Exception as exc:  # noqa: BLE001
                    behaviour = f"set of three SVIDs: {type(exc).__name__}: {str(exc)[:80]}"
            res.violate(KNOWN_CLASS, "a named list with one data-item member becomes a one-field record instead of an open array",
                        {"text": wtext, "def": def_sexpr(wdef), "behaviour": behaviour}, want, got)
    flush("witness")

    # ---- 1. trees x layouts
    n_trees = 6000 if big else 1500
    depth = 6 if big else 4
    trees = []
    for i in range(n_trees):
        fam = ("doc", "doc", "doc", "free", "free", "finding")[i % 6]
        if fam == "doc":
            d = g.documented(rng.range(1, depth))
            if d[0] == "I" and rng.chance(3, 4):
                d = g.fix(("L", None, [d] + [g.item() for _ in range(rng.range(0, 3))]))
        elif fam == "free":
            d = g.free(rng.range(1, depth))
        else:
            inner = ("L", g.list_name(), [g.item()])
            d = inner if rng.chance(1, 3) else g.fix(("L", None, [g.item(), inner] + [g.documented(1) for _ in range(rng.range(0, 2))]))
        trees.append((fam, d))
    spec_of([d for _, d in trees])
    lean_render_lines = []
    for i, (fam, d) in enumerate(trees):
        nontrivial = d[0] == "L"
        for style in ((0, 1, 2, 3) if i % 3 == 0 else (rng.choice([0, 1]), rng.choice([2, 3]))):
            text = render_top(rng, d, style)
            res.count(("tree", text), nontrivial=nontrivial,
                      sample={"op": "tree", "family": fam, "def": def_sexpr(d), "text": text[:200]} if i < 6 and style == 2 else None)
            res.bump("family", fam)
            res.bump("layout_style", style)
            res.bump("tokens", min(len(tokens_of(d)) // 10 * 10, 60))
            queue("tree/" + fam, text, def_sexpr(d), doc_shape(d))
            if fam == "finding" and has_named_single(d):
                res.bump("hypotheses", "finding pattern (C only)")
            else:
                oracle_shape(d, text, fam)
            # the model must give exactly the documented tokens for every layout (what C19.tokenize_render says)
            want_tokens = "ok " + " ".join(enc_name(t) for t in tokens_of(d))
            got_tokens = impl_split(text)
            if got_tokens.rstrip() != want_tokens.rstrip():
                res.violate("c19-tokens", "layout (blanks/comments) changes the tokens of a definition", {"def": def_sexpr(d), "text": text}, want_tokens, got_tokens)
        if i % 4 == 0:
            lean_render_lines.append((fam, d, f"sfdl render {rng.below(1 << 30)} " + def_sexpr(d)))
        if len(batch_lines) > 3000:
            flush("trees")
    flush("trees")

    # texts produced by Spec.Sfdl.render itself (the function the theorems quantify over) -> real code
    if drv.available and lean_render_lines:
        outs = drv.run([ln for _, _, ln in lean_render_lines])
        for (fam, d, ln), o in zip(lean_render_lines, outs):
            if not o.startswith("ok "):
                res.disagree("Spec.Sfdl.render through the driver", {"line": ln}, o, "ok <hex>")
                continue
            text = bytes.fromhex(o[3:]).decode("utf-8") if o[3:] != "-" else ""
            res.count(("lean-render", text), nontrivial=d[0] == "L")
            res.bump("layout_style", "lean-render")
            queue("lean-render/" + fam, text, def_sexpr(d), doc_shape(d))
            want_tokens = "ok " + " ".join(enc_name(t) for t in tokens_of(d))
            if impl_split(text).rstrip() != want_tokens.rstrip():
                res.violate("c19-tokens", "Spec.render text is not read as the tokens of its definition", {"def": def_sexpr(d), "text": text}, want_tokens, impl_split(text))
            if not (fam == "finding" and has_named_single(d)):
                oracle_shape(d, text, "lean-render/" + fam)
        flush("lean-render")

    # ---- 2. mutations of well-formed definitions
    n_mut = 1200 if big else 250
    n_del = 0
    for i in range(n_mut):
        d = g.documented(rng.range(1, 3))
        if d[0] == "I":
            d = ("L", None, [d])
        toks = tokens_of(d)
        for j in range(len(toks)):
            mut = toks[:j] + toks[j + 1:]
            text = render_tokens(rng, mut, rng.choice([0, 1, 2]))
            n_del += 1
            res.count(("del", text), nontrivial=True, sample={"op": "delete token", "index": j, "token": toks[j], "text": text[:160]} if i == 0 and j < 2 else None)
            queue("delete-token", text, {"def": def_sexpr(d), "deleted": j, "token": toks[j]})
            got = impl_parse(text)
            kind = "'>'" if toks[j] == ">" else ("'<'" if toks[j] == "<" else ("L" if toks[j] == "L" and j > 0 and toks[j - 1] == "<" else "word"))
            res.bump("deleted_token->outcome", f"{kind} -> {got.split()[0] if got.startswith('ok') else got}")
            if toks[j] == ">" and got.startswith("ok"):
                res.violate("c19-missing-close-accepted", "a definition with a closing bracket removed is accepted", {"def": def_sexpr(d), "deleted": j, "text": text}, "an error", got)
        # unknown / misspelt item names
        names = item_names(d)
        victim = rng.below(len(names))
        old = names[victim]
        for bad in {old + "X", old[:-1] if len(old) > 1 else old + "_", old.capitalize() + "q", "NOSUCHITEM", "DataItemBase", "__name__", "Base", old + "1", "X" + old,
                    rng.choice(["FOO", "svidd", "Ackc5x", "L1", "ITEM", "é", "A-B"])}:
            if bad.upper() in item_set:
                continue
            cnt = [0]

            def subst(x):
                if x[0] == "I":
                    cnt[0] += 1
                    return ("I", bad) if cnt[0] - 1 == victim else x
                return ("L", x[1], [subst(m) for m in x[2]])
            dm = subst(d)
            text = render_top(rng, dm, rng.choice([0, 1, 2]))
            res.count(("unknown", text), nontrivial=True, sample={"op": "unknown item", "name": bad, "text": text[:160]} if i == 0 else None)
            queue("unknown-item", text, {"def": def_sexpr(dm), "unknown": bad})
            got = impl_parse(text)
            res.bump("unknown_item->outcome", got.split()[0] if got.startswith("ok") else got)
            if got.startswith("ok"):
                res.violate("c19-unknown-item-accepted", "a definition using an unknown data item name is accepted", {"def": def_sexpr(dm), "unknown": bad, "text": text}, "an error", got)
        if len(batch_lines) > 3000:
            flush("mutations")
    flush("mutations")
    res.exhaustive_parts.append(f"every single-token deletion of {n_mut} well-formed definitions: {n_del} texts")

    # ---- 3. token soups (malformed stream, C only)
    alphabet = ["<", ">", "L", "#", "\n", "\r", " ", "\t", "SVID", "ACKC5", "X", "l", "svid", "abs", "Base", "<>", "L<", ">L", "#<", "\r\n"] + items[:6]
    for i in range(12000 if big else 2000):
        if i % 2 == 0:
            text = "".join(rng.choice(alphabet) + ("" if rng.chance(1, 2) else " ") for _ in range(rng.range(0, 14)))
        else:
            # a well-formed token list with one to three random edits (insert / delete / replace / swap)
            toks = tokens_of(g.free(rng.range(1, 3), p_empty=(1, 6)))
            for _ in range(rng.range(1, 3)):
                j = rng.below(len(toks) + 1)
                op = rng.below(4)
                if op == 0:
                    toks.insert(j, rng.choice(alphabet[:3] + alphabet[8:15] + [">", ">", "<"]))
                elif op == 1 and toks:
                    del toks[min(j, len(toks) - 1)]
                elif op == 2 and toks:
                    toks[min(j, len(toks) - 1)] = rng.choice(alphabet[:3] + alphabet[8:15])
                elif len(toks) >= 2:
                    j = min(j, len(toks) - 2)
                    toks[j], toks[j + 1] = toks[j + 1], toks[j]
            text = render_tokens(rng, toks, rng.choice([0, 1, 2])) if toks else ""
        res.count(("soup", text), nontrivial=False)
        queue("soup", text, None)
        got = impl_parse(text)
        res.bump("soup_outcome", got.split()[0] if got.startswith("ok") else got)
    flush("token soups")

    # ---- 4. the catalogue's own definitions (python classes and yaml)
    n_cat = 0
    cat_trees = []
    for src_name in ("py", "yaml"):
        for row in facts["Catalogue"][src_name]:
            text = row["data_format"]
            if text is None:
                continue
            n_cat += 1
            d = doc_read(text)
            res.count(("catalogue", src_name, row["cls"]), nontrivial=True)
            queue("catalogue/" + src_name, text, row["cls"])
            if d is None:
                res.violate("c19-catalogue-text", "a catalogue definition is not a text of the documented grammar", {"function": row["cls"], "source": src_name, "text": text})
                continue
            cat_trees.append((row["cls"], src_name, d, text))
    spec_of([d for _, _, d, _ in cat_trees])
    for cls, src_name, d, text in cat_trees:
        oracle_shape(d, text, f"catalogue/{src_name}/{cls}")
        if not (non_empty(d) and keys_distinct(d) and names_documented(d)):
            res.notes.append(f"catalogue definition {cls} ({src_name}) is outside the hypotheses of C19.shape_partial: compared model-vs-code only")
    flush("catalogue definitions")
    res.exhaustive_parts.append(f"all {n_cat} structure definitions of the catalogue (classes and functions.yaml)")

    # ---- 4b. custom data item classes, written as docs/firststeps/streamsfunctions.md shows (a class derived from DataItemBase)
    # and made known to structure definitions as attributes of the data_items package: without a `name` attribute, with one equal
    # to the class name, with one that differs.  The documented key rules speak of "the name of the data item": the class name.
    import secsgem.secs.variables as varmod  # noqa: PLC0415
    custom = {
        "WAFERID": type("WAFERID", (data_items_mod.DataItemBase,), {"__type__": varmod.String, "__count__": 40}),
        "SLOTNO": type("SLOTNO", (data_items_mod.DataItemBase,), {"__type__": varmod.U1}),
        "LOTSTATE": type("LOTSTATE", (data_items_mod.DataItemBase,), {"__type__": varmod.Binary, "__count__": 1, "name": "LOTSTATE"}),
        "SVIDX": type("SVIDX", (data_items_mod.DataItemBase,), {"__type__": varmod.U4, "name": "SVID"}),
    }
    try:
        for cname, ccls in custom.items():
            setattr(data_items_mod, cname, ccls)
        gc = Gen(rng, list(custom) + ["SVID", "DATAID", "TRID"])
        fixed = [("L", None, [("I", "DATAID"), ("L", None, [("I", "WAFERID")])]),
                 ("L", None, [("I", "DATAID"), ("L", None, [("I", "WAFERID")]), ("L", None, [("I", "SLOTNO")])]),
                 ("L", None, [("L", None, [("I", "SVIDX")]), ("L", None, [("I", "SVID")])]),
                 ("L", None, [("I", "WAFERID"), ("I", "SLOTNO"), ("I", "LOTSTATE"), ("I", "SVIDX")]),
                 ("L", None, [("L", None, [("I", "LOTSTATE")])]),
                 ("L", "LOTS", [("L", None, [("I", "WAFERID"), ("L", None, [("I", "SLOTNO")])])])]
        for i in range(len(fixed) + (150 if big else 40)):
            d = fixed[i] if i < len(fixed) else gc.documented(rng.range(1, 3))
            if d[0] == "I":
                d = ("L", None, [d, ("L", None, [gc.item()])])
                d = gc.fix(d)
            if not (non_empty(d) and keys_distinct(d) and names_documented(d)):
                continue
            text = render_top(rng, d, rng.choice([0, 1, 2]))
            res.count(("custom-item", text), nontrivial=True, sample={"op": "custom data items", "def": def_sexpr(d), "text": text[:160]} if i < 2 else None)
            res.bump("family", "custom data item classes")
            got = impl_parse(text)
            want = "ok " + doc_shape(d)
            if not got.startswith("ok") or erase(got[3:]) != want[3:]:
                res.violate("c19-shape", "a definition over custom data item classes does not get the documented shape (keys are the item class names)",
                            {"def": def_sexpr(d), "text": text, "kind": "custom data items",
                             "custom_classes": {"WAFERID": "no name attribute", "SLOTNO": "no name attribute", "LOTSTATE": "name == class name", "SVIDX": "name = 'SVID'"}},
                            want, got)
    finally:
        for cname in custom:
            if hasattr(data_items_mod, cname):
                delattr(data_items_mod, cname)

    # ---- 4c. function classes: every class gets the shape of ITS OWN definition — catalogue classes that were already used,
    # customised subclasses of them that override `_data_format` (the documented customisation path), subclasses of those, and
    # unrelated custom classes defined one after the other
    import secsgem.secs.functions as fmod0  # noqa: PLC0415
    from secsgem.secs.functions.base import SecsStreamFunction  # noqa: PLC0415

    def shape_of_instance(cls):
        try:
            inst = cls()
            return "ok " + dump_obj(inst.data)
        except Exception as exc:  # noqa: BLE001
            return "err " + errname(exc)

    def own_definition_tree():
        for _ in range(50):
            d = g.documented(rng.range(1, 3))
            if d[0] == "L" and non_empty(d) and keys_distinct(d) and names_documented(d):
                return d
        return ("L", None, [("I", "DATAID"), ("I", "CEID")])

    def judge(cls, d, text, how):
        res.count(("fn-class", cls.__name__, text), nontrivial=True, sample={"op": "function class shape", "class": cls.__name__, "how": how, "text": text[:120]} if len(res.samples) < 11 else None)
        res.bump("family", "function classes (own definition)")
        got = shape_of_instance(cls)
        want = "ok " + (doc_shape(d) if d is not None else "(none)")
        ref = impl_parse(text) if text is not None else "ok (none)"
        if not got.startswith("ok") or erase(got[3:]) != want[3:] or got != ref:
            res.violate("c19-shape", "an instance of a function class does not have the shape of the class's own structure definition",
                        {"class": cls.__name__, "how": how, "def": def_sexpr(d) if d is not None else None, "text": text, "kind": "function class"}, want, got)
        try:
            shown, direct = cls.get_format(), (vfunctions.get_format(text) if text is not None else "Header only")
            if shown != direct:
                res.violate("c19-shape", "get_format() of a function class is not the format of its own definition", {"class": cls.__name__, "how": how, "text": text}, direct, shown)
        except Exception as exc:  # noqa: BLE001
            res.violate("c19-shape", "get_format() of a function class raises", {"class": cls.__name__, "how": how, "text": text}, "text", errname(exc))

    parents = [c for c in (getattr(fmod0, r["cls"], None) for r in facts["Catalogue"]["py"]) if c is not None]
    for c in parents:                                      # every catalogue class is used (instantiated) first
        shape_of_instance(c)
    chosen = [rng.choice(parents) for _ in range(40 if big else 12)] + [fmod0.SecsS01F01, fmod0.SecsS01F03]
    for i, parent in enumerate(chosen):
        d1, d2 = own_definition_tree(), own_definition_tree()
        t1, t2 = render_top(rng, d1, rng.choice([0, 1, 2])), render_top(rng, d2, rng.choice([0, 1, 2]))
        sub = type(f"Custom{i}{parent.__name__}", (parent,), {"_data_format": t1})
        judge(sub, d1, t1, f"subclass of the already used {parent.__name__} overriding _data_format")
        subsub = type(f"Custom{i}b{parent.__name__}", (sub,), {"_data_format": t2})
        judge(subsub, d2, t2, "subclass of that subclass overriding _data_format again")
        judge(sub, d1, t1, "the first subclass again, after its own subclass was used")
        if parent._data_format is not None:                # the parent keeps its own shape
            dp = doc_read(parent._data_format)
            if dp is not None and non_empty(dp) and keys_distinct(dp) and names_documented(dp):
                judge(parent, dp, parent._data_format, "catalogue class after customised subclasses of it were used")
            hdr = type(f"Custom{i}h{parent.__name__}", (parent,), {"_data_format": None})
            judge(hdr, None, None, "subclass that turns the function into a header-only one")
    for i in range(20 if big else 6):                      # unrelated custom classes, one after the other
        d = own_definition_tree()
        t = render_top(rng, d, rng.choice([0, 1, 2]))
        direct = type(f"CustomS{64 + i}F1", (SecsStreamFunction,), {"_stream": 64 + i, "_function": 1, "_data_format": t})
        judge(direct, d, t, "custom class derived directly from SecsStreamFunction")
        judge(direct, d, t, "the same custom class instantiated a second time")
    res.exhaustive_parts.append("all catalogue function classes instantiated, then customised subclasses / sub-subclasses / unrelated custom classes judged against their own definitions")

    # ---- 5. live classes: the data format each class really carries is the text Gen.Catalogue holds
    import secsgem.secs.functions as fmod  # noqa: PLC0415
    for row in facts["Catalogue"]["py"]:
        cls = getattr(fmod, row["cls"], None)
        res.count(("live-format", row["cls"]), nontrivial=False)
        if cls is None or cls._data_format != row["data_format"]:
            res.disagree("Gen.Catalogue.py data format vs the live class attribute", row["cls"], row["data_format"], None if cls is None else cls._data_format)

    if a.replay:
        # verdict of a replay: only what the recorded run reported (its finding classes; its broken correspondence)
        classes = {v["class"] for v in rp.get("violations", [])}
        res.violations = [v for v in res.violations if v["class"] in classes]
        if any(b.get("stage") == "C" for b in rp.get("breaks", [])) and res.disagreements and not res.violations:
            d = res.disagreements[0]
            res.violate("correspondence", "model and implementation still disagree: " + d["what"], d["case"], d["model"], d["impl"])
    # shortest failing case first (it becomes the "first failing input" of the verdict and of the replay file)
    res.violations.sort(key=lambda v: len(json.dumps(v["case"], default=repr)))
    res.disagreements.sort(key=lambda v: len(json.dumps(v["case"], default=repr)))
    res.dump(a.out)


if __name__ == "__main__":
    main()
