#!/usr/bin/env python3
"""seeded/REPORT.md: which check catches which seeded change (from seeded/*/meta.json)."""
import json
import os

ROOT = os.path.dirname(os.path.dirname(os.path.abspath(__file__)))
rows = []
for mid in sorted(os.listdir(os.path.join(ROOT, "seeded"))):
    p = os.path.join(ROOT, "seeded", mid, "meta.json")
    if not os.path.exists(p):
        continue
    m = json.load(open(p))
    d = m.get("detection") or {}
    what = (m.get("mutation") or "").replace("\n", " ").replace("|", "/")
    needs = (m.get("needs") or "").replace("\n", " ").replace("|", "/")
    if d:
        stages = "+".join(d.get("broken_stages", [])) or "-"
        res = ("caught" if d.get("detected") else "MISSED") + f" (exit {d.get('exit')}; broken {stages}; oracle input: {'yes' if d.get('oracle_found_input') else 'no'})"
    else:
        res = "not run yet"
    rows.append(f"| {mid} | {what[:220]} | {needs[:200]} | {res} |")
text = ("# Seeded changes and what catches them\n\nEach change was written by an independent sub-agent that saw only the property text and a scratch worktree, keeps the repository's "
        "2834 tests green, and comes with a demo that fails with the change and passes without it (both re-confirmed by `tools/seedimport.py confirm`).\n"
        "`tools/seedimport.py detect` runs `./check <property> quick` of a scratch copy of /verif against a scratch worktree with the patch applied.\n"
        "Stages: T translate, P proof obligation, C correspondence, oracle = direct oracle found a concrete failing input.\n\n"
        "| id | change | needs, to manifest | result |\n|---|---|---|---|\n" + "\n".join(rows) + "\n")
open(os.path.join(ROOT, "seeded", "REPORT.md"), "w").write(text)
print(f"{len(rows)} seeded changes")
