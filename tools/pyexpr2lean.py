"""Restricted Python-AST -> Lean 4 translator for straight-line integer code.

Handles exactly what DESIGN.md §3.1 lists: integer/bool literals and names, ``+ - * // % & | ^ << >>``,
comparisons (also chained), ``and/or/not``, ``if/elif/else``, ``return``, ``raise`` (-> ``Except``),
(re)assignment and augmented assignment of locals and of declared state attributes, ``self.<attr>``,
``bytes(bytearray((...)))``, ``struct.pack/unpack`` with a literal big-endian unsigned format, tuple
indexing with a literal, construction of a declared record class, and a declared enum constructor.

Anything else raises ``Untranslatable`` naming the node: a *broken tie*, never silently skipped.
The translator is AST based: comments, docstrings, formatting do not matter.
"""
from __future__ import annotations

import ast
import copy
import dataclasses


class Untranslatable(Exception):
    pass


STRUCT_W = {"B": 1, "H": 2, "I": 4, "L": 4, "Q": 8}

EXC = {
    "ValueError": ".valueError",
    "TypeError": ".typeError",
    "IndexError": ".indexError",
    "KeyError": ".keyError",
    "OverflowError": ".overflow",
}


def parse_fmt(fmt: str) -> list[int]:
    if not fmt.startswith(">"):
        raise Untranslatable(f"struct format not big-endian: {fmt!r}")
    ws = []
    for ch in fmt[1:]:
        if ch not in STRUCT_W:
            raise Untranslatable(f"struct format char {ch!r} unsupported in {fmt!r}")
        ws.append(STRUCT_W[ch])
    return ws


@dataclasses.dataclass
class Ctx:
    """Translation context for one function."""

    names: dict[str, str]  # dotted python name -> lean expression (parameters, enum constants, ...)
    bools: set[str]  # dotted python names whose value is a bool
    records: dict[str, list[tuple[str, str]]]  # class name -> [(field, 'Int'|'Bool'|'enum:<Name>')], positional order
    enums: dict[str, str]  # enum class name -> lean validity predicate (Int -> Bool)
    state: list[str]  # self attributes that are mutated: returned alongside the result
    ret_bytes: bool = False
    locals_: set[str] = dataclasses.field(default_factory=set)
    tuples: dict[str, list[str]] = dataclasses.field(default_factory=dict)  # name -> element names (struct.unpack)
    locks: list[str] = dataclasses.field(default_factory=list)  # `with <expr>:` blocks seen (body translated transparently)


def dotted(node) -> str | None:
    if isinstance(node, ast.Name):
        return node.id
    if isinstance(node, ast.Attribute):
        base = dotted(node.value)
        return None if base is None else base + "." + node.attr
    return None


def lname(py: str) -> str:
    return py.replace(".", "_")


class FnTranslator:
    def __init__(self, ctx: Ctx):
        self.c = ctx

    # ------------------------------------------------------------------ expressions
    def is_bool(self, node) -> bool:
        if isinstance(node, ast.Constant) and isinstance(node.value, bool):
            return True
        if isinstance(node, (ast.Compare, ast.BoolOp)):
            return True
        if isinstance(node, ast.UnaryOp) and isinstance(node.op, ast.Not):
            return True
        d = dotted(node)
        return d is not None and d in self.c.bools

    def cond(self, node) -> str:
        """Translate to a Lean Bool."""
        if self.is_bool(node):
            return self.expr(node)
        # python truthiness of an int
        return f"(({self.expr(node)}) != 0)"

    def expr(self, node) -> str:
        c = self.c
        if isinstance(node, ast.Constant):
            if isinstance(node.value, bool):
                return "true" if node.value else "false"
            if isinstance(node.value, int):
                return f"({node.value} : Int)" if node.value >= 0 else f"(-{-node.value} : Int)"
            raise Untranslatable(f"constant {node.value!r}")
        d = dotted(node)
        if d is not None:
            if d in c.names:
                return c.names[d]
            if d in c.locals_:
                return lname(d)
            raise Untranslatable(f"unknown name {d} (line {node.lineno})")
        if isinstance(node, ast.BinOp):
            a, b = self.expr(node.left), self.expr(node.right)
            op = type(node.op)
            table = {
                ast.Add: "({a} + {b})",
                ast.Sub: "({a} - {b})",
                ast.Mult: "({a} * {b})",
                ast.FloorDiv: "(Int.fdiv {a} {b})",
                ast.Mod: "(Int.fmod {a} {b})",
                ast.BitAnd: "(Py.band {a} {b})",
                ast.BitOr: "(Py.bor {a} {b})",
                ast.BitXor: "(Py.bxor {a} {b})",
                ast.LShift: "(Py.shl {a} {b})",
                ast.RShift: "(Py.shr {a} {b})",
                ast.Pow: "({a} ^ ({b}).toNat)",
            }
            if op not in table:
                raise Untranslatable(f"operator {op.__name__} (line {node.lineno})")
            return table[op].format(a=a, b=b)
        if isinstance(node, ast.UnaryOp):
            if isinstance(node.op, ast.Not):
                return f"(!{self.cond(node.operand)})"
            if isinstance(node.op, ast.USub):
                return f"(-{self.expr(node.operand)})"
            if isinstance(node.op, ast.Invert):
                return f"(Py.bnot {self.expr(node.operand)})"
            raise Untranslatable(f"unary {type(node.op).__name__}")
        if isinstance(node, ast.BoolOp):
            j = " && " if isinstance(node.op, ast.And) else " || "
            return "(" + j.join(self.cond(v) for v in node.values) + ")"
        if isinstance(node, ast.Compare):
            parts = []
            left = node.left
            for op, right in zip(node.ops, node.comparators):
                a, b = self.expr(left), self.expr(right)
                sym = {
                    ast.Eq: "decide ({a} = {b})",
                    ast.NotEq: "decide ({a} ≠ {b})",
                    ast.Lt: "decide ({a} < {b})",
                    ast.LtE: "decide ({a} ≤ {b})",
                    ast.Gt: "decide ({a} > {b})",
                    ast.GtE: "decide ({a} ≥ {b})",
                }.get(type(op))
                if sym is None:
                    raise Untranslatable(f"comparison {type(op).__name__}")
                if self.is_bool(left) or self.is_bool(right):
                    if not isinstance(op, (ast.Eq, ast.NotEq)):
                        raise Untranslatable("ordering of bools")
                    sym = "({a} == {b})" if isinstance(op, ast.Eq) else "({a} != {b})"
                parts.append(sym.format(a=a, b=b))
                left = right
            return "(" + " && ".join(parts) + ")"
        if isinstance(node, ast.Subscript):
            base = dotted(node.value)
            if base in c.tuples and isinstance(node.slice, ast.Constant) and isinstance(node.slice.value, int):
                return c.tuples[base][node.slice.value]
            raise Untranslatable(f"subscript (line {node.lineno})")
        if isinstance(node, ast.IfExp):
            return f"(if {self.cond(node.test)} then {self.expr(node.body)} else {self.expr(node.orelse)})"
        raise Untranslatable(f"expression {ast.dump(node)[:80]} (line {getattr(node, 'lineno', '?')})")

    # ------------------------------------------------------------------ value-producing calls (Except-typed)
    def ret_expr(self, node) -> str:
        """Translate the operand of ``return`` into a Lean term of type ``Except Err _``."""
        c = self.c
        if isinstance(node, ast.Call):
            fn = dotted(node.func)
            if fn == "bytes" and len(node.args) == 1 and isinstance(node.args[0], ast.Call) \
                    and dotted(node.args[0].func) == "bytearray" and isinstance(node.args[0].args[0], ast.Tuple):
                elts = node.args[0].args[0].elts
                return self.wrap_state("Py.bytesOf [" + ", ".join(self.expr(e) for e in elts) + "]", monadic=True)
            if fn == "struct.pack":
                if not (isinstance(node.args[0], ast.Constant) and isinstance(node.args[0].value, str)):
                    raise Untranslatable("struct.pack with a non-literal format")
                ws = parse_fmt(node.args[0].value)
                if len(ws) != len(node.args) - 1:
                    raise Untranslatable("struct.pack arity")
                items = ", ".join(f"({w}, {self.expr(a)})" for w, a in zip(ws, node.args[1:]))
                return self.wrap_state(f"Py.packBE [{items}]", monadic=True)
            if fn in c.records:
                fields = c.records[fn]
                if node.keywords or len(node.args) != len(fields):
                    raise Untranslatable(f"constructor {fn}: positional arity {len(node.args)} != {len(fields)}")
                checks = []
                inits = []
                for (fname, ftype), a in zip(fields, node.args):
                    if ftype.startswith("enum:"):
                        en = ftype[5:]
                        if not (isinstance(a, ast.Call) and dotted(a.func) == en and len(a.args) == 1):
                            raise Untranslatable(f"enum field {fname} not built by {en}(...)")
                        inner = self.expr(a.args[0])
                        checks.append(f"{c.enums[en]} {inner}")
                        inits.append(f"{fname} := {inner}")
                    elif ftype == "Bool":
                        inits.append(f"{fname} := {self.cond(a)}")
                    else:
                        inits.append(f"{fname} := {self.expr(a)}")
                body = self.wrap_state("({ " + ", ".join(inits) + " } : " + fn + ")")
                for chk in reversed(checks):
                    body = f"if {chk} then {body} else .error .valueError"
                return body
            raise Untranslatable(f"call {fn} (line {node.lineno})")
        return self.wrap_state(self.expr(node))

    def wrap_state(self, e: str, monadic: bool = False) -> str:
        st = self.c.state
        if not st:
            return e if monadic else f".ok {e}"
        tup = ", ".join(lname("self." + s) for s in st)
        if monadic:
            return f"(match {e} with | .ok r => .ok (r, {tup}) | .error e => .error e)"
        return f".ok ({e}, {tup})"

    # ------------------------------------------------------------------ statements (continuation style)
    def assigned(self, stmts) -> list[str]:
        out = []
        for s in stmts:
            if isinstance(s, ast.Assign):
                for t in s.targets:
                    if isinstance(t, (ast.Tuple, ast.List)) and all(isinstance(e, ast.Name) for e in t.elts):
                        out.extend(e.id for e in t.elts)
                        continue
                    d = dotted(t)
                    if d is None:
                        raise Untranslatable("assignment target")
                    out.append(d)
            elif isinstance(s, ast.AugAssign):
                d = dotted(s.target)
                if d is None:
                    raise Untranslatable("augmented assignment target")
                out.append(d)
            elif isinstance(s, ast.If):
                out += self.assigned(s.body) + self.assigned(s.orelse)
            elif isinstance(s, ast.With):
                out += self.assigned(s.body)
            elif isinstance(s, (ast.Return, ast.Raise, ast.Expr, ast.Pass)):
                pass
            else:
                raise Untranslatable(f"statement {type(s).__name__} (line {s.lineno})")
        seen = []
        for d in out:
            if d not in seen:
                seen.append(d)
        return seen

    def terminates(self, stmts) -> bool:
        if not stmts:
            return False
        last = stmts[-1]
        if isinstance(last, (ast.Return, ast.Raise)):
            return True
        if isinstance(last, ast.If):
            return bool(last.orelse) and self.terminates(last.body) and self.terminates(last.orelse)
        return False

    def bind(self, d: str):
        """Make python name d a known local (state attributes are locals named self_x)."""
        if d.startswith("self."):
            if d[5:] not in self.c.state:
                raise Untranslatable(f"assignment to undeclared state attribute {d}")
        self.c.locals_.add(d)
        self.c.names.pop(d, None) if not d.startswith("self.") else None
        if d.startswith("self."):
            self.c.names[d] = lname(d)

    def block(self, stmts, cont: str | None, ind: str) -> str:
        """Translate stmts followed by the continuation term `cont` (None = falls off the end)."""
        if not stmts:
            if cont is None:
                raise Untranslatable("function may fall off the end without return")
            return cont
        s, rest = stmts[0], stmts[1:]
        if isinstance(s, ast.Expr) and isinstance(s.value, ast.Constant) and isinstance(s.value.value, str):
            return self.block(rest, cont, ind)  # docstring
        if isinstance(s, ast.Pass):
            return self.block(rest, cont, ind)
        if isinstance(s, ast.With):
            # a critical section: sequentially transparent; its presence is recorded (atomicity is a generated fact)
            for item in s.items:
                d = dotted(item.context_expr)
                if d is None or item.optional_vars is not None:
                    raise Untranslatable(f"with-statement other than `with <lock>:` (line {s.lineno})")
                self.c.locks.append(d)
            return self.block(list(s.body) + rest, cont, ind)
        if isinstance(s, ast.Return):
            if s.value is None:
                raise Untranslatable("bare return")
            return self.ret_expr(s.value)
        if isinstance(s, ast.Raise):
            exc = s.exc
            name = dotted(exc.func) if isinstance(exc, ast.Call) else dotted(exc)
            if name not in EXC:
                raise Untranslatable(f"raise {name}")
            return f".error {EXC[name]}"
        if isinstance(s, ast.Assign):
            if len(s.targets) != 1:
                raise Untranslatable("multiple assignment")
            tgt = s.targets[0]
            # `a, b, c = struct.unpack(fmt, data)` -> pattern match on the field list, elements bound to the target names
            if isinstance(tgt, (ast.Tuple, ast.List)) and isinstance(s.value, ast.Call) and dotted(s.value.func) == "struct.unpack" \
                    and all(isinstance(e, ast.Name) for e in tgt.elts):
                fmt = s.value.args[0]
                if not (isinstance(fmt, ast.Constant) and isinstance(fmt.value, str)):
                    raise Untranslatable("struct.unpack with a non-literal format")
                ws = parse_fmt(fmt.value)
                if len(ws) != len(tgt.elts):
                    raise Untranslatable("struct.unpack: number of targets differs from the number of fields")
                names = [e.id for e in tgt.elts]
                for n in names:
                    self.bind(n)
                data = self.expr(s.value.args[1]) if not isinstance(s.value.args[1], ast.Name) else lname(s.value.args[1].id)
                body = self.block(rest, cont, ind + "  ")
                pat = "[" + ", ".join(lname(n) for n in names) + "]"
                return (f"match Py.unpackBE {ws} {data} with\n{ind}| .ok {pat} =>\n{ind}  {body}\n"
                        f"{ind}| .ok _ => .error .structError\n{ind}| .error e => .error e")
            d = dotted(tgt)
            if d is None:
                raise Untranslatable("assignment target")
            # struct.unpack -> pattern match on the field list
            if isinstance(s.value, ast.Call) and dotted(s.value.func) == "struct.unpack":
                fmt = s.value.args[0]
                if not (isinstance(fmt, ast.Constant) and isinstance(fmt.value, str)):
                    raise Untranslatable("struct.unpack with a non-literal format")
                ws = parse_fmt(fmt.value)
                names = [f"{lname(d)}{i}" for i in range(len(ws))]
                self.c.tuples[d] = names
                data = self.expr(s.value.args[1]) if not isinstance(s.value.args[1], ast.Name) else lname(s.value.args[1].id)
                body = self.block(rest, cont, ind + "  ")
                pat = "[" + ", ".join(names) + "]"
                return (f"match Py.unpackBE {ws} {data} with\n{ind}| .ok {pat} =>\n{ind}  {body}\n"
                        f"{ind}| .ok _ => .error .structError\n{ind}| .error e => .error e")
            val = self.cond(s.value) if self.is_bool(s.value) else self.expr(s.value)
            if self.is_bool(s.value):
                self.c.bools.add(d)
            self.bind(d)
            return f"let {lname(d)} := {val}\n{ind}{self.block(rest, cont, ind)}"
        if isinstance(s, ast.AugAssign):
            d = dotted(s.target)
            if d is None:
                raise Untranslatable("augmented assignment target")
            val = self.expr(ast.BinOp(left=s.target, op=s.op, right=s.value, lineno=s.lineno))
            self.bind(d)
            return f"let {lname(d)} := {val}\n{ind}{self.block(rest, cont, ind)}"
        if isinstance(s, ast.If):
            t_term, e_term = self.terminates(s.body), self.terminates(s.orelse) if s.orelse else False
            cnd = self.cond(s.test)
            if t_term and (not s.orelse or e_term):
                saved = (set(self.c.locals_), dict(self.c.names), set(self.c.bools))
                tb = self.block(s.body, None, ind + "  ")
                self.c.locals_, self.c.names, self.c.bools = set(saved[0]), dict(saved[1]), set(saved[2])
                eb = self.block(list(s.orelse) + rest, cont, ind + "  ") if s.orelse else self.block(rest, cont, ind + "  ")
                return f"if {cnd} then\n{ind}  {tb}\n{ind}else\n{ind}  {eb}"
            if t_term or e_term:
                raise Untranslatable(f"if with one terminating and one falling branch plus else (line {s.lineno})")
            # neither branch terminates: branches only (re)assign already-known variables
            vars_ = self.assigned([s])
            for v in vars_:
                if v not in self.c.locals_ and v not in self.c.names:
                    raise Untranslatable(f"variable {v} first assigned inside a branch (line {s.lineno})")
            saved = (set(self.c.locals_), dict(self.c.names), set(self.c.bools))
            tup = "(" + ", ".join(self.c.names.get(v, lname(v)) for v in vars_) + ")"

            def branch(body):
                self.c.locals_, self.c.names, self.c.bools = set(saved[0]), dict(saved[1]), set(saved[2])
                inner_tup = None
                # continuation of a branch is the tuple of the *then current* values
                res = self.block(body, "__TUPLE__", ind + "    ") if body else "__TUPLE__"
                inner_tup = "(" + ", ".join(self.c.names.get(v, lname(v)) for v in vars_) + ")"
                return res.replace("__TUPLE__", inner_tup)

            tb = branch(s.body)
            eb = branch(s.orelse) if s.orelse else tup
            self.c.locals_, self.c.names, self.c.bools = set(saved[0]), dict(saved[1]), set(saved[2])
            for v in vars_:
                self.bind(v)
            pat = "(" + ", ".join(lname(v) for v in vars_) + ")" if len(vars_) > 1 else lname(vars_[0])
            return (f"let {pat} := if {cnd} then\n{ind}    {tb}\n{ind}  else\n{ind}    {eb}\n"
                    f"{ind}{self.block(rest, cont, ind)}")
        raise Untranslatable(f"statement {type(s).__name__} (line {s.lineno})")


def translate_function(fn: ast.FunctionDef, lean_name: str, params: list[tuple[str, str]], ret_type: str, ctx: Ctx) -> str:
    """Return Lean source of `def lean_name params : Except Err ret_type`."""
    tr = FnTranslator(ctx)
    body = tr.block(fn.body, None, "  ")
    ps = " ".join(f"({n} : {t})" for n, t in params)
    if ctx.state:
        ret_type = "(" + " × ".join([ret_type] + ["Int"] * len(ctx.state)) + ")"
    return f"def {lean_name} {ps} : Except Err {ret_type} :=\n  {body}\n"


def _is_const_expr(node) -> bool:
    """int / str / bytes literals and arithmetic over int literals (what a module- or class-level constant is)"""
    if isinstance(node, ast.Constant):
        return isinstance(node.value, (int, str, bytes)) and not isinstance(node.value, bool) or isinstance(node.value, bool)
    if isinstance(node, ast.BinOp):
        return _is_const_expr(node.left) and _is_const_expr(node.right)
    if isinstance(node, ast.UnaryOp):
        return _is_const_expr(node.operand)
    return False


def _simple_assignments(body) -> dict:
    out = {}
    for st in body:
        tgt = val = None
        if isinstance(st, ast.Assign) and len(st.targets) == 1 and isinstance(st.targets[0], ast.Name):
            tgt, val = st.targets[0].id, st.value
        elif isinstance(st, ast.AnnAssign) and isinstance(st.target, ast.Name) and st.value is not None:
            tgt, val = st.target.id, st.value
        if tgt is not None and _is_const_expr(val):
            out[tgt] = val
    return out


class _Inliner(ast.NodeTransformer):
    """semantics-preserving normalisation before translation: module-level constants are written out, and a call of a private
    helper method of the same class whose body is a single `return <expr>` is replaced by that expression"""

    def __init__(self, consts, helpers, local_names):
        self.consts, self.helpers, self.locals = consts, helpers, local_names

    def visit_Name(self, node):
        if isinstance(node.ctx, ast.Load) and node.id in self.consts and node.id not in self.locals:
            return ast.copy_location(copy.deepcopy(self.consts[node.id]), node)
        return node

    def visit_Call(self, node):
        self.generic_visit(node)
        f = node.func
        if isinstance(f, ast.Attribute) and isinstance(f.value, ast.Name) and f.value.id in ("self", "cls") and f.attr in self.helpers \
                and not node.keywords:
            params, expr = self.helpers[f.attr]
            if len(params) == len(node.args):
                env = dict(zip(params, node.args))

                class Sub(ast.NodeTransformer):
                    def visit_Name(self, n):
                        if isinstance(n.ctx, ast.Load) and n.id in env:
                            return copy.deepcopy(env[n.id])
                        return n
                return ast.copy_location(Sub().visit(copy.deepcopy(expr)), node)
        return node


def normalise_function(tree: ast.Module, cls_node: ast.ClassDef, fn: ast.FunctionDef) -> ast.FunctionDef:
    consts = _simple_assignments(tree.body)
    helpers = {}
    for item in cls_node.body:
        if isinstance(item, ast.FunctionDef) and item is not fn and item.name.startswith("_") and not item.decorator_list:
            body = [s for s in item.body if not (isinstance(s, ast.Expr) and isinstance(s.value, ast.Constant))]
            a = item.args
            if len(body) == 1 and isinstance(body[0], ast.Return) and body[0].value is not None and not a.vararg and not a.kwarg \
                    and not a.kwonlyargs and not a.defaults and a.args and a.args[0].arg in ("self", "cls"):
                helpers[item.name] = ([x.arg for x in a.args[1:]], body[0].value)
    local_names = {a.arg for a in fn.args.args}
    for n in ast.walk(fn):
        if isinstance(n, ast.Name) and isinstance(n.ctx, ast.Store):
            local_names.add(n.id)
    out = _Inliner(consts, helpers, local_names).visit(copy.deepcopy(fn))
    return ast.fix_missing_locations(out)


def find_function(tree: ast.Module, cls: str, fn: str) -> ast.FunctionDef:
    for node in tree.body:
        if isinstance(node, ast.ClassDef) and node.name == cls:
            for item in node.body:
                if isinstance(item, ast.FunctionDef) and item.name == fn:
                    return normalise_function(tree, node, item)
    raise Untranslatable(f"{cls}.{fn} not found")
