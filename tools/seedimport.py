#!/usr/bin/env python3
"""Confirm and import seeded mutations, and run the checks against them.

  seedimport.py confirm <seedout-dir>...        for every <dir>/<Cxx>-<k>/ : scratch worktree of /repo HEAD, apply patch.diff,
                                                full test suite must pass, demo.py must exit 1 (mutated) and 0 (clean);
                                                copies patch.diff, demo.py, meta.json (+ what was run) to /verif/seeded/<Cxx>-<k>/
  seedimport.py detect [<id>...] [--tier quick] runs ./check <Cxx> in a scratch COPY of /verif against a scratch worktree with the
                                                patch applied; records stage/exit/first lines in seeded/<id>/meta.json ("detection")
Nothing is ever applied to /repo itself and /verif's own build directory is not touched.
"""
from __future__ import annotations

import json
import os
import re
import shutil
import subprocess
import sys
import tempfile

ROOT = os.path.dirname(os.path.dirname(os.path.abspath(__file__)))
SEEDED = os.path.join(ROOT, "seeded")


def sh(cmd, cwd=None, env=None, timeout=None):
    p = subprocess.run(cmd, cwd=cwd, env=env, stdout=subprocess.PIPE, stderr=subprocess.STDOUT, timeout=timeout, check=False)
    return p.returncode, p.stdout.decode(errors="replace")


class Worktree:
    def __enter__(self):
        self.path = tempfile.mkdtemp(prefix="mutwt-", dir="/tmp")
        os.rmdir(self.path)
        sh(["git", "-C", "/repo", "worktree", "add", "-q", self.path, "HEAD"])
        return self.path

    def __exit__(self, *a):
        sh(["git", "-C", "/repo", "worktree", "remove", "--force", self.path])
        shutil.rmtree(self.path, ignore_errors=True)


TAG = ""


def confirm(src):
    mid = os.path.basename(src.rstrip("/"))
    if TAG:
        a, b = mid.rsplit("-", 1)
        mid = f"{a}-{TAG}{b}"
    with Worktree() as wt:
        rc, out = sh(["git", "-C", wt, "apply", os.path.join(src, "patch.diff")])
        if rc != 0:
            return mid, False, f"patch does not apply: {out[-300:]}"
        env = dict(os.environ, PYTHONPATH=wt)
        rc_t, out_t = sh(["/venv/bin/python", "-m", "pytest", "-q", "-p", "no:cacheprovider", "--timeout=900", "-x"], cwd=wt, env=env, timeout=1800)
        m = re.search(r"(\d+) passed", out_t)
        passed = int(m.group(1)) if m else 0
        failed = re.search(r"(\d+) failed", out_t)
        try:
            rc_m, out_m = sh(["/venv/bin/python", os.path.join(src, "demo.py")], cwd=src, env=env, timeout=180)
        except subprocess.TimeoutExpired:
            rc_m, out_m = 124, "timeout"
        sh(["git", "-C", wt, "checkout", "-q", "--", "."])
        sh(["git", "-C", wt, "clean", "-fdq"])
        try:
            rc_c, out_c = sh(["/venv/bin/python", os.path.join(src, "demo.py")], cwd=src, env=env, timeout=180)
        except subprocess.TimeoutExpired:
            rc_c, out_c = 124, "timeout"
    ok = rc_t == 0 and passed >= 2834 and not failed and rc_m == 1 and rc_c == 0
    dst = os.path.join(SEEDED, mid)
    meta = json.load(open(os.path.join(src, "meta.json"))) if os.path.exists(os.path.join(src, "meta.json")) else {}
    meta["confirmed_by_orchestrator"] = {
        "what_i_ran": "scratch worktree of /repo HEAD; git apply patch.diff; PYTHONPATH=<wt> /venv/bin/python -m pytest -q -p no:cacheprovider --timeout=900 -x; "
                      "PYTHONPATH=<wt> /venv/bin/python demo.py (mutated, then after git checkout -- .)",
        "tests": f"rc={rc_t} passed={passed}", "demo_mutated_exit": rc_m, "demo_clean_exit": rc_c,
        "demo_mutated_output": out_m[-400:], "ok": ok,
    }
    if ok:
        os.makedirs(dst, exist_ok=True)
        for f in ("patch.diff", "demo.py"):
            shutil.copy(os.path.join(src, f), os.path.join(dst, f))
        json.dump(meta, open(os.path.join(dst, "meta.json"), "w"), indent=1)
    return mid, ok, f"tests rc={rc_t} passed={passed}; demo mutated={rc_m} clean={rc_c}"


def detect(mid, tier="quick"):
    dst = os.path.join(SEEDED, mid)
    meta = json.load(open(os.path.join(dst, "meta.json")))
    prop = meta.get("property") or mid.split("-")[0]
    prop = re.match(r"C\d+", prop).group(0)
    if not os.path.exists(os.path.join(ROOT, "theorems", f"{prop}.json")):
        return mid, None, "no check yet"
    vc = tempfile.mkdtemp(prefix="vcopy-", dir="/tmp")
    try:
        sh(["rsync", "-a", "--exclude", ".git", ROOT + "/", vc + "/"])
        with Worktree() as wt:
            sh(["git", "-C", wt, "apply", os.path.join(dst, "patch.diff")])
            env = dict(os.environ, VERIF_REPO=wt)
            try:
                rc, out = sh(["./check", prop, tier], cwd=vc, env=env, timeout=3600)
            except subprocess.TimeoutExpired:
                rc, out = 124, "timeout"
        stages = sorted(set(re.findall(r"broken ([TPC]):", out)))
        viol = re.search(r"VIOLATION property=\S+ replay=\S+( no-failing-input-found)?", out)
        first = re.search(r"first failing input: (.*)", out)
        meta["detection"] = {
            "cmd": f"VERIF_REPO=<worktree with patch> ./check {prop} {tier}  (in a scratch copy of /verif)",
            "exit": rc, "violation_line": viol.group(0) if viol else None,
            "broken_stages": stages, "oracle_found_input": bool(first), "first_failing_input": first.group(1)[:300] if first else None,
            "detected": rc == 1 and viol is not None,
        }
        json.dump(meta, open(os.path.join(dst, "meta.json"), "w"), indent=1)
        return mid, rc == 1 and viol is not None, f"exit={rc} stages={stages} oracle_input={bool(first)} {'(no-failing-input-found)' if viol and viol.group(1) else ''}"
    finally:
        shutil.rmtree(vc, ignore_errors=True)


HARMLESS = os.path.join(ROOT, "harmless")


def harmless(src):
    """a semantics-preserving rewrite: the property's check must stay quiet (exit 0); what it does instead is recorded"""
    mid = os.path.basename(src.rstrip("/"))
    meta = json.load(open(os.path.join(src, "meta.json"))) if os.path.exists(os.path.join(src, "meta.json")) else {}
    prop = re.match(r"C\d+", mid).group(0)
    vc = tempfile.mkdtemp(prefix="vcopy-", dir="/tmp")
    try:
        sh(["rsync", "-a", "--exclude", ".git", ROOT + "/", vc + "/"])
        with Worktree() as wt:
            rc_a, out_a = sh(["git", "-C", wt, "apply", os.path.join(src, "patch.diff")])
            if rc_a != 0:
                return mid, None, "patch does not apply"
            env = dict(os.environ, VERIF_REPO=wt)
            try:
                rc, out = sh(["./check", prop, "quick"], cwd=vc, env=env, timeout=3600)
            except subprocess.TimeoutExpired:
                rc, out = 124, "timeout"
        stages = sorted(set(re.findall(r"broken ([TPC]):", out)))
        viol = re.search(r"VIOLATION property=\S+ replay=\S+( no-failing-input-found)?", out)
        broken = re.findall(r"broken [TPC]: (.*)", out)
        meta["check_result"] = {"cmd": f"VERIF_REPO=<worktree with the rewrite> ./check {prop} quick  (scratch copy of /verif)", "exit": rc,
                                "violation_line": viol.group(0) if viol else None, "broken_stages": stages, "broken": [b[:300] for b in broken[:4]],
                                "quiet": rc == 0}
        dst = os.path.join(HARMLESS, mid)
        os.makedirs(dst, exist_ok=True)
        shutil.copy(os.path.join(src, "patch.diff"), os.path.join(dst, "patch.diff"))
        json.dump(meta, open(os.path.join(dst, "meta.json"), "w"), indent=1)
        return mid, rc == 0, f"exit={rc} stages={stages} {'(no-failing-input-found)' if viol and viol.group(1) else ''}"
    finally:
        shutil.rmtree(vc, ignore_errors=True)


def harmless_all(mid):
    """every check against one recorded harmless rewrite (cross-property brittleness): harmless/<mid>/meta.json gets `all_checks`"""
    dst = os.path.join(HARMLESS, mid)
    meta = json.load(open(os.path.join(dst, "meta.json")))
    vc = tempfile.mkdtemp(prefix="vcopy-", dir="/tmp")
    out_all = {}
    try:
        sh(["rsync", "-a", "--exclude", ".git", ROOT + "/", vc + "/"])
        with Worktree() as wt:
            rc_a, _ = sh(["git", "-C", wt, "apply", os.path.join(dst, "patch.diff")])
            if rc_a != 0:
                return mid, None, "patch does not apply"
            env = dict(os.environ, VERIF_REPO=wt)
            for prop in open(os.path.join(ROOT, "theorems", "CLAIMED")).read().split():
                try:
                    rc, out = sh(["./check", prop, "quick"], cwd=vc, env=env, timeout=3600)
                except subprocess.TimeoutExpired:
                    rc, out = 124, "timeout"
                if rc != 0:
                    out_all[prop] = {"exit": rc, "broken": [b[:240] for b in re.findall(r"broken [TPC]: (.*)", out)[:3]],
                                     "first": (re.search(r"first failing input: (.*)", out) or [None, None])[1]}
        meta["all_checks"] = {"quiet": not out_all, "alarms": out_all}
        json.dump(meta, open(os.path.join(dst, "meta.json"), "w"), indent=1)
        return mid, not out_all, " ".join(f"{k}:exit{v['exit']}" for k, v in out_all.items())
    finally:
        shutil.rmtree(vc, ignore_errors=True)


def main(argv):
    global TAG
    if "--tag" in argv:
        TAG = argv[argv.index("--tag") + 1]
        argv = [a for a in argv if a not in ("--tag", TAG)]
    if argv[0] == "confirm":
        for d in argv[1:]:
            for sub in sorted(os.listdir(d)):
                p = os.path.join(d, sub)
                if os.path.isdir(p) and os.path.exists(os.path.join(p, "patch.diff")):
                    print("confirm", *confirm(p), flush=True)
    elif argv[0] == "harmless":
        for d in argv[1:]:
            for sub in sorted(os.listdir(d)):
                p = os.path.join(d, sub)
                if os.path.isdir(p) and os.path.exists(os.path.join(p, "patch.diff")):
                    print("harmless", *harmless(p), flush=True)
    elif argv[0] == "harmless-all":
        for mid in argv[1:] or sorted(os.listdir(HARMLESS)):
            if os.path.exists(os.path.join(HARMLESS, mid, "meta.json")):
                print("harmless-all", *harmless_all(mid), flush=True)
    elif argv[0] == "detect":
        tier = "quick"
        ids = [a for a in argv[1:] if not a.startswith("--")]
        if "--tier" in argv:
            tier = argv[argv.index("--tier") + 1]
            ids = [a for a in ids if a != tier]
        if not ids:
            ids = sorted(os.listdir(SEEDED))
        for mid in ids:
            if os.path.exists(os.path.join(SEEDED, mid, "meta.json")):
                print("detect", *detect(mid, tier), flush=True)


if __name__ == "__main__":
    main(sys.argv[1:])
