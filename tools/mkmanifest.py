#!/usr/bin/env python3
"""Write MANIFEST.json from theorems/C*.json (key "manifest": text/note/technique/design_ref; "claimed": bool, "na_reason")."""
import glob
import json
import os

ROOT = os.path.dirname(os.path.dirname(os.path.abspath(__file__)))
base_cmd = json.load(open("/root/.vp/BASELINE.json"))["cmd"] if os.path.exists("/root/.vp/BASELINE.json") else ""
old = json.load(open(os.path.join(ROOT, "MANIFEST.json")))
props = [json.loads(l)["id"] for l in open(os.path.join(ROOT, "properties.jsonl"))]
checks, na, served = [], [], []
CLAIMED = [l.strip() for l in open(os.path.join(ROOT, "theorems", "CLAIMED")) if l.strip() and not l.startswith("#")]


def default_manifest(pid, spec):
    th = spec["theorems"]
    kinds = {}
    for t in th:
        kinds[t.get("kind", "full")] = kinds.get(t.get("kind", "full"), 0) + 1
    fulls = [t.get("gloss", t["name"].split(".")[-1]) for t in th if t.get("kind", "full") == "full"][:7]
    text = (f"Machine-checked proof in Lean 4 ({len(th)} theorems: " + ", ".join(f"{v} {k}" for k, v in sorted(kinds.items())) + "; the gen-obligations are re-proved against "
            "/repo's current source on every run). Proved for all inputs/histories the statements quantify over: " + "; ".join(fulls)[:1500] + ". "
            + ("Partial / not claimed: " + " | ".join(spec.get("partial", []))[:1200] + ". " if spec.get("partial") else "")
            + f"The model is tied to the code by tools/gen.py (units {', '.join(spec.get('gen_units', [])) or '-'}) and by the correspondence harness tools/harness/{pid.lower()}.py, which runs the real classes and "
            "the Lean model driver on the same cases and evaluates the property's own statement on the implementation (direct oracle); a broken proof/tie triggers a failing-input search.")
    note = ("Trusted: Lean 4.33 kernel (axioms propext, Classical.choice, Quot.sound only; no sorry/native_decide); tools/gen.py + plugins (translation/extraction); "
            "hand-modelled, validated by differential execution not verified: " + "; ".join(spec.get("hand_modelled", []))[:900]
            + ". Assumptions: " + "; ".join(spec.get("assumptions", []))[:900])
    return {"text": text, "note": note, "technique": "Lean 4 theorems (induction / invariants / decide over generated tables) over generated + hand models, tied by translation and a correspondence harness"}


for pid in props:
    f = os.path.join(ROOT, "theorems", f"{pid}.json")
    spec = json.load(open(f)) if os.path.exists(f) else None
    if spec is not None and pid in CLAIMED and "manifest" not in spec:
        spec["manifest"] = default_manifest(pid, spec)
    if spec is None or pid not in CLAIMED:
        reason = (spec or {}).get("na_reason", "check not built yet in this round (model, theorems and correspondence harness pending); not a statement that the technique cannot apply")
        na.append({"property_id": pid, "reason": reason})
        continue
    m = spec["manifest"]
    served.append(pid)
    checks.append({
        "property_id": pid,
        "quick_cmd": f"./check {pid} quick",
        "thorough_cmd": f"./check {pid} thorough",
        "evidence_file": f"evidence/{pid}.json",
        "replay_cmd_template": f"./check {pid} --replay {{path}}",
        "engine": "lean-proof",
        "level_claimed": {"category": "proof", "text": m["text"], "design_ref": m.get("design_ref", f"DESIGN.md §5 {pid}")},
        "level_note": m["note"],
        "technique": m.get("technique", "Lean 4 theorems over a model tied to the source by translation (gen.py) and a correspondence harness"),
    })
manifest = {
    "version": 1,
    "setup_cmd": "python3 tools/setup.py",
    "hooks": {"guard": "SECSGEM_VERIF", "enable": "unused - the harnesses monkeypatch in-process; there are no source hooks in /repo",
              "baseline_off_cmd": base_cmd or old["hooks"]["baseline_off_cmd"], "source_commits": [], "add_only": True},
    "engines": [{"name": "lean-proof", "path": "lean/", "serves_properties": served,
                 "kind_free_text": "Lean 4 theorems (lake project lean/, library SecsModel) over generated (tools/gen.py, regenerated from /repo on every run) and hand-written models; "
                                   "correspondence harness tools/harness/cXX.py drives the real classes and the native model driver lean/Driver.lean on the same inputs; orchestrated by tools/check.py"}],
    "checks": checks,
    "notes": "See DESIGN.md and BUILDING.md. Known findings: known_findings.txt. Per-property theorem index: theorems/Cxx.json.",
    "not_applicable": na,
}
json.dump(manifest, open(os.path.join(ROOT, "MANIFEST.json"), "w"), indent=1)
print(f"claimed {len(checks)}: {served}; not claimed {len(na)}")
