#!/usr/bin/env python3
"""Write MANIFEST.json from theorems/C*.json (key "manifest": text/note/technique/design_ref; "claimed": bool, "na_reason")."""
import glob
import json
import os

ROOT = os.path.dirname(os.path.dirname(os.path.abspath(__file__)))
base_cmd = json.load(open("/root/.vp/BASELINE.json"))["cmd"] if os.path.exists("/root/.vp/BASELINE.json") else ""
old = json.load(open(os.path.join(ROOT, "MANIFEST.json")))
props = [json.loads(l)["id"] for l in open(os.path.join(ROOT, "properties.jsonl"))]
checks, na, served = [], [], []
for pid in props:
    f = os.path.join(ROOT, "theorems", f"{pid}.json")
    spec = json.load(open(f)) if os.path.exists(f) else None
    if spec is None or not spec.get("claimed", True) or "manifest" not in spec:
        reason = (spec or {}).get("na_reason", "check not built yet in this round (model, theorems and correspondence harness pending); not a statement that the technique cannot apply")
        na.append({"property_id": pid, "reason": reason})
        continue
    m = spec["manifest"]
    served.append(pid)
    checks.append({
        "property_id": pid,
        "quick_cmd": f"./check {pid} quick",
        "thorough_cmd": f"./check {pid} thorough",
        "evidence_file": f"evidence/{pid}.json",
        "replay_cmd_template": f"./check {pid} --replay {{path}}",
        "engine": "lean-proof",
        "level_claimed": {"category": "proof", "text": m["text"], "design_ref": m.get("design_ref", f"DESIGN.md §5 {pid}")},
        "level_note": m["note"],
        "technique": m.get("technique", "Lean 4 theorems over a model tied to the source by translation (gen.py) and a correspondence harness"),
    })
manifest = {
    "version": 1,
    "setup_cmd": "python3 tools/setup.py",
    "hooks": {"guard": "SECSGEM_VERIF", "enable": "unused - the harnesses monkeypatch in-process; there are no source hooks in /repo",
              "baseline_off_cmd": base_cmd or old["hooks"]["baseline_off_cmd"], "source_commits": [], "add_only": True},
    "engines": [{"name": "lean-proof", "path": "lean/", "serves_properties": served,
                 "kind_free_text": "Lean 4 theorems (lake project lean/, library SecsModel) over generated (tools/gen.py, regenerated from /repo on every run) and hand-written models; "
                                   "correspondence harness tools/harness/cXX.py drives the real classes and the native model driver lean/Driver.lean on the same inputs; orchestrated by tools/check.py"}],
    "checks": checks,
    "notes": "See DESIGN.md and BUILDING.md. Known findings: known_findings.txt. Per-property theorem index: theorems/Cxx.json.",
    "not_applicable": na,
}
json.dump(manifest, open(os.path.join(ROOT, "MANIFEST.json"), "w"), indent=1)
print(f"claimed {len(checks)}: {served}; not claimed {len(na)}")
