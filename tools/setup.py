#!/usr/bin/env python3
"""MANIFEST.setup_cmd: regenerate Gen/ and Driver.lean from /repo, build every claimed property's modules and the model driver.
Offline; only files on disk.  Exit 0 if the driver and all modules built (a module that does not build is reported; the
per-property check will report it again as a proof break, so setup itself only fails when nothing usable was built)."""
import glob
import json
import os
import subprocess
import sys

ROOT = os.path.dirname(os.path.dirname(os.path.abspath(__file__)))
LEAN = os.path.join(ROOT, "lean")


def sh(cmd, cwd=None):
    p = subprocess.run(cmd, cwd=cwd, stdout=subprocess.PIPE, stderr=subprocess.STDOUT, check=False)
    return p.returncode, p.stdout.decode(errors="replace")


rc, out = sh([sys.executable, os.path.join(ROOT, "tools", "gen.py")])
print(out.strip()[-1500:])
sys.path.insert(0, os.path.join(ROOT, "tools"))
import buildlib  # noqa: E402

mods = []
claimed = [l.strip() for l in open(os.path.join(ROOT, "theorems", "CLAIMED")) if l.strip() and not l.startswith("#")]
for f in sorted(glob.glob(os.path.join(ROOT, "theorems", "C*.json"))):
    spec = json.load(open(f))
    if os.path.basename(f)[:-5] in claimed:
        mods += spec["modules"]
bad = 0
rc, out = sh(["lake", "build"] + mods, cwd=LEAN)
if rc != 0:
    print(out[-3000:])
    for m in mods:  # build one by one so that everything that can be built is built
        if sh(["lake", "build", m], cwd=LEAN)[0] != 0:
            bad += 1
            print(f"setup: {m} does not build")
ok, domains, excluded, errs = buildlib.build_driver()
print(f"setup: {len(mods)} modules ({bad} failed); driver ok={ok} domains={sorted(domains)} excluded={excluded} {errs}")
sys.exit(0 if ok else 1)
